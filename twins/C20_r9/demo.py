"""Equivalence evidence for r9: SampleHeaderConstruct (smpl_extract/akai/sample.py),
the `size=` / `offset=` arguments of the "data_stream" SubStreamConstruct.

1. parses many random 140-byte AKAI sample headers (+ data, optionally at a
   non-zero stream position) with the live SampleHeaderConstruct and with an
   inline copy of the ORIGINAL one (size/offset spelled as construct `this`
   expressions); compares every parsed field, the geometry of the resulting
   data stream (offset, size), the bytes it yields, the stream position after
   parsing and - through SampleAdapter - the text `ls` would print;
2. digs the live size/offset callables out of the live construct and calls them
   and the original `this` expressions on hand-made contexts (missing keys,
   negative / float / huge values, non-mapping contexts, key-access recording)
   and compares results, exceptions and the order of context look-ups.
Exit 0 = all agree, 1 = a difference was found.
"""
import io
import random
import struct
import sys
from dataclasses import fields

from construct.core import Int16ul
from construct.core import Int32ul
from construct.core import Int8sl
from construct.core import Int8ul
from construct.core import Padding
from construct.core import Struct
from construct.core import Tell
from construct.expr import this
from construct.lib.containers import Container

from smpl_extract.akai import sample as live_module
from smpl_extract.akai.akai_string import AkaiPaddedString
from smpl_extract.akai.data_types import AKAI_SAMPLE_WORDLENGTH
from smpl_extract.akai.data_types import AkaiLoopType
from smpl_extract.akai.data_types import AkaiMidiNote
from smpl_extract.akai.data_types import AkaiTuneCents
from smpl_extract.akai.data_types import SampleType
from smpl_extract.akai.sample import LoopDataConstruct
from smpl_extract.akai.sample import LoopEntryAdapter
from smpl_extract.akai.sample import SampleAdapter
from smpl_extract.akai.sample import SampleHeaderConstruct
from smpl_extract.util.constructs import EnumWrapper
from smpl_extract.util.stream import StreamOffset
from smpl_extract.util.stream import SubStreamConstruct


# --------------------------------------------------------------------------
# inline copy of the ORIGINAL implementation
# --------------------------------------------------------------------------
ORIG_SIZE_EXPR = (AKAI_SAMPLE_WORDLENGTH * \
    (this.play_end - this.play_start)
)
ORIG_OFFSET_EXPR = (
    this.data_address + (AKAI_SAMPLE_WORDLENGTH * \
        this.play_start)
)

OriginalSampleHeaderConstruct = Struct(
    "id"                    / EnumWrapper(Int8ul, SampleType),
    Padding(1),
    "note_pitch"            / AkaiMidiNote(Int8ul),
    "sample_name"           / AkaiPaddedString(12),
    Padding(4),
    "loop_type"             / EnumWrapper(Int8ul, AkaiLoopType),
    "pitch_offset_cents"    / AkaiTuneCents(Int8sl),
    "pitch_offset_semi"     / Int8sl,
    Padding(4),
    "samples_cnt"           / Int32ul,
    "play_start"            / Int32ul,
    "play_end"              / Int32ul,
    "loop_data_table"       / LoopEntryAdapter(LoopDataConstruct)[8],
    Padding(4),
    "sampling_rate"         / Int16ul,
    "data_address"          / Tell,
    "data_stream"           / SubStreamConstruct(
                                StreamOffset,
                                size=(AKAI_SAMPLE_WORDLENGTH * \
                                    (this.play_end - this.play_start)
                                ),
                                offset=(
                                    this.data_address + (AKAI_SAMPLE_WORDLENGTH * \
                                        this.play_start)
                                )
                            )
).compile()


failures = 0
checked = 0


def fail(*msg):
    global failures
    failures += 1
    if failures <= 5:
        print("MISMATCH", *[repr(m)[:300] for m in msg])


# --------------------------------------------------------------------------
# 1. parsing random headers
# --------------------------------------------------------------------------
def make_header(rng, play_start=None, play_end=None, data_len=None):
    sid = rng.choice([1, 3] * 10 + [0, 2, 7])
    note = rng.randrange(0, 128) if rng.random() < 0.9 else rng.randrange(256)
    name = bytes(rng.randrange(0, 0x29) for _ in range(12))
    if rng.random() < 0.03:
        name = bytes(rng.randrange(256) for _ in range(12))
    loop_type = rng.choice([0, 1, 2, 3, 4] * 6 + [9, 255])
    cents = rng.randrange(-128, 128)
    semi = rng.randrange(-128, 128)
    if play_start is None:
        play_start = rng.choice([0, 0, 1, rng.randrange(0, 60),
                                 rng.randrange(1 << 32)])
    if play_end is None:
        play_end = rng.choice([play_start, play_start + rng.randrange(0, 60),
                               rng.randrange(0, 60), rng.randrange(1 << 32)])
        play_end &= 0xFFFFFFFF
    samples_cnt = rng.randrange(1 << 32)
    loops = b""
    for i in range(8):
        loops += struct.pack(
            "<IHIH", rng.randrange(1 << 32) if rng.random() < 0.5
            else rng.randrange(100), rng.randrange(65536),
            rng.randrange(1 << 32) if rng.random() < 0.5 else rng.randrange(100),
            rng.choice([0, 0, 1, 5, 9998, 9999, 65535, rng.randrange(65536)]))
    rate = rng.choice([0, 0, 44100, 22050, 1, 65535, rng.randrange(65536)])
    head = (
        struct.pack("<BBB", sid, rng.randrange(256), note) + name
        + bytes(rng.randrange(256) for _ in range(4))
        + struct.pack("<Bbb", loop_type, cents, semi)
        + bytes(rng.randrange(256) for _ in range(4))
        + struct.pack("<III", samples_cnt, play_start, play_end)
        + loops
        + bytes(rng.randrange(256) for _ in range(4))
        + struct.pack("<H", rate)
    )
    assert len(head) == 140
    if data_len is None:
        data_len = rng.choice([0, 1, 10, 77, 200, 400])
    data = bytes(rng.randrange(256) for _ in range(data_len))
    return head + data


def describe_header(parser, blob, lead):
    """parse `blob` placed `lead` bytes into a stream; report everything"""
    stream = io.BytesIO(bytes(range(256))[:lead] * 1 + blob)
    stream.seek(lead)
    try:
        con = parser.parse_stream(stream)
    except Exception as e:  # noqa
        return ("exc", type(e).__name__, str(e), stream.tell())
    out = {}
    for key, value in con.items():
        if key == "_io":
            continue
        if key == "data_stream":
            ds = value
            geometry = (
                type(ds).__name__, ds.offset, ds.end_of_file, ds.position,
                ds.buffer_length, ds.substream is stream
            )
            try:
                first = ds.read(7)
                rest = ds.read(None)
                ds.seek(0, 0)
                again = ds.read(1 << 20)
                ds.seek(3, 0)
                tail = ds.read(5)
                content = ("ok", first, rest, again, tail, ds.tell())
            except Exception as e:  # noqa
                content = ("exc", type(e).__name__, str(e))
            out[key] = (geometry, content)
        else:
            out[key] = (type(value).__name__, repr(value))
    out["__keys__"] = [k for k in con.keys()]
    return ("ok", out)


def describe_ls(adapter, blob):
    try:
        sample = adapter.parse(blob, _elem_name="SMP")
    except Exception as e:  # noqa
        return ("exc", type(e).__name__, str(e))
    out = {}
    for f in fields(sample):
        v = getattr(sample, f.name)
        if f.name == "_data_stream":
            try:
                v.seek(0, 0)
                v = ("stream", v.offset, v.end_of_file, v.read(1 << 20))
            except Exception as e:  # noqa
                v = ("stream-exc", type(e).__name__, str(e))
        out[f.name] = repr(v)
    out["info"] = sample.get_info().to_string()
    return ("ok", out)


rng = random.Random(20)
cases = [make_header(rng) for _ in range(1200)]
# systematic small start/end/data-length grid, incl. end < start and
# regions that reach beyond the available data
for ps in (0, 1, 2, 5, 50, 99, 100, 101):
    for pe in (0, 1, 2, 5, 50, 99, 100, 101, 0xFFFFFFFF):
        for dl in (0, 1, 199, 200, 201):
            cases.append(make_header(rng, ps, pe, dl))
cases += [b"", bytes(139), bytes(140), bytes(141), b"\x01" * 140, b"\xff" * 300]

live_adapter = SampleAdapter(SampleHeaderConstruct)
orig_adapter = SampleAdapter(OriginalSampleHeaderConstruct)

for n, blob in enumerate(cases):
    for lead in (0, 13) if n % 3 == 0 else (0,):
        checked += 1
        a = describe_header(SampleHeaderConstruct, blob, lead)
        b = describe_header(OriginalSampleHeaderConstruct, blob, lead)
        if a != b:
            fail("parse", n, lead, a, b)
    checked += 1
    a = describe_ls(live_adapter, blob)
    b = describe_ls(orig_adapter, blob)
    if a != b:
        fail("ls", n, a, b)


# --------------------------------------------------------------------------
# 2. the size / offset callables on hand-made contexts
# --------------------------------------------------------------------------
def find_data_stream_construct(con):
    seen = set()
    todo = [con]
    while todo:
        c = todo.pop()
        if id(c) in seen:
            continue
        seen.add(id(c))
        if isinstance(c, SubStreamConstruct):
            return c
        for attr in ("defersubcon", "subcon"):
            sub = getattr(c, attr, None)
            if sub is not None:
                todo.append(sub)
        todo.extend(getattr(c, "subcons", []) or [])
    raise LookupError("no SubStreamConstruct in SampleHeaderConstruct")


live_ds = find_data_stream_construct(SampleHeaderConstruct)
assert live_ds.substream_class is StreamOffset and live_ds.args == ()
assert sorted(live_ds.kwargs) == ["offset", "size"], live_ds.kwargs
assert list(live_ds.kwargs) == ["size", "offset"], live_ds.kwargs
LIVE_SIZE = live_ds.kwargs["size"]
LIVE_OFFSET = live_ds.kwargs["offset"]
assert callable(LIVE_SIZE) and callable(LIVE_OFFSET)


class Recording(dict):
    """dict that records the order of key look-ups"""
    def __init__(self, *a, **k):
        super().__init__(*a, **k)
        self.log = []

    def __getitem__(self, key):
        self.log.append(key)
        return super().__getitem__(key)


class Weird:
    """operand that records which arithmetic was applied to it"""
    def __init__(self, tag):
        self.tag = tag

    def __repr__(self):
        return "W(%s)" % (self.tag,)

    def __eq__(self, other):
        return isinstance(other, Weird) and self.tag == other.tag

    def __sub__(self, o):
        return Weird(("sub", self.tag, repr(o)))

    def __rsub__(self, o):
        return Weird(("rsub", self.tag, repr(o)))

    def __mul__(self, o):
        return Weird(("mul", self.tag, repr(o)))

    def __rmul__(self, o):
        return Weird(("rmul", self.tag, repr(o)))

    def __add__(self, o):
        return Weird(("add", self.tag, repr(o)))

    def __radd__(self, o):
        return Weird(("radd", self.tag, repr(o)))


def call(fn, make_ctx):
    ctx = make_ctx()
    try:
        res = fn(ctx)
        out = ("ok", type(res).__name__, repr(res))
    except Exception as e:  # noqa
        out = ("exc", type(e).__name__, str(e))
    return out, getattr(ctx, "log", None)


values = [0, 1, 2, 7, 140, 150, 2**31, 2**32 - 1, 2**40, -1, -5, 1.5, -0.0,
          True, None, "3", b"x", [1], (2,), Weird("a"), Weird("b"),
          float("inf"), float("nan"), 3 + 2j]
ctx_makers = []
for _ in range(1500):
    kv = dict(
        play_start=rng.choice(values),
        play_end=rng.choice(values),
        data_address=rng.choice(values)
    )
    for key in list(kv):
        if rng.random() < 0.12:
            del kv[key]        # missing key -> KeyError, order matters
    ctx_makers.append(lambda kv=kv: Recording(kv))
    ctx_makers.append(lambda kv=kv: Container(kv))
for a in range(-3, 40):
    for b in range(-3, 40, 3):
        ctx_makers.append(lambda a=a, b=b: Recording(
            play_start=a, play_end=b, data_address=a * b + 140))
ctx_makers += [
    lambda: None, lambda: 5, lambda: "ctx", lambda: [1, 2, 3], lambda: {},
    lambda: Recording(), lambda: Container(),
]

for mk in ctx_makers:
    checked += 1
    a = call(LIVE_SIZE, mk)
    b = call(ORIG_SIZE_EXPR, mk)
    # nan != nan: compare the reprs that `call` produced
    if a != b:
        fail("size", mk(), a, b)
    checked += 1
    a = call(LIVE_OFFSET, mk)
    b = call(ORIG_OFFSET_EXPR, mk)
    if a != b:
        fail("offset", mk(), a, b)

print("checked %d comparisons, %d mismatches" % (checked, failures))
sys.exit(1 if failures else 0)
