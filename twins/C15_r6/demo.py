"""Equivalence demo for r6: smpl_extract.generalized.wav
(WavSampleAdapter._encode data-chunk construction and export_wav).

Compares the (possibly refactored) module against an inline copy of the
ORIGINAL adapter / export function on many samples, including truncated
(short-read) streams, empty streams, channel mismatches and no streams.
Exit 0 when everything agrees, 1 otherwise.
"""
from io import BytesIO
import os
import random
import sys
import tempfile

from construct import Adapter
from construct import Container

from smpl_extract.data_streams import DataStream
from smpl_extract.data_streams import Endianess
from smpl_extract.data_streams import NoDataStream
from smpl_extract.data_streams import StreamEncoding
from smpl_extract.formats.wav import RiffStruct
from smpl_extract.formats.wav import WavRiffChunkType
from smpl_extract.generalized import wav as wav_mod
from smpl_extract.generalized.sample import LoopRegion
from smpl_extract.generalized.sample import LoopType
from smpl_extract.generalized.sample import Sample
from smpl_extract.generalized.wav import get_fmt_chunk_data
from smpl_extract.generalized.wav import get_smpl_chunk_data
from smpl_extract.midi import MidiNote
from smpl_extract.transcoder import make_transcoder
from smpl_extract.transcoder import PassthroughTranscoder
from smpl_extract.transcoder import PipelineTranscoder
from smpl_extract.util.stream import SectorReadError


# --------------------------------------------------------------------------
# ORIGINAL implementation (verbatim copy)
# --------------------------------------------------------------------------
class WavSampleAdapterOriginal(Adapter):

    def _encode(self, obj: Sample, context, path) -> Container:
        del context, path  # Unused
        sample = obj

        if len(sample.data_streams) < 1:
            raise NoDataStream("Sample has no data stream")

        dest_encoding = StreamEncoding(
            endianess=Endianess.LITTLE,  # WAV Specification
            sample_width=sample.data_streams[0].encoding.sample_width,
            num_interleaved_channels=sample.num_channels
        )

        riff_chunks = []

        # fmt chunk
        riff_chunks.append(Container({
            "riff_id":  WavRiffChunkType.FMT,
            "data":     get_fmt_chunk_data(sample, dest_encoding)
        }))

        # smpl chunk
        requires_smpl_chunk = any((x is not None for x in (
                sample.midi_note,
                sample.pitch_offset_cents,
                sample.pitch_offset_semi
            ))) or len(sample.loop_regions) > 0

        if requires_smpl_chunk:
            riff_chunks.append(Container({
                "riff_id":  WavRiffChunkType.SMPL,
                "data":     get_smpl_chunk_data(sample)
            }))

        # data chunk
        data_generator = make_transcoder(sample.data_streams, dest_encoding)
        riff_chunks.append(Container({
            "riff_id":  WavRiffChunkType.DATA,
            "data":     data_generator
        }))

        result = Container({
            "data": Container({
                "chunks": riff_chunks
            })
        })
        return result

    def _decode(self, obj, context, path):
        raise NotImplementedError


WavSampleBuilderOriginal = WavSampleAdapterOriginal(RiffStruct)


def export_wav_original(sample: Sample, file_path: str):
    with open(file_path, "wb") as export_stream:
        WavSampleBuilderOriginal.build_stream(sample, export_stream)
    return


# --------------------------------------------------------------------------
# Instrumented source stream
# --------------------------------------------------------------------------
class LoggedStream:
    def __init__(self, name, data, log, fail_at=None):
        self.name = name
        self.data = data
        self.pos = 0
        self.log = log
        self.fail_at = fail_at

    def read(self, size):
        self.log.append((self.name, "read", size, self.pos))
        end = self.pos + size
        if self.fail_at is not None and end > self.fail_at:
            raise SectorReadError("short sector")
        result = self.data[self.pos:end]
        self.pos += len(result)
        return result

    def seek(self, offset, whence=0):
        self.log.append((self.name, "seek", offset, whence))
        if whence == 0:
            self.pos = offset
        elif whence == 1:
            self.pos += offset
        else:
            self.pos = len(self.data) + offset
        return self.pos

    def tell(self):
        self.log.append((self.name, "tell"))
        return self.pos


rnd = random.Random(1506)
NOTES = [None, MidiNote.from_string("C3"), MidiNote.from_string("F#5"),
         MidiNote.from_string("A0")]


def random_spec():
    width = rnd.choice([1, 2, 2, 2, 3, 4])
    layout = rnd.choice(["mono_le", "mono_be", "split", "split_mixed",
                         "inter_le", "inter_be", "none", "mismatch"])
    length = rnd.choice([0, 1, 2, 3, 64, 1000, 4096, 4097, 8192, 10001])
    if layout == "mono_le":
        encs, nch = [(Endianess.LITTLE, 1)], 1
    elif layout == "mono_be":
        encs, nch = [(Endianess.BIG, 1)], 1
    elif layout == "split":
        encs, nch = [(Endianess.LITTLE, 1)] * 2, 2
    elif layout == "split_mixed":
        encs, nch = [(Endianess.LITTLE, 1), (Endianess.BIG, 1)], 2
    elif layout == "inter_le":
        encs, nch = [(Endianess.LITTLE, 2)], 2
    elif layout == "inter_be":
        encs, nch = [(Endianess.BIG, 2)], 2
    elif layout == "none":
        encs, nch = [], 1
    else:
        encs, nch = [(Endianess.LITTLE, 1)] * 2, 3
    streams = []
    for endian, ich in encs:
        n = length + rnd.choice([0, 0, 0, 1, 7])
        data = bytes(rnd.randrange(256) for _ in range(n))
        fail_at = rnd.choice([None, None, None, 0, n // 3, max(0, n - 1)])
        streams.append((data, endian, width, ich, fail_at))
    loops = []
    for _ in range(rnd.choice([0, 0, 1, 2])):
        start = rnd.randrange(0, 500)
        end = start + rnd.choice([0, 1, 100])
        loops.append(dict(
            start_sample=start, end_sample=end,
            loop_type=rnd.choice(list(LoopType)),
            repeat_forever=rnd.choice([True, False]),
            play_cnt=rnd.choice([None, 0, 3]),
            duration=rnd.choice([None, 0.5, 2.0])
        ))
    return dict(
        streams=streams, nch=nch, loops=loops,
        sample_rate=rnd.choice([0, 22050, 44100, 48000]),
        midi_note=rnd.choice(NOTES),
        semi=rnd.choice([None, None, 0, -3, 7]),
        cents=rnd.choice([None, None, 0, -20, 49]),
    )


def make_sample(spec, log):
    data_streams = [
        DataStream(
            LoggedStream("s%d" % i, data, log, fail_at),
            StreamEncoding(endianess=endian, sample_width=width,
                           num_interleaved_channels=ich)
        )
        for i, (data, endian, width, ich, fail_at)
        in enumerate(spec["streams"])
    ]
    return Sample(
        name="demo",
        sample_rate=spec["sample_rate"],
        num_channels=spec["nch"],
        data_streams=data_streams,
        loop_regions=[LoopRegion(**kw) for kw in spec["loops"]],
        midi_note=spec["midi_note"],
        pitch_offset_semi=spec["semi"],
        pitch_offset_cents=spec["cents"],
    )


def describe_encoded(container):
    """Structural description of the _encode result (no identity)."""
    assert type(container) is Container
    out = [("top", list(container.keys()))]
    inner = container["data"]
    out.append(("inner", type(inner), list(inner.keys())))
    chunks = inner["chunks"]
    out.append(("chunks", type(chunks), len(chunks)))
    for chunk in chunks:
        data = chunk["data"]
        if isinstance(data, PassthroughTranscoder):
            desc = ("passthrough", id(data.data_stream.stream) and 0,
                    data.data_stream.encoding, data.buffer_size)
        elif isinstance(data, PipelineTranscoder):
            desc = ("pipeline", len(data.data_streams),
                    [p[0] for p in data.pipeline.processes])
        else:
            desc = ("value", type(data), dict(data), repr(data))
        out.append((type(chunk), list(chunk.keys()), int(chunk["riff_id"]),
                    str(chunk["riff_id"]), desc))
    return out


def run_encode(builder, spec):
    log = []
    sample = make_sample(spec, log)
    try:
        res = describe_encoded(builder._encode(sample, None, None))
        out = ("ok", res)
    except BaseException as e:  # noqa
        out = ("exc", type(e), str(e))
    return out, log


def run_build(builder, spec):
    log = []
    sample = make_sample(spec, log)
    sink = BytesIO()
    try:
        ret = builder.build_stream(sample, sink)
        out = ("ok", ret)
    except BaseException as e:  # noqa
        out = ("exc", type(e), str(e))
    return out, sink.getvalue(), log


def run_export(f_export, spec, tmpdir, tag):
    log = []
    sample = make_sample(spec, log)
    path = os.path.join(tmpdir, tag + ".wav")
    try:
        ret = f_export(sample, path)
        out = ("ok", ret)
    except BaseException as e:  # noqa
        out = ("exc", type(e), str(e))
    exists = os.path.exists(path)
    content = None
    if exists:
        with open(path, "rb") as f:
            content = f.read()
        os.remove(path)
    return out, exists, content, log


failures = 0
checks = 0


def check(a, b, label):
    global failures, checks
    checks += 1
    if a != b:
        failures += 1
        print("MISMATCH", label)
        print("  original  :", repr(a)[:600])
        print("  refactored:", repr(b)[:600])


with tempfile.TemporaryDirectory() as tmpdir:
    for trial in range(700):
        spec = random_spec()
        check(run_encode(WavSampleBuilderOriginal, spec),
              run_encode(wav_mod.WavSampleBuilder, spec),
              ("encode", trial))
        check(run_build(WavSampleBuilderOriginal, spec),
              run_build(wav_mod.WavSampleBuilder, spec),
              ("build", trial))
        check(run_export(export_wav_original, spec, tmpdir, "a"),
              run_export(wav_mod.export_wav, spec, tmpdir, "b"),
              ("export", trial))

    # export into a path that cannot be opened: same exception, no build
    spec = random_spec()
    bad = os.path.join(tmpdir, "missing_dir")

    def export_bad(f_export):
        log = []
        sample = make_sample(spec, log)
        try:
            f_export(sample, os.path.join(bad, "x.wav"))
            return "ok", log
        except BaseException as e:  # noqa
            return ("exc", type(e), e.errno), log

    check(export_bad(export_wav_original), export_bad(wav_mod.export_wav),
          "bad path")

# the adapter still wraps the very same struct
check(WavSampleBuilderOriginal.subcon is RiffStruct,
      wav_mod.WavSampleBuilder.subcon is RiffStruct, "subcon")

print("checks: %d  failures: %d" % (checks, failures))
sys.exit(1 if failures else 0)
