"""Equivalence demo for r12: smpl_extract/roland/s7xx/sample_file.py
SampleFileListAdapter._decode (mechanism 'per-performance sample collection').
The "dict used as ordered set" (index -> SampleFile, `not in d.keys()`,
`list(d.values())`) was re-spelled as an explicit `seen_indices` set plus a
result list, with the nested `if` turned into a `continue` guard and the
`sample_file` temporary inlined.

An inline copy of the ORIGINAL adapter is compared with the working-tree one on
  (1) random patches built from real SampleEntry objects (shared / repeated /
      unique indices over 0..4 partials x 0..4 samples), decoded through the
      real SampleFileAdapter: the list of SampleFile field tuples, parents and
      paths must match,
  (2) traced fake entries: the exact order in which partial_entries,
      sample_entries, index and the decode calls happen, also when one of them
      raises half-way (exception type/message and the trace so far),
  (3) odd index values (1 / 1.0 / True collisions, None, tuples, nan,
      unhashable lists),
  (4) precomputed expectations.
Exit 0 when everything agrees, 1 otherwise.
"""
import io
import random
import sys
from typing import cast

from construct.core import Adapter
from construct.core import Pass
from construct.lib.containers import Container

from smpl_extract.roland.s7xx import sample_file as sf_mod
from smpl_extract.roland.s7xx.patch_entry import PatchEntry
from smpl_extract.roland.s7xx.sample_entry import SampleEntry
from smpl_extract.roland.s7xx.sample_file import SampleFile
from smpl_extract.roland.s7xx.sample_file import SampleFileAdapter
from smpl_extract.roland.s7xx.sample_file import SampleFileListAdapter


# ---------------------------------------------------------------- original --
class OriginalSampleFileListAdapter(Adapter):

    def _decode(self, obj, context, path):
        patch_entry = cast(PatchEntry, obj)
        sc = sf_mod.SampleFileAdapter(Pass)

        sample_files = {}
        for partial_entry in patch_entry.partial_entries:
            for sample_entry in partial_entry.sample_entries:
                if sample_entry.index not in sample_files.keys():
                    sample_file = sc._decode(sample_entry, context, path)
                    sample_files[sample_entry.index] = sample_file

        return list(sample_files.values())

    def _encode(self, obj, context, path):
        raise NotImplementedError


failures = 0
checks = 0


def check(label, a, b):
    global failures, checks
    checks += 1
    if a != b:
        failures += 1
        print("MISMATCH", label, str(a)[:160], "|", str(b)[:160])


class Boom(Exception):
    pass


# ------------------------------------------------- (1) real SampleEntry data --
class Holder:
    def __init__(self, **kw):
        self.__dict__.update(kw)


class FakeParent:
    def __init__(self, path):
        self.path = path


def describe_sample_file(x):
    if not isinstance(x, SampleFile):
        return ("other", repr(x))
    return (x.name, x.loop_mode, x.original_key, x.sampling_frequency,
            x.sample_mode, id(x._data_stream), id(x._parent), tuple(x._path),
            x.start_sample, x.sustain_loop_end)


rng = random.Random(12)
for trial in range(400):
    pool = {}
    partials = []
    for p in range(rng.randint(0, 4)):
        entries = []
        for s in range(rng.randint(0, 4)):
            idx = rng.randint(0, 6)
            # distinct SampleEntry objects may share an index (as in an image)
            e = SampleEntry(
                directory_name=f"smp{idx}_{p}_{s}", parameter_name=f"par{idx}",
                index=idx, original_key=rng.randint(0, 127),
                sampling_frequency=rng.choice((48000, 44100, 30000)),
                _data_stream=io.BytesIO(bytes([idx, p, s])))
            if rng.random() < 0.3 and idx in pool:
                e = pool[idx]                    # ... or be the same object
            pool[idx] = e
            entries.append(e)
        partials.append(Holder(sample_entries=entries))
    patch = Holder(partial_entries=partials)
    parent = FakeParent(["vol", "perf", "patch"])
    ctx = Container(_elem_parent=parent, _elem_routines=[])
    a = OriginalSampleFileListAdapter(Pass)._decode(patch, ctx, "p")
    b = SampleFileListAdapter(Pass)._decode(patch, ctx, "p")
    check(f"real trial {trial}", (type(a), [describe_sample_file(x) for x in a]),
          (type(b), [describe_sample_file(x) for x in b]))


# ------------------------------------------------------- (2) traced fakes --
class TracedSample:
    def __init__(self, trace, label, index, fail=None):
        self._trace, self._label, self._index, self._fail = \
            trace, label, index, fail

    @property
    def index(self):
        self._trace.append(("index", self._label))
        if self._fail == "index":
            raise Boom(f"index {self._label}")
        return self._index


class TracedPartial:
    def __init__(self, trace, label, samples, fail=None):
        self._trace, self._label, self._samples, self._fail = \
            trace, label, samples, fail

    @property
    def sample_entries(self):
        self._trace.append(("sample_entries", self._label))
        if self._fail == "sample_entries":
            raise Boom(f"sample_entries {self._label}")
        if self._fail == "stop":
            raise StopIteration(f"stop {self._label}")
        return self._samples


class TracedPatch:
    def __init__(self, trace, partials, fail=None):
        self._trace, self._partials, self._fail = trace, partials, fail

    @property
    def partial_entries(self):
        self._trace.append(("partial_entries",))
        if self._fail:
            raise Boom("partial_entries")
        return self._partials


class TracedDecoder:
    """stands in for SampleFileAdapter(Pass)"""
    trace = None
    fail_label = None

    def __init__(self, subcon):
        TracedDecoder.trace.append(("construct-adapter",))

    def _decode(self, obj, context, path):
        TracedDecoder.trace.append(("decode", obj._label, id(context), path))
        if obj._label == TracedDecoder.fail_label:
            raise Boom(f"decode {obj._label}")
        return ("decoded", obj._label)


def traced_run(adapter_cls, layout, fail_kind, fail_label, as_iter):
    trace = []
    partials = []
    for pi, idxs in enumerate(layout):
        samples = []
        for si, idx in enumerate(idxs):
            label = f"{pi}.{si}"
            samples.append(TracedSample(
                trace, label, idx,
                "index" if (fail_kind == "index" and label == fail_label)
                else None))
        if as_iter:
            samples = iter(samples)
        partials.append(TracedPartial(
            trace, str(pi), samples,
            fail_kind if (fail_kind in ("sample_entries", "stop")
                          and str(pi) == fail_label) else None))
    patch = TracedPatch(trace, iter(partials) if as_iter else partials,
                        fail_kind == "partial_entries")
    TracedDecoder.trace = trace
    TracedDecoder.fail_label = fail_label if fail_kind == "decode" else None
    saved = sf_mod.SampleFileAdapter
    sf_mod.SampleFileAdapter = TracedDecoder
    ctx = {"k": 1}
    try:
        try:
            out = adapter_cls(Pass)._decode(patch, ctx, "the/path")
            res = ("ok", type(out).__name__, out)
        except BaseException as e:  # noqa
            res = ("exc", type(e).__name__, str(e))
    finally:
        sf_mod.SampleFileAdapter = saved
    ctx_id = id(ctx)
    trace = [tuple("CTX" if x == ctx_id else x for x in t) for t in trace]
    return res, trace


layouts = [
    [], [[]], [[], []], [[1]], [[1, 1]], [[1], [1]], [[1, 2, 3, 4]],
    [[1, 2], [2, 3], [3, 1]], [[5, 5, 5, 5], [5], [6, 5, 6]],
    [[0, 1, 2, 3], [3, 2, 1, 0], [4, 0, 4, 0], []],
    [[1, 1.0, True, 2], [2.0, 0, False]],
    [[None, None, (1, 2), (1, 2), "a", "a", b"a"]],
    [[float("nan"), float("nan")]],
    [[1, [2], 3]], [[[2]]], [[1], [{}]],
]
for _ in range(60):
    layouts.append([[rng.randint(0, 5) for _ in range(rng.randint(0, 4))]
                    for _ in range(rng.randint(0, 5))])
nan = float("nan")
layouts.append([[nan, nan, 1], [nan]])          # the same nan object twice

for li, layout in enumerate(layouts):
    labels = [f"{pi}.{si}" for pi, idxs in enumerate(layout)
              for si in range(len(idxs))]
    cases = [(None, None), ("partial_entries", None)]
    cases += [("decode", lb) for lb in labels]
    cases += [("index", lb) for lb in labels]
    cases += [("sample_entries", str(pi)) for pi in range(len(layout))]
    cases += [("stop", str(pi)) for pi in range(len(layout))]
    for fail_kind, fail_label in cases:
        for as_iter in (False, True):
            a = traced_run(OriginalSampleFileListAdapter, layout, fail_kind,
                           fail_label, as_iter)
            b = traced_run(SampleFileListAdapter, layout, fail_kind,
                           fail_label, as_iter)
            check(f"traced layout {li} {fail_kind}@{fail_label} iter={as_iter}",
                  a, b)

# ------------------------------------------------------- (4) precomputed --
res, trace = traced_run(SampleFileListAdapter, [[7, 8], [8, 9, 7]], None, None,
                        False)
check("precomputed result", res,
      ("ok", "list", [("decoded", "0.0"), ("decoded", "0.1"),
                      ("decoded", "1.1")]))
check("precomputed decode order",
      [t[1] for t in trace if t[0] == "decode"], ["0.0", "0.1", "1.1"])
check("precomputed first events", trace[:3],
      [("construct-adapter",), ("partial_entries",), ("sample_entries", "0")])

print(f"{checks} checks, {failures} failures")
sys.exit(1 if failures else 0)
