"""Equivalence demo for r3 (AkaiImageParser._load_partitions in
smpl_extract/akai/image.py).

The ORIGINAL _load_partitions is pasted below and run side by side with the
current one on
  A. synthetic AKAI images (1-4 partitions, garbage tails) cut at sector
     boundaries and at random interior offsets, parsed by the real
     PartitionParser, with and without routines installed;
  B. a scripted stand-in for PartitionParser that consumes bytes and then
     returns / raises InvalidPartition / ConstructError (and subclasses) /
     unrelated exceptions, to reach every exit of the loop.
Compared: partition names and order, exception (type, message), loaded
flag, final position of the shared image stream, the sequence of
seek/read/tell calls on it, and the arguments of every parser call.
"""
import struct
from construct.core import ConstructError
from construct.core import StreamError
from construct.core import ConstError
import io
import random
import sys
from typing import List, cast

import smpl_extract.akai.image as image_module
from smpl_extract.akai.data_types import AKAI_PARTITION_MAGIC
from smpl_extract.akai.data_types import AKAI_SECTOR_SIZE
from smpl_extract.akai.image import AkaiImageParser
from smpl_extract.akai.partition import InvalidPartition
from smpl_extract.akai.partition import Partition
from smpl_extract.akai.partition import PartitionParser as RealPartitionParser

# name looked up by the pasted original code; swapped together with
# image_module.PartitionParser in part B
PartitionParser = RealPartitionParser


class OriginalAkaiImageParser(AkaiImageParser):

    # verbatim copy of the original method
    def _load_partitions(self):
        partition_cnt = 0
        partitions = []
        while self.file.tell() < self.file_size:
            name = chr(ord("A") + partition_cnt)
            try:
                partition = PartitionParser.parse_stream(
                    self.file,  # type: ignore
                    _elem_name=name,
                    _elem_parent=self,
                    _elem_routines=self._routines
                )
            except (InvalidPartition, ConstructError, struct.error) as e:  # as in the tree after the struct.error fix
                break
            partitions.append(partition)
            partition_cnt += 1

        for routine in self._routines.values():
            partitions = routine(partitions)
        self._partitions = cast(List[Partition], partitions)
        self._partitions_loaded_flag = True


class LoggingBytesIO(io.BytesIO):
    def __init__(self, data):
        super().__init__(data)
        self.log = []

    def seek(self, offset, whence=0):
        r = super().seek(offset, whence)
        self.log.append(("seek", offset, whence, r))
        return r

    def read(self, size=-1):
        r = super().read(size)
        self.log.append(("read", size, len(r)))
        return r

    def tell(self):
        r = super().tell()
        self.log.append(("tell", r))
        return r


def make_partition(size_sectors, rng, garbage_header=False):
    x = size_sectors // 128 - 1
    hdr = (
        size_sectors.to_bytes(2, "little") + b"\0\0" + AKAI_PARTITION_MAGIC
        + bytes([0x55 if x % 2 == 0 else 0xD5, (x // 2 + 0xBA) & 0xFF])
        + b"\x2f\x00"
    )
    if garbage_header:
        hdr = hdr[:10] + b"\xff\xff" + hdr[12:]
    body = bytearray(size_sectors * AKAI_SECTOR_SIZE - len(hdr))
    return hdr + bytes(body)


class OtherError(Exception):
    pass


class MyInvalid(InvalidPartition):
    pass


class FakeParser:
    """Scripted PartitionParser: each step = (bytes consumed, outcome)."""

    def __init__(self, script):
        self.script = list(script)
        self.calls = []

    def parse_stream(self, stream, **kw):
        i = len(self.calls)
        consume, outcome = self.script[i] if i < len(self.script) \
            else (0, ConstError("end of script"))
        self.calls.append((
            stream.tell(), kw["_elem_name"], type(kw["_elem_parent"]).__name__
            .replace("Original", ""), sorted(kw["_elem_routines"].keys()),
            sorted(kw.keys()),
        ))
        stream.read(consume)
        if isinstance(outcome, BaseException):
            raise outcome
        return ("partition", i, kw["_elem_name"])


def describe(p):
    if isinstance(p, tuple):
        return p
    return (type(p).__name__, p.name, list(p.path))


def observe(cls, data, routines, use_children=False):
    f = LoggingBytesIO(data)
    img = cls(f)
    if routines is not None:
        img.set_routines(routines)
    out = []
    for _ in range(2):  # second access must hit the cache
        try:
            ps = img.children if use_children else img.partitions
            out.append(("ok", [describe(p) for p in ps]))
        except Exception as e:
            # the reference subclass only differs by its class name
            out.append(("exc", type(e).__name__,
                        str(e).replace("OriginalAkai", "Akai")))
    out.append(("flag", img._partitions_loaded_flag,
                [describe(p) for p in img._partitions]))
    out.append(("pos", io.BytesIO.tell(f)))
    return out, f.log


ROUTINES = [
    None,                                   # set_routines never called
    {},
    {"rev": lambda ps: list(reversed(ps))},
    {"first": lambda ps: ps[:1], "dup": lambda ps: ps + ps},
    {"boom": lambda ps: (_ for _ in ()).throw(OtherError("routine"))},
]


def main():
    global PartitionParser
    rng = random.Random(151515)
    cases = 0
    failures = 0

    def check(data, routines, fake_script=None, use_children=False):
        global PartitionParser
        nonlocal cases, failures
        cases += 1
        results = []
        for cls in (OriginalAkaiImageParser, AkaiImageParser):
            if fake_script is not None:
                fake = FakeParser(fake_script)
                PartitionParser = fake
                image_module.PartitionParser = fake
            try:
                r = observe(cls, data, routines, use_children)
            finally:
                PartitionParser = RealPartitionParser
                image_module.PartitionParser = RealPartitionParser
            results.append((r, fake.calls if fake_script is not None
                            else None))
        if results[0] != results[1]:
            failures += 1
            if failures <= 5:
                print("MISMATCH", len(data), routines, fake_script)
                print("  orig:", repr(results[0])[:700])
                print("  new :", repr(results[1])[:700])

    # ---- A. real parser on synthetic images
    layouts = [
        [4], [4, 5], [5, 4, 6], [4, 4, 4, 4], [8],
        [4, "garbage", 4], ["garbage"], ["badhdr", 4], [4, "badhdr"],
        [4, "zeros"], [],
    ]
    for layout in layouts:
        parts = []
        for item in layout:
            if item == "garbage":
                parts.append(bytes(rng.getrandbits(8) for _ in range(5000)))
            elif item == "zeros":
                parts.append(bytes(3 * AKAI_SECTOR_SIZE))
            elif item == "badhdr":
                parts.append(make_partition(4, rng, garbage_header=True))
            else:
                parts.append(make_partition(item, rng))
        img = b"".join(parts)
        cuts = set([len(img), 0, 1, 2, 3, 4, 100, 197, 198, 199, 200, 201,
                    202, 203, 1800, 1803, 24574, 24575, 24576])
        cuts.update(range(0, len(img) + 1, AKAI_SECTOR_SIZE))
        for b in range(0, len(img) + 1, AKAI_SECTOR_SIZE):
            cuts.update((b - 1, b + 1, b + 2, b + 199, b + 204))
        cuts.update(rng.randint(0, len(img)) for _ in range(40))
        for cut in sorted(c for c in cuts if 0 <= c <= len(img)):
            routines = ROUTINES[1] if cut % 3 else rng.choice(ROUTINES)
            check(img[:cut], routines, use_children=bool(cut & 1))

    # more than 26 partitions: names run past "Z" the same way
    many = b"".join(make_partition(4, rng) for _ in range(30))
    check(many, {})
    check(many[:-5], {"rev": ROUTINES[2]["rev"]})

    # ---- B. scripted parser
    outcomes = [
        lambda: None, lambda: None, lambda: None, lambda: None,
        lambda: InvalidPartition("bad"), lambda: MyInvalid("sub"),
        lambda: ConstructError("ce"), lambda: StreamError("short"),
        lambda: ConstError("const"), lambda: OtherError("other"),
        lambda: ValueError("value"), lambda: AttributeError("attr"),
    ]
    for _ in range(4000):
        size = rng.choice((0, 1, 10, 100, 1000))
        data = bytes(size)
        script = []
        for _ in range(rng.randint(0, 8)):
            consume = rng.choice((0, 1, 3, 10, 50, size, size + 5,
                                  rng.randint(0, max(1, size))))
            script.append((consume, rng.choice(outcomes)()))
        # compare scripts by value: rebuild exceptions as (type, msg)
        check(data, rng.choice(ROUTINES), fake_script=script,
              use_children=rng.random() < 0.3)

    print(f"{cases} cases, {failures} mismatches")
    return 1 if failures else 0


if __name__ == "__main__":
    sys.exit(main())
