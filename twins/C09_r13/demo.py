"""Equivalence demo for r13: util.stream.StreamWrapper.read (the read path of
the MDX header window - MdxStream returns a StreamOffset - and the base of
SectorStream / MdfStream / StreamReversed).

The refactoring splits the body of read() into two private helpers
(_limit_true_size: the three statements that set self.true_size;
_align_substream: tell / _translate_addr / conditional _seek) that read() calls
in the original order.

The ORIGINAL read() is pasted below and grafted on subclasses of the live
classes, so everything else (seek, _read, _translate_addr, readall...) is
shared.  For many random operation sequences the live object and the reference
object are driven side by side on two recording substreams; after every
operation we compare: returned value or exception (type and text), position,
true_size, and the complete log of calls made on the substream.
"""
import io
import random
import struct
import sys
from io import SEEK_CUR, SEEK_END, SEEK_SET
from typing import Union

from smpl_extract.alcohol.mdf import MdfStream
from smpl_extract.alcohol.mdx import MdxHeaderConstruct
from smpl_extract.alcohol.mdx import MdxStream
from smpl_extract.alcohol.mdx import is_mdx_image
from smpl_extract.util.stream import StreamOffset
from smpl_extract.util.stream import StreamReversed
from smpl_extract.util.stream import StreamWrapper


# ---- the ORIGINAL method, verbatim ------------------------------------------
def original_read(self, size: Union[int, None])->bytes:

    if size is None or size < 0:
        return self.readall()

    self.true_size = size
    if self.end_of_file is not None:  # as in the tree after the empty-view fix
        self.true_size = min(self.end_of_file - self.position, size)
    if self.true_size < 0:
        self.true_size = 0

    true_position = self.substream.tell()
    expected_position = self._translate_addr(self.position)
    if expected_position != true_position:
        self._seek(self.position)

    result = self._read(self.true_size)
    self.position += self.true_size
    return result


class OrigWrapper(StreamWrapper):
    read = original_read


class OrigOffset(StreamOffset):
    read = original_read


class OrigReversed(StreamReversed):
    read = original_read


class OrigMdf(MdfStream):
    read = original_read


class Recorder(io.BytesIO):
    """BytesIO that logs every call made on it."""

    def __init__(self, data):
        super().__init__(data)
        self.log = []

    def tell(self):
        r = super().tell()
        self.log.append(("tell", r))
        return r

    def seek(self, *a):
        r = super().seek(*a)
        self.log.append(("seek", a, r))
        return r

    def read(self, *a):
        r = super().read(*a)
        self.log.append(("read", a, r))
        return r


failures = []
checks = 0


def outcome(fn):
    try:
        return ("ok", fn())
    except Exception as e:  # noqa: BLE001 - compared, not hidden
        return ("exc", type(e).__name__, str(e))


def compare(label, live, ref, live_sub, ref_sub, op):
    global checks
    checks += 1
    a = outcome(lambda: op(live))
    b = outcome(lambda: op(ref))
    state_a = (live.position, live.true_size, live.end_of_file, live_sub.log)
    state_b = (ref.position, ref.true_size, ref.end_of_file, ref_sub.log)
    if a != b or state_a != state_b:
        failures.append((label, a, b))
        return False
    return True


def random_ops(rng, span):
    ops = []
    for _ in range(rng.randint(1, 14)):
        kind = rng.random()
        if kind < 0.55:
            size = rng.choice([
                0, 1, 2, 3, 4, 7, 8, 15, 16, 100, 2047, 2048, 2049, 4096,
                span, span + 1, max(span - 1, 0), rng.randint(0, span + 50),
                None, -1, -5,
            ])
            ops.append(("read", size))
        elif kind < 0.9:
            whence = rng.choice([SEEK_SET, SEEK_CUR, SEEK_END])
            off = rng.randint(-span - 10, span + 10)
            ops.append(("seek", off, whence))
        else:
            ops.append(("readall",))
    return ops


def apply(op):
    if op[0] == "read":
        return lambda s: s.read(op[1])
    if op[0] == "seek":
        return lambda s: s.seek(op[1], op[2])
    return lambda s: s.readall()


def drive(label, make_live, make_ref, data, ops):
    live_sub, ref_sub = Recorder(data), Recorder(data)
    a = outcome(lambda: make_live(live_sub))
    b = outcome(lambda: make_ref(ref_sub))
    if a[0] != b[0] or (a[0] == "exc" and a != b) or live_sub.log != ref_sub.log:
        failures.append((label, "construction", a, b))
        return
    if a[0] == "exc":
        return
    live, ref = a[1], b[1]
    for op in ops:
        if not compare((label, op), live, ref, live_sub, ref_sub, apply(op)):
            return


def mdx_wrap(payload, eof_delta=0):
    header = MdxHeaderConstruct.build(dict(
        copyright=b"\xA9" + b" " * 25,
        eof=MdxHeaderConstruct.sizeof() + len(payload) + eof_delta,
    ))
    return header + payload


def mdf_wrap(payload):
    out = bytearray()
    for i in range(0, len(payload), 2048):
        body = payload[i:i + 2048].ljust(2048, b"\0")
        out += b"\x00" + b"\xFF" * 10 + b"\x00" + struct.pack(">I", i // 2048)[1:] + b"\x01"
        out += body + bytes(288)
    return bytes(out)


def main():
    rng = random.Random(0x513)

    for trial in range(700):
        n = rng.choice([0, 1, 5, 64, 100, 2047, 2048, 2049, 5000, 9000])
        data = bytes(rng.getrandbits(8) for _ in range(n))
        ops = random_ops(rng, n)

        # plain wrapper with assorted declared sizes (0 / None / negative are
        # the "no clipping" spellings the condition distinguishes)
        for size in (n, 0, None, -3, n // 2, n + 10):
            pos = rng.choice([0, 0, 1, n // 3])
            buf = rng.choice([1, 7, 0x1000])
            drive(
                ("wrapper", trial, size, pos, buf),
                lambda s: StreamWrapper(s, size, position=pos, buffer_length=buf),
                lambda s: OrigWrapper(s, size, position=pos, buffer_length=buf),
                data, ops,
            )

        # offset window
        off = rng.randint(0, max(n // 2, 0))
        win = rng.randint(0, n - off) if n - off > 0 else 0
        drive(
            ("offset", trial, off, win),
            lambda s: StreamOffset(s, win, off),
            lambda s: OrigOffset(s, win, off),
            data, ops,
        )

        # reversed stream (its _translate_addr reads self.true_size, and may
        # raise BadReadSize / BadAlign between the two helpers)
        width = rng.choice([1, 2, 3])
        size = n - (n % width) if rng.random() < 0.8 else n
        drive(
            ("reversed", trial, width, size),
            lambda s: StreamReversed(s, size, sample_width=width),
            lambda s: OrigReversed(s, size, sample_width=width),
            data, ops,
        )

    # container level: MDX wrapper and raw 2352-byte sectors
    for trial in range(150):
        n = rng.choice([0, 1, 100, 2048, 2049, 4096, 6000, 10000])
        payload = bytes(rng.getrandbits(8) for _ in range(n))
        ops = random_ops(rng, n)

        for delta in (0, -1, 5, -n):
            wrapped = mdx_wrap(payload, delta)
            assert is_mdx_image(io.BytesIO(wrapped))
            hdr = MdxHeaderConstruct.sizeof()

            def ref_mdx(s, wrapped=wrapped, hdr=hdr):
                header = MdxHeaderConstruct.parse_stream(s)
                return OrigOffset(s, header.eof - hdr, hdr, position=0, buffer_length=0x1000)

            drive(("mdx", trial, delta), lambda s: MdxStream(s), ref_mdx, wrapped, ops)

        sectors = mdf_wrap(payload)
        tail = rng.choice([b"", b"x" * 17])
        drive(
            ("mdf", trial),
            lambda s: MdfStream(s),
            lambda s: OrigMdf(s),
            sectors + tail, ops,
        )

    # the unwrapped content really is the payload (sanity of the harness)
    payload = bytes(range(256)) * 20
    assert MdxStream(io.BytesIO(mdx_wrap(payload))).read(None) == payload
    assert MdfStream(io.BytesIO(mdf_wrap(payload))).read(len(payload)) == payload

    print(f"{checks} operations compared, {len(failures)} disagreements")
    for f in failures[:10]:
        print("  MISMATCH", repr(f)[:400])
    return 1 if failures else 0


if __name__ == "__main__":
    sys.exit(main())
