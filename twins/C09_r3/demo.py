"""Equivalence demo for r3 (smpl_extract/alcohol/mdx.py: MdxHeaderConstruct,
is_mdx_image, MdxStream; equivalent spellings of constants / construct
declarations).

An inline copy of the ORIGINAL header construct, is_mdx_image and MdxStream is
driven side by side with the tree's versions over traced parent streams.
Compared: return values, exception type AND message, build() output and
sizeof() of the header construct, wrapper attributes after each operation,
and the full trace of tell/seek/read calls issued to the parent stream.
Exit status 0 when everything agrees, 1 otherwise.
"""
import inspect
import io
import random
import sys
from io import SEEK_CUR, SEEK_END, SEEK_SET

from construct.core import Bytes
from construct.core import ConstructError
from construct.core import Const
from construct import Default
from construct.core import ExprValidator
from construct.core import Int64ul
from construct.core import Padding
from construct.core import Struct
from construct.expr import obj_

from smpl_extract.alcohol import mdx as tree
from smpl_extract.util.stream import StreamOffset


# ---- ORIGINAL implementation (verbatim copy) ------------------------------
MDX_SECTOR_HEADER_MAGIC = (
    b"MEDIA\x20DESCRIPTOR"
)


OrigMdxHeaderConstruct = Struct(
    "magic" / Const(MDX_SECTOR_HEADER_MAGIC, Bytes(len(MDX_SECTOR_HEADER_MAGIC))),
    "version" / Default(Bytes(2), b"\x02\x01"),
    "copyright" / ExprValidator(
        Default(Bytes(26), b"\x20"*26),
        obj_[0] == 0xA9  # type: ignore
    ),
    Padding(4, b"\xFF"),
    "eof" / Int64ul,
    Padding(8)
)


def orig_is_mdx_image(stream) -> bool:
    stream_head = stream.tell()
    stream.seek(0, SEEK_SET)

    result = True
    try:
        OrigMdxHeaderConstruct.parse_stream(stream)  # type: ignore
    except ConstructError as e:
        result = False

    stream.seek(stream_head, SEEK_SET)

    return result


def OrigMdxStream(
        parent_stream,
        position: int = 0,
        buffer_length: int = 0x1000
    ):
    header = OrigMdxHeaderConstruct.parse_stream(parent_stream)  # type: ignore
    offset = OrigMdxHeaderConstruct.sizeof()
    size = header.eof - offset
    result = StreamOffset(
        parent_stream,
        size,
        offset,
        position=position,
        buffer_length=buffer_length
    )
    return result


# ---------------------------------------------------------------------------
class Traced(io.BytesIO):
    def __init__(self, data):
        super().__init__(data)
        self.log = []

    def tell(self):
        r = super().tell()
        self.log.append(("tell", r))
        return r

    def seek(self, *a):
        r = super().seek(*a)
        self.log.append(("seek", a, r))
        return r

    def read(self, *a):
        r = super().read(*a)
        self.log.append(("read", a, len(r)))
        return r


def call(f, *a, **k):
    try:
        r = f(*a, **k)
    except Exception as e:  # noqa
        return ("exc", type(e).__name__, str(e))
    if isinstance(r, StreamOffset):
        return ("ok-stream", state(r))
    if hasattr(r, "items"):
        return ("ok", {k_: v for k_, v in r.items() if k_ != "_io"})
    return ("ok", r)


def state(s):
    return (type(s).__name__, s.position, s.end_of_file, s.offset,
            s.buffer_length, s.true_size)


failures = 0
checked = 0


def check(label, a, b):
    global failures, checked
    checked += 1
    if a != b:
        failures += 1
        print("MISMATCH", label, repr(a)[:300], repr(b)[:300])


rng = random.Random(64)

# -- static facts ------------------------------------------------------------
check("magic", tree.MDX_SECTOR_HEADER_MAGIC, MDX_SECTOR_HEADER_MAGIC)
check("sizeof", tree.MdxHeaderConstruct.sizeof(), OrigMdxHeaderConstruct.sizeof())
check("sizeof64", tree.MdxHeaderConstruct.sizeof(), 64)
check("defaults",
      tuple(p.default for p in inspect.signature(tree.MdxStream).parameters.values()),
      tuple(p.default for p in inspect.signature(OrigMdxStream).parameters.values()))
check("subcon names",
      [sc.name for sc in tree.MdxHeaderConstruct.subcons],
      [sc.name for sc in OrigMdxHeaderConstruct.subcons])

# -- build -------------------------------------------------------------------
build_inputs = [
    dict(eof=0),
    dict(eof=64),
    dict(eof=2 ** 64 - 1),
    dict(eof=2 ** 64),                       # out of range
    dict(eof=-1),
    dict(eof=100, copyright=b"\xA9" + b"x" * 25),
    dict(eof=100, copyright=b"\xA9" + b"x" * 24),   # wrong length
    dict(eof=100, copyright=b"x" * 26),             # validator fails
    dict(eof=100, version=b"\x09\x09", copyright=b"\xA9" + bytes(25)),
    dict(eof=100, version=b"\x09", copyright=b"\xA9" + bytes(25)),
    dict(eof=100, magic=b"MEDIA DESCRIPTOR", copyright=b"\xA9" + bytes(25)),
    dict(eof=100, magic=b"media descriptor", copyright=b"\xA9" + bytes(25)),
    dict(),
    dict(copyright=b"\xA9" + bytes(25)),
]
for i, d in enumerate(build_inputs):
    check(f"build{i}", call(tree.MdxHeaderConstruct.build, dict(d)),
          call(OrigMdxHeaderConstruct.build, dict(d)))


# -- parse / detect / wrap ---------------------------------------------------
def header(eof, first=0xA9, magic=b"MEDIA DESCRIPTOR", version=b"\x02\x01",
           pad=b"\xFF" * 4, tail=bytes(8)):
    return (magic + version + bytes([first]) + b" " * 25 + pad
            + eof.to_bytes(8, "little") + tail)


blobs = []
for n in (0, 1, 100, 2047, 2048, 2049, 5000):
    payload = bytes(rng.randrange(256) for _ in range(n))
    good = header(64 + n) + payload
    blobs.append(good)
    blobs.append(good + b"trailing garbage")            # eof before end
    blobs.append(header(64 + n + 500) + payload)         # eof past the end
    blobs.append(header(0) + payload)                    # negative size
    blobs.append(header(63) + payload)
    blobs.append(header(2 ** 64 - 1) + payload)
    blobs.append(header(64 + n, first=0x20) + payload)   # validator fails
    blobs.append(header(64 + n, first=0xA8) + payload)
    blobs.append(header(64 + n, magic=b"MEDIA_DESCRIPTOR") + payload)
    blobs.append(header(64 + n, magic=b"media descriptor") + payload)
    blobs.append(header(64 + n, version=b"\x00\x00") + payload)
    blobs.append(header(64 + n, pad=b"\x00\x01\x02\x03", tail=b"\xEE" * 8) + payload)
    blobs.append(payload)
good = header(64 + 10) + bytes(10)
for cut in range(0, 66):          # every truncation of a valid header
    blobs.append(good[:cut])

for bi, blob in enumerate(blobs):
    for pos in sorted({0, 1, 16, 44, 63, 64, 65, len(blob)}):
        if pos > len(blob):
            continue
        # detection
        t1, t2 = Traced(blob), Traced(blob)
        io.BytesIO.seek(t1, pos)
        io.BytesIO.seek(t2, pos)
        check(f"is_mdx {bi}@{pos}", call(orig_is_mdx_image, t1),
              call(tree.is_mdx_image, t2))
        check(f"is_mdx log {bi}@{pos}", t1.log, t2.log)
        check(f"is_mdx pos {bi}@{pos}", io.BytesIO.tell(t1), io.BytesIO.tell(t2))

        # raw header parse
        t1, t2 = Traced(blob), Traced(blob)
        io.BytesIO.seek(t1, pos)
        io.BytesIO.seek(t2, pos)
        check(f"parse {bi}@{pos}", call(OrigMdxHeaderConstruct.parse_stream, t1),
              call(tree.MdxHeaderConstruct.parse_stream, t2))
        check(f"parse log {bi}@{pos}", t1.log, t2.log)

        # wrapper
        for kwargs in ({}, {"position": 5}, {"buffer_length": 7},
                       {"position": 2048, "buffer_length": 2048}):
            t1, t2 = Traced(blob), Traced(blob)
            io.BytesIO.seek(t1, pos)
            io.BytesIO.seek(t2, pos)
            try:
                s1 = OrigMdxStream(t1, **kwargs)
                e1 = None
            except Exception as e:  # noqa
                s1, e1 = None, (type(e).__name__, str(e))
            try:
                s2 = tree.MdxStream(t2, **kwargs)
                e2 = None
            except Exception as e:  # noqa
                s2, e2 = None, (type(e).__name__, str(e))
            check(f"wrap exc {bi}@{pos}", e1, e2)
            check(f"wrap log {bi}@{pos}", t1.log, t2.log)
            if s1 is None or s2 is None:
                continue
            check(f"wrap state {bi}@{pos}", state(s1), state(s2))
            size = s1.end_of_file
            for step in range(12):
                op = rng.choice(("seek", "read", "read", "tell"))
                if op == "seek":
                    whence = rng.choice((SEEK_SET, SEEK_CUR, SEEK_END))
                    off = rng.choice((0, 1, -1, 2048, -2048,
                                      rng.randrange(-50, abs(size) % 10000 + 50)))
                    a, b = call(s1.seek, off, whence), call(s2.seek, off, whence)
                elif op == "read":
                    n = rng.choice((None, -1, 0, 1, 16, 2047, 2048, 2049,
                                    rng.randrange(0, abs(size) % 10000 + 50)))
                    if size <= 0 and (n is None or n < 0):
                        n = 3   # readall on an empty wrapper never terminates
                    a, b = call(s1.read, n), call(s2.read, n)
                else:
                    a, b = call(s1.tell), call(s2.tell)
                check(f"op {bi}@{pos}.{step}.{op}", a, b)
                check(f"st {bi}@{pos}.{step}", state(s1), state(s2))
            check(f"wrap log2 {bi}@{pos}", t1.log, t2.log)

print(f"checked {checked} comparisons, {failures} mismatches")
sys.exit(1 if failures else 0)
