"""Equivalence demo for r5: Image.combine_stereo_routine (guard-clause form)
versus an inline copy of the ORIGINAL implementation.

Exit 0 when every input agrees, 1 otherwise.
"""
import itertools
import random
import re
import sys
from typing import cast

from smpl_extract.generalized.sample import ChannelConfig
from smpl_extract.generalized.sample import combine_stereo
from smpl_extract.generalized.sample import Sample
from smpl_extract.structural import Image


_STEREO_FILENAME = re.compile(r"(.*?)([\s-]+)(L|R)\s*$")


def original_combine_stereo_routine(self, samples):
    # verbatim copy of the original body (self._STEREO_FILENAME is the same regex)
    sample_dict = {s.export_name: s for s in samples}
    marked = {n: False for n in sample_dict}
    result = []
    for sample in samples:

        result_sample = sample
        name = sample.export_name
        if marked[name]:
            continue

        match = self._STEREO_FILENAME.match(name)
        if match:
            alternate_ending = "R" if match.group(3) == "L" else "L"
            alternate_name = "".join((
                match.group(1),
                match.group(2),
                alternate_ending
            ))
            if alternate_name in sample_dict.keys():
                alternate_sample = sample_dict[alternate_name]
                alternate_sample = cast(Sample, alternate_sample)
                if alternate_ending == "R":
                    pairs = [sample, alternate_sample]
                else:
                    pairs = [alternate_sample, sample]

                new_name = match.group(1)
                result_sample = combine_stereo(pairs[0], pairs[1], new_name)
                marked[alternate_name] = True

        result.append(result_sample)
        marked[name] = True

    return result


class Marker:
    """stands for a DataStream; identity is what matters"""
    def __init__(self, tag):
        self.tag = tag


def make_samples(names, use_export_name):
    samples = []
    for i, n in enumerate(names):
        s = Sample(name=n if not use_export_name else "raw%d" % i,
                   data_streams=[Marker((i, n))], _path=["img", n])
        if use_export_name:
            s._export_name = n
        samples.append(s)
    return samples


def describe(result, inputs):
    out = []
    for r in result:
        idx = next((i for i, s in enumerate(inputs) if s is r), None)
        out.append((
            idx,
            r.export_name,
            r.name,
            tuple(d.tag for d in r.data_streams),
            r.num_channels,
            int(r.channel_config),
            tuple(r._path),
        ))
    return out


def run(fn, image, names, use_export_name):
    inputs = make_samples(names, use_export_name)
    before = [(s.export_name, len(s.data_streams), s.num_channels) for s in inputs]
    try:
        res = fn(image, inputs)
        outcome = ("ok", describe(res, inputs))
    except Exception as e:  # pragma: no cover - compared as well
        outcome = ("exc", type(e).__name__, str(e))
    after = [(s.export_name, len(s.data_streams), s.num_channels) for s in inputs]
    return outcome, before == after


def main():
    image = Image(lambda ctx: [])
    assert image._STEREO_FILENAME.pattern == _STEREO_FILENAME.pattern

    stems = ["A", "A-", "A -", "PIANO", "PIANO L", "L", "R", "", "-", "B  ", "A-L"]
    seps = ["-", " ", " -", "- ", "--", "  ", "\t", ""]
    ends = ["L", "R", "L ", "R  ", "l", "r", "M", "LR", "RL", ""]
    vocab = sorted({st + sp + en for st in stems for sp in seps for en in ends})
    vocab += ["-L", "-R", " L", " R", "L-R", "R-L", "A-L-R", "A-R-L", "A-L\n", "A-R\n"]

    cases = []
    # exhaustive small multisets (with duplicates) in every order
    small = ["A-L", "A-R", "A L", "A R", "A", "A-L-L", "A-L-R", "A--L", "A--R", "L", "-L", "-R"]
    for n in (0, 1, 2, 3):
        for combo in itertools.product(small, repeat=n):
            cases.append(list(combo))
    rng = random.Random(5)
    for _ in range(6000):
        k = rng.randint(0, 9)
        names = [rng.choice(vocab) for _ in range(k)]
        # bias towards real pairs
        if names and rng.random() < 0.6:
            base = rng.choice(stems) or "Z"
            sp = rng.choice(seps[:6])
            names += [base + sp + "L", base + sp + "R"]
            if rng.random() < 0.3:
                names.append(base)
            if rng.random() < 0.3:
                names.append(base + sp + "L")
        rng.shuffle(names)
        cases.append(names)

    bad = 0
    for names in cases:
        for use_export_name in (True, False):
            got, got_pure = run(Image.combine_stereo_routine, image, names, use_export_name)
            exp, exp_pure = run(original_combine_stereo_routine, image, names, use_export_name)
            if got != exp or got_pure != exp_pure:
                bad += 1
                if bad < 5:
                    print("MISMATCH", names, got, exp)
    # a fixed sanity value so the demo is not vacuous
    inputs = make_samples(["X-R", "Y", "X-L"], True)
    res = image.combine_stereo_routine(inputs)
    sanity = [(r.export_name, [d.tag[1] for d in r.data_streams], r.num_channels) for r in res]
    if sanity != [("X", ["X-L", "X-R"], 2), ("Y", ["Y"], 1)]:
        print("SANITY FAILED", sanity)
        bad += 1
    if res[0].channel_config != ChannelConfig.STEREO_SPLIT_STREAMS:
        bad += 1
    print("cases:", len(cases) * 2, "mismatches:", bad)
    return 1 if bad else 0


if __name__ == "__main__":
    sys.exit(main())
