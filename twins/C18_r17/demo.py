"""r17 evidence: smpl_extract/akai/akai_string.py, _fast_akai_to_ascii_byte
(the AKAI -> ASCII direction of the character maps) behaves exactly like the
original implementation pasted below: every integer in a wide range, bools,
floats, numpy scalars, non-numeric objects; then whole names through
char_akai_to_ascii and the AKAI <-> ASCII bijection on the 41 valid bytes.
Exit 0 = all agree, 1 = difference.
"""
import fractions
import itertools
import random
import sys

import smpl_extract.akai.akai_string as live
from smpl_extract.akai.data_types import CHAR_MAP_A
from smpl_extract.akai.data_types import CHAR_MAP_MINUS
from smpl_extract.akai.data_types import CHAR_MAP_NINE
from smpl_extract.akai.data_types import CHAR_MAP_PERIOD
from smpl_extract.akai.data_types import CHAR_MAP_PLUS
from smpl_extract.akai.data_types import CHAR_MAP_POUND
from smpl_extract.akai.data_types import CHAR_MAP_SPACE
from smpl_extract.akai.data_types import CHAR_MAP_Z
from smpl_extract.akai.data_types import CHAR_MAP_ZERO
from smpl_extract.akai.data_types import CharFormat
from smpl_extract.akai.data_types import InvalidCharacter


# ---------------------------------------------------------------- ORIGINAL --
def orig_fast_akai_to_ascii_byte(byte_in: int):
    if CHAR_MAP_ZERO[CharFormat.AKAI] <= byte_in <= CHAR_MAP_NINE[CharFormat.AKAI]:
        return byte_in + CHAR_MAP_ZERO[CharFormat.ASCII] - CHAR_MAP_ZERO[CharFormat.AKAI]

    if CHAR_MAP_A[CharFormat.AKAI] <= byte_in <= CHAR_MAP_Z[CharFormat.AKAI]:
        return byte_in + CHAR_MAP_A[CharFormat.ASCII] - CHAR_MAP_A[CharFormat.AKAI]

    symbol_map = {
        CHAR_MAP_SPACE[CharFormat.AKAI]:   CHAR_MAP_SPACE[CharFormat.ASCII],
        CHAR_MAP_POUND[CharFormat.AKAI]:   CHAR_MAP_POUND[CharFormat.ASCII],
        CHAR_MAP_PLUS[CharFormat.AKAI]:    CHAR_MAP_PLUS[CharFormat.ASCII],
        CHAR_MAP_MINUS[CharFormat.AKAI]:   CHAR_MAP_MINUS[CharFormat.ASCII],
        CHAR_MAP_PERIOD[CharFormat.AKAI]:  CHAR_MAP_PERIOD[CharFormat.ASCII],
    }
    resulting_symbol = symbol_map.get(byte_in)

    if resulting_symbol is None:
        raise InvalidCharacter

    return resulting_symbol


def orig_fast_akai_to_ascii(bytes_in):
    out_str = list()
    for byte in bytes_in:
        out_str.append(chr(orig_fast_akai_to_ascii_byte(byte)))
    return "".join(out_str)
# ------------------------------------------------------------ END ORIGINAL --


def outcome(fn, *args):
    try:
        value = fn(*args)
    except BaseException as exc:  # noqa: B902
        return ("exc", type(exc), str(exc))
    return ("ok", type(value), repr(value))


failures = []
checked = 0


def compare(label, new_fn, old_fn, *args):
    global checked
    checked += 1
    got = outcome(new_fn, *args)
    want = outcome(old_fn, *args)
    if got != want:
        failures.append((label, args, got, want))


# 1. single "bytes": every int in a wide range, plus awkward values
single_inputs = list(range(-300, 700))
single_inputs += [True, False, 2**31, -2**31, 2**64, 10**30]
single_inputs += [0.0, -0.0, 3.0, 3.5, 9.0, 9.5, 10.0, 10.5, 11.0, 36.0, 36.5,
                  37.0, 38.0, 39.0, 40.0, 40.5, 41.0, -1.0, 1e300,
                  float("inf"), float("-inf"), float("nan")]
single_inputs += [fractions.Fraction(37, 1), fractions.Fraction(75, 2),
                  complex(37, 0), None, "", "A", "10", b"\x0a", b"", (10,),
                  [10], {10}, object]
try:
    import numpy as np
    single_inputs += [np.uint8(v) for v in range(0, 256, 1)]
    single_inputs += [np.int16(-1), np.int64(37), np.float32(37.0),
                      np.float64(40.0), np.float64(12.25)]
except ImportError:
    pass

for value in single_inputs:
    compare("byte", live._fast_akai_to_ascii_byte,
            orig_fast_akai_to_ascii_byte, value)

# 2. whole names: every valid byte, every length-2 combination around the
#    range borders, sampled names up to length 12, names with invalid bytes
valid = list(range(0x00, 0x29))
compare("all-valid", live.char_akai_to_ascii, orig_fast_akai_to_ascii,
        bytes(valid))
compare("all-valid-list", live.char_akai_to_ascii, orig_fast_akai_to_ascii,
        valid)
compare("empty", live.char_akai_to_ascii, orig_fast_akai_to_ascii, b"")
borders = [0, 9, 10, 11, 36, 37, 38, 39, 40, 41, 255]
for pair in itertools.product(borders, repeat=2):
    compare("pair", live.char_akai_to_ascii, orig_fast_akai_to_ascii,
            bytes(pair))
    compare("pair-fast", live._fast_akai_to_ascii, orig_fast_akai_to_ascii,
            list(pair))
rng = random.Random(1817)
for _ in range(4000):
    length = rng.randint(0, 12)
    name = bytes(rng.choice(valid) for _ in range(length))
    compare("name", live.char_akai_to_ascii, orig_fast_akai_to_ascii, name)
for _ in range(2000):
    length = rng.randint(1, 12)
    name = bytes(rng.randrange(256) for _ in range(length))
    compare("noisy-name", live.char_akai_to_ascii, orig_fast_akai_to_ascii,
            name)
compare("not-iterable", live.char_akai_to_ascii, orig_fast_akai_to_ascii, 5)
compare("str-input", live.char_akai_to_ascii, orig_fast_akai_to_ascii, "AB")

# 3. the promised bijection: 41 valid bytes, everything else rejected
images = {}
for byte in range(256):
    try:
        images[byte] = live._fast_akai_to_ascii_byte(byte)
    except InvalidCharacter:
        pass
checked += 1
if sorted(images) != valid or len(set(images.values())) != 41:
    failures.append(("bijection-domain", sorted(images)))
for byte, ascii_code in images.items():
    checked += 1
    back = live.char_ascii_to_akai(bytes([ascii_code]))
    if back != bytes([byte]):
        failures.append(("round-trip", byte, ascii_code, back))
checked += 1
expected_text = "0123456789 ABCDEFGHIJKLMNOPQRSTUVWXYZ#+-."
if live.char_akai_to_ascii(bytes(valid)) != expected_text:
    failures.append(("alphabet", live.char_akai_to_ascii(bytes(valid))))

for failure in failures[:20]:
    print("MISMATCH", failure)
print(f"r17 demo: {checked} comparisons, {len(failures)} mismatches")
sys.exit(1 if failures else 0)
