"""Equivalence demo for r23: actions.attempt_parse_cue_sheet (called by
determine_image_type, i.e. by the wrapper around ls_action, when `ls` is given
the name of a text file: it decides whether the cue sheet describes a data
image or an audio CD and opens the .bin file, before any path is resolved or
reported as `was not found`).

Compared with a copy of the ORIGINAL function (its source is pasted below and
compiled so that it runs with the very same module globals as the live one):
  1. traced runs with recording stand-ins for parse_cue_sheet, open,
     determine_image_type and CompactDiskAudioImageAdapter and with
     recording track objects: for every list of 0..4 tracks over 7 kinds of
     track (audio in three spellings, two data modes, empty mode, a track
     object that is falsy), and for special cases (mode is None, mode.lower()
     raises, tracks given as tuple / one-shot iterator, every stand-in
     raising in turn, directory given / omitted / by keyword): same return
     value or same exception type and message, and the same ordered log of
     every attribute read, every .lower() call and every call to the
     stand-ins with their arguments.
  2. real files in a fresh temporary directory (audio-only cue + bin, cue
     with a data track over an AKAI image and over garbage, cue without
     tracks, cue whose bin is missing, broken cue, cue with upper/lower case
     modes, plain non-cue text file, binary file): type of image returned by
     determine_image_type, its listing, or the exception raised.
  3. end to end: stdout (or exception) of ls_action given those file names
     and a set of paths (printed names, variations, unrelated paths), with
     the original function patched into the module versus the tree as it is.
Exit 0 when all agree, else 1.
"""
import contextlib
import io
import itertools
import os
import shutil
import sys
import tempfile
import types

import smpl_extract.actions as actions
from smpl_extract.akai.data_types import AKAI_PARTITION_MAGIC
from smpl_extract.akai.data_types import AKAI_SAT_ENTRY_CNT
from smpl_extract.akai.data_types import AKAI_SECTOR_SIZE
from smpl_extract.akai.data_types import AKAI_VOLUME_ENTRY_CNT
from smpl_extract.akai.data_types import FILE_TABLE_END_FLAG
from smpl_extract.cuesheet import BadCueSheet


# ---- ORIGINAL implementation (verbatim) ------------------------------------
ORIGINAL_SOURCE = '''
def attempt_parse_cue_sheet(lines: List[str], directory = ""):
    cue_sheet_file = parse_cue_sheet(lines)
    binary_track = next(
        (x for x in cue_sheet_file.tracks if x.mode.lower() != "audio"),
        None
    )
    if binary_track:
        bin_file_path = os.path.join(directory, cue_sheet_file.bin_file_name)
        bin_file_stream = open(bin_file_path, "rb")
        bin_image = determine_image_type(bin_file_stream)
        return bin_image

    if all((x.mode.lower() == "audio" for x in cue_sheet_file.tracks)):
        bin_file_path = os.path.join(directory, cue_sheet_file.bin_file_name)
        bin_file_stream = open(bin_file_path, "rb")
        image = CompactDiskAudioImageAdapter.from_bin_cue(
            bin_file_stream,
            cue_sheet_file
        )
        return image

    raise BadCueSheet
'''


def build_original():
    scratch = {"List": list}
    exec(compile(ORIGINAL_SOURCE, "<original>", "exec"), scratch)
    made = scratch["attempt_parse_cue_sheet"]
    # same globals as the live function: it sees the same (patched) names
    return types.FunctionType(
        made.__code__, actions.__dict__, made.__name__, made.__defaults__)


orig_attempt_parse_cue_sheet = build_original()
live_attempt_parse_cue_sheet = actions.attempt_parse_cue_sheet


@contextlib.contextmanager
def original_world():
    saved = actions.attempt_parse_cue_sheet
    actions.attempt_parse_cue_sheet = orig_attempt_parse_cue_sheet
    try:
        yield
    finally:
        actions.attempt_parse_cue_sheet = saved


failures = []


def check(label, got, want):
    if got != want:
        failures.append(label)
        if len(failures) <= 20:
            print("MISMATCH", label, "\n   got ", repr(got)[:400],
                  "\n   want", repr(want)[:400])


# ---- 1: traced runs ---------------------------------------------------------
class Boom(Exception):
    pass


class Mode:
    def __init__(self, log, label, text, lower_raises=None):
        self._log, self._label, self._text = log, label, text
        self._lower_raises = lower_raises

    def lower(self):
        self._log.append(("lower", self._label))
        if self._lower_raises is not None:
            raise self._lower_raises
        return self._text.lower()


class Track:
    def __init__(self, log, label, text, truthy=True, mode_none=False,
                 lower_raises=None):
        self._log, self._label, self._truthy = log, label, truthy
        self._mode = None if mode_none else Mode(log, label, text,
                                                 lower_raises)

    @property
    def mode(self):
        self._log.append(("mode", self._label))
        return self._mode

    def __bool__(self):
        self._log.append(("bool", self._label))
        return self._truthy

    def __repr__(self):
        return "T%s" % self._label


class Cue:
    def __init__(self, log, tracks, container=list):
        self._log = log
        self._tracks = tracks
        self._container = container

    @property
    def tracks(self):
        self._log.append(("tracks",))
        if self._container is iter:
            return iter(list(self._tracks))
        return self._container(self._tracks)

    @property
    def bin_file_name(self):
        self._log.append(("bin_file_name",))
        return "disc.bin"

    def __repr__(self):
        return "Cue"


class Sentinel:
    def __init__(self, label):
        self.label = label

    def __repr__(self):
        return "<%s>" % self.label


KINDS = {
    "A": dict(text="AUDIO"),
    "a": dict(text="audio"),
    "m": dict(text="Audio"),
    "1": dict(text="MODE1/2352"),
    "2": dict(text="MODE2/2336"),
    "e": dict(text=""),
    "f": dict(text="MODE1/2048", truthy=False),
    "F": dict(text="AUDIO", truthy=False),
    "N": dict(text="", mode_none=True),
    "L": dict(text="x", lower_raises=Boom("lower failed")),
    "S": dict(text="x", lower_raises=KeyError("odd")),
}


def traced_run(func, kinds, container=list, fail_at=None, call_style="pos",
               directory="some/dir"):
    log = []
    tracks = [Track(log, "%d%s" % (n, kind), **KINDS[kind])
              for n, kind in enumerate(kinds)]
    cue = Cue(log, tracks, container)

    def fake_parse_cue_sheet(lines):
        log.append(("parse_cue_sheet", list(lines)))
        if fail_at == "parse":
            raise BadCueSheet("No FILE entry")
        return cue

    def fake_open(path, mode):
        log.append(("open", path, mode))
        if fail_at == "open":
            raise FileNotFoundError(2, "No such file", path)
        return Sentinel("stream")

    def fake_determine_image_type(file):
        log.append(("determine_image_type", repr(file)))
        if fail_at == "determine":
            raise Boom("determine failed")
        return Sentinel("data image")

    class FakeAdapter:
        @classmethod
        def from_bin_cue(cls, bin_file_stream, cue_file):
            log.append(("from_bin_cue", repr(bin_file_stream), repr(cue_file)))
            if fail_at == "adapter":
                raise Boom("adapter failed")
            return Sentinel("cdda image")

    saved = {name: actions.__dict__.get(name, KeyError) for name in
             ("parse_cue_sheet", "open", "determine_image_type",
              "CompactDiskAudioImageAdapter")}
    actions.parse_cue_sheet = fake_parse_cue_sheet
    actions.open = fake_open
    actions.determine_image_type = fake_determine_image_type
    actions.CompactDiskAudioImageAdapter = FakeAdapter
    try:
        try:
            if call_style == "pos":
                result = func(["line 1", "line 2"], directory)
            elif call_style == "kw":
                result = func(lines=["line 1"], directory=directory)
            else:
                result = func(["line 1"])
            outcome = ("ok", repr(result))
        except BaseException as exc:  # noqa: B902
            outcome = ("exc", type(exc).__name__, str(exc),
                       type(exc.__cause__).__name__)
    finally:
        for name, value in saved.items():
            if value is KeyError:
                del actions.__dict__[name]
            else:
                actions.__dict__[name] = value
    return outcome, log


def check_traced():
    runs = 0
    outcomes = set()
    common = "Aam12ef"
    for size in range(0, 5):
        for kinds in itertools.product(common, repeat=size):
            got = traced_run(live_attempt_parse_cue_sheet, kinds)
            want = traced_run(orig_attempt_parse_cue_sheet, kinds)
            check("traced %s" % "".join(kinds), got, want)
            outcomes.add(want[0][:2])
            runs += 1
    special = ["N", "AN", "NA", "1N", "L", "AL", "LA", "1L", "aLf", "F", "FA",
               "AF", "Ff", "fF", "fA1", "Af1", "ff", "fff1", "S", "AS"]
    for kinds in special:
        for container in (list, tuple, iter):
            got = traced_run(live_attempt_parse_cue_sheet, kinds, container)
            want = traced_run(orig_attempt_parse_cue_sheet, kinds, container)
            check("special %s %s" % (kinds, container.__name__), got, want)
            outcomes.add(want[0][:2])
            runs += 1
    for kinds in ("", "A", "Aa", "1", "A1", "f", "Af", "e"):
        for fail_at in ("parse", "open", "determine", "adapter"):
            for call_style in ("pos", "kw", "default"):
                for directory in ("some/dir", "", "/abs", "trailing/"):
                    for container in (list, iter):
                        args = (kinds, container, fail_at, call_style,
                                directory)
                        got = traced_run(live_attempt_parse_cue_sheet, *args)
                        want = traced_run(orig_attempt_parse_cue_sheet, *args)
                        check("failing %r" % (args,), got, want)
                        outcomes.add(want[0][:2])
                        runs += 1
    if len(outcomes) < 5:
        failures.append("outcomes too uniform: %r" % sorted(outcomes))
        print("outcomes too uniform", sorted(outcomes))
    return runs


# ---- 2 + 3: real files ---------------------------------------------------------
def akai_name(text):
    out = []
    for ch in text.ljust(12)[:12]:
        if ch.isdigit():
            out.append(ord(ch) - ord("0"))
        elif "A" <= ch <= "Z":
            out.append(0x0B + ord(ch) - ord("A"))
        else:
            out.append({" ": 0x0A, "#": 0x25, "+": 0x26, "-": 0x27,
                        ".": 0x28}[ch])
    return bytes(out)


def make_partition(sectors, volumes=()):
    header = (
        sectors.to_bytes(2, "little") + b"\x00\x00" + AKAI_PARTITION_MAGIC
        + bytes([0x55, 0xBA]) + b"\x2f\x00"
    )
    sat = [0] * AKAI_SAT_ENTRY_CNT
    entries = b""
    bodies = {}
    next_sector = 4
    for n in range(AKAI_VOLUME_ENTRY_CNT):
        if n < len(volumes):
            name, vtype = volumes[n]
            entries += (
                akai_name(name) + vtype.to_bytes(2, "little")
                + next_sector.to_bytes(2, "little")
            )
            sat[next_sector] = 0xC000
            body = bytearray(AKAI_SECTOR_SIZE)
            body[8:10] = FILE_TABLE_END_FLAG.to_bytes(2, "little")
            bodies[next_sector] = bytes(body)
            next_sector += 1
        else:
            entries += bytes([0x0A] * 12) + b"\x00\x00\x00\x00"
    for s in range(4):
        sat[s] = 0x4000
    sat_bytes = b"".join(v.to_bytes(2, "little") for v in sat)
    blob = bytearray(sectors * AKAI_SECTOR_SIZE)
    head = header + entries + sat_bytes
    blob[:len(head)] = head
    for sector, body in bodies.items():
        blob[sector * AKAI_SECTOR_SIZE:(sector + 1) * AKAI_SECTOR_SIZE] = body
    return bytes(blob)


AUDIO_TRACKS = (
    b"  TRACK 01 AUDIO\n    TITLE \"First\"\n    INDEX 01 00:00:00\n"
    b"  TRACK 02 AUDIO\n    INDEX 01 00:01:00\n"
    b"  TRACK 03 AUDIO\n    TITLE \"First\"\n    INDEX 01 00:02:00\n"
)


def write_files(root):
    vols = (("VOL", 1), ("VOL", 3), ("VOL  2", 1), ("LONE", 1))
    files = {
        "akai.img": make_partition(10, vols) + make_partition(4, vols[:2]),
        "garbage.bin": bytes(range(256)) * 64,
        "audio.bin": bytes(2352 * 75 * 3),
        "audio.cue": b"FILE \"audio.bin\" BINARY\n" + AUDIO_TRACKS,
        "audio_case.cue": (
            b"file \"audio.bin\" binary\n"
            + AUDIO_TRACKS.replace(b"01 AUDIO", b"01 audio")
            .replace(b"02 AUDIO", b"02 Audio")),
        "data.cue": (
            b"FILE \"akai.img\" BINARY\n  TRACK 01 MODE1/2352\n"
            b"    INDEX 01 00:00:00\n"),
        "mixed.cue": (
            b"FILE \"akai.img\" BINARY\n  TRACK 01 AUDIO\n"
            b"    INDEX 01 00:00:00\n  TRACK 02 MODE1/2352\n"
            b"    INDEX 01 00:01:00\n  TRACK 03 AUDIO\n"
            b"    INDEX 01 00:02:00\n"),
        "data_garbage.cue": (
            b"FILE \"garbage.bin\" BINARY\n  TRACK 01 MODE2/2336\n"
            b"    INDEX 01 00:00:00\n"),
        "no_tracks.cue": b"FILE \"audio.bin\" BINARY\n",
        "missing_audio.cue": b"FILE \"nowhere.bin\" BINARY\n" + AUDIO_TRACKS,
        "missing_data.cue": (
            b"FILE \"nowhere.bin\" BINARY\n  TRACK 01 MODE1/2352\n"),
        "two_files.cue": (
            b"FILE \"audio.bin\" BINARY\n" + AUDIO_TRACKS
            + b"FILE \"akai.img\" BINARY\n  TRACK 04 MODE1/2352\n"),
        "broken.cue": b"TRACK 01 AUDIO\n  INDEX 01 00:00:00\n",
        "notes.txt": b"just some notes\nnothing else\n",
        "empty.txt": b"",
        "sub/inner.cue": b"FILE \"inner.bin\" BINARY\n" + AUDIO_TRACKS,
        "sub/inner.bin": bytes(2352 * 75 * 3),
    }
    os.makedirs(os.path.join(root, "sub"))
    for name, data in files.items():
        with open(os.path.join(root, name), "wb") as handle:
            handle.write(data)
    return sorted(files)


LS_PATHS = [
    "", "/", " ", "First", " First ", "First/", "first", "First (2)",
    "First (2)\\", "First (3)", "Untitled Track 2", "Untitled Track 2/x",
    "Untitled Track 9", "nope", "☃", "A", "a:", "B:/", "A/VOL", "A/VOL (2)/",
    "A/VOL  2", "a/lone", "B/VOL (2)", "C", "A/VOL (2)/x", ":", "A::",
]


def describe_image(file_name):
    try:
        image = actions.determine_image_type(file_name)
        info = [type(image).__name__]
        image.set_routines({})
        children = image.children
        info.append([(type(c).__name__, c.name) for c in children])
        stream = getattr(image, "file", None)
        info.append(type(stream).__name__)
        return ("ok", info)
    except BaseException as exc:  # noqa: B902
        return ("exc", type(exc).__name__, str(exc).replace(ROOT[0], "<root>"))


def run_ls(target, path):
    buf = io.StringIO()
    try:
        with contextlib.redirect_stdout(buf):
            actions.ls_action(target, path)
        return ("ok", buf.getvalue())
    except BaseException as exc:  # noqa: B902
        return ("exc", type(exc).__name__,
                str(exc).replace(ROOT[0], "<root>"), buf.getvalue())


ROOT = [""]


def check_files():
    root_dir = tempfile.mkdtemp()
    ROOT[0] = root_dir
    checked = 0
    kinds = set()
    saved_cwd = os.getcwd()
    try:
        names = write_files(root_dir)
        targets = [os.path.join(root_dir, n) for n in names
                   if not n.endswith((".bin",))]
        # relative file names too (directory == "" / "sub")
        os.chdir(root_dir)
        targets += ["audio.cue", "data.cue", os.path.join("sub", "inner.cue"),
                    "missing_audio.cue"]
        for target in targets:
            got = describe_image(target)
            with original_world():
                want = describe_image(target)
            check("image %s" % target, got, want)
            kinds.add(str(want[1]) if want[0] == "exc" else want[1][0])
            for path in LS_PATHS:
                got = run_ls(target, path)
                with original_world():
                    want = run_ls(target, path)
                check("ls %s %r" % (target, path), got, want)
                checked += 1
    finally:
        os.chdir(saved_cwd)
        shutil.rmtree(root_dir, ignore_errors=True)
    for needed in ("CompactDiskAudioImage", "AkaiImageParser",
                   "FileNotFoundError"):
        if needed not in kinds:
            failures.append("never saw " + needed)
            print("never saw", needed, sorted(kinds))
    return checked


def main():
    runs = check_traced()
    checked = check_files()
    if failures:
        print("FAILED: %d mismatches" % len(failures))
        return 1
    print("OK: %d traced runs, %d ls runs on files, all agree"
          % (runs, checked))
    return 0


if __name__ == "__main__":
    sys.exit(main())
