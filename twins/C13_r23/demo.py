"""Equivalence demo for pull_child_info (smpl_extract/util/constructs.py), the
helper with which FileEntriesAdapter._parse - the directory table scan - and
every ElementAdapter find the parent, the routines and the name of the
elements they create.

An inline copy of the ORIGINAL function is compared with the function of the
tree
  * on a grid of contexts: plain dicts and construct Containers, the three
    keys present at nesting depth 0, 1, 2 (too deep to be seen) or absent, in
    every combination, with explicit names None / "" / "X" / 0 / a list;
    parents that are None, plain objects, falsy objects, objects without a
    path, objects whose path property raises, objects whose path is a tuple
    (so that `path + [name]` raises);
  * on contexts that are broken (None, missing keys(), keys() that raises).
  Compared: every field of the ChildInfo (values AND identities: parent is the
  object of the context, parent_path is parent.path, next_path is parent_path
  for nameless children and a new list otherwise, routines is the object of the
  context, fresh lists are really fresh), the type of the result, the
  exception, and the ORDER of the context lookups and of the `path` reads
  (event log);
  * end to end: FileEntriesAdapter.parse_stream on random directory tables
    (random records, end markers, truncation) with the tree's function and
    with the original patched into smpl_extract.akai.file_entry - names, types,
    parents and paths of the files, stream position, exceptions;
  * end to end: an ElementAdapter subclass with and without name_key.
Exit 0 when everything agrees, 1 otherwise.
"""
import io
import itertools
import random
import struct
import sys

from construct.core import Bytes
from construct.core import Struct
from construct.expr import this
from construct.lib.containers import Container

import smpl_extract.akai.file_entry as file_entry_module
import smpl_extract.util.constructs as constructs_module
from smpl_extract.akai.akai_string import char_ascii_to_akai
from smpl_extract.akai.data_types import FileType
from smpl_extract.akai.file_entry import FileEntriesAdapter
from smpl_extract.akai.file_entry import FileEntryConstruct
from smpl_extract.util.constructs import ChildInfo
from smpl_extract.util.constructs import ElementAdapter
from smpl_extract.util.fat import RequestedInvalidSector

TREE_FUNCTION = constructs_module.pull_child_info
REAL_PULL = constructs_module._pull_from_context

EVENTS = []


def _pull_from_context(context, key, default=None):
    # the original looked this helper up in its module at call time
    return constructs_module._pull_from_context(context, key, default)


def original_pull_child_info(context, name=None):
    # verbatim copy of the original body
    parent = None
    parent_path = []
    routines = []
    resultant_path = parent_path

    # name
    if name is None:
        name = _pull_from_context(context, "_elem_name", None)
    # parent
    parent = _pull_from_context(context, "_elem_parent", None)
    # parent_path
    if parent is not None:
        parent_path = parent.path
    # resultant_path
    if name is not None:
        resultant_path = parent_path + [name]
    else:
        resultant_path = parent_path
    # routines
    routines = _pull_from_context(context, "_elem_routines", [])

    result = ChildInfo(
        parent=parent,
        parent_path=parent_path,
        next_path=resultant_path,
        routines=routines,
        name=name
    )
    return result


def logging_pull(context, key, default=None):
    EVENTS.append(("pull", key, repr(default)))
    return REAL_PULL(context, key, default)


failures = 0
checked = 0


def report(label, new, old):
    global failures, checked
    checked += 1
    if new != old:
        failures += 1
        if failures < 10:
            print("MISMATCH", label)
            print("   new", str(new)[:500])
            print("   old", str(old)[:500])


def describe_exception(e):
    return ("raise", type(e), str(e), type(e.__cause__), type(e.__context__))


# ------------------------------------------------------------------ parents
class PlainParent:
    def __init__(self, path):
        self._path = path

    @property
    def path(self):
        EVENTS.append(("path read", "parent"))
        return self._path


class FalsyParent(PlainParent):
    def __bool__(self):
        return False

    def __len__(self):
        return 0


class EqualsNoneParent(PlainParent):
    def __eq__(self, other):
        return other is None

    def __ne__(self, other):
        return other is not None

    __hash__ = None


class NoPathParent:
    pass


class BrokenPathParent:
    @property
    def path(self):
        EVENTS.append(("path read", "broken"))
        raise RuntimeError("no path today")


def parent_makers():
    yield "none", lambda: None
    yield "plain", lambda: PlainParent(["img", "A"])
    yield "empty path", lambda: PlainParent([])
    yield "falsy", lambda: FalsyParent(["f"])
    yield "eq none", lambda: EqualsNoneParent(["e"])
    yield "no path", lambda: NoPathParent()
    yield "broken path", lambda: BrokenPathParent()
    yield "tuple path", lambda: PlainParent(("t",))
    yield "none path", lambda: PlainParent(None)
    yield "zero", lambda: 0
    yield "empty string", lambda: ""


ABSENT = object()


def build_context(kind, placements, values):
    """placements: depth (0, 1, 2) or ABSENT for each of the three keys"""
    layers = [kind() for _ in range(3)]
    layers[0]["_"] = layers[1]
    layers[1]["_"] = layers[2]
    for key, depth in placements.items():
        if depth is not ABSENT:
            layers[depth][key] = values[key]
    return layers[0]


def describe(result, values, parent):
    if not isinstance(result, tuple) or result[:1] == ("raise",):
        return result
    info = result
    description = [
        type(info) is ChildInfo, len(info), info._fields,
        info.parent is parent if parent is not None else info.parent is None,
        repr(info.parent_path), repr(info.next_path), repr(info.routines),
        repr(info.name), type(info.name),
        info.next_path is info.parent_path,
        info.routines is values["_elem_routines"],
        info.name is values["_elem_name"],
    ]
    try:
        description.append(info.parent_path is parent._path)
    except AttributeError:
        description.append("no _path")
    return description


def run(function, context, name, values, parent):
    EVENTS.clear()
    constructs_module._pull_from_context = logging_pull
    try:
        try:
            result = function(context) if name is ABSENT else function(context, name)
        except BaseException as e:  # noqa
            result = describe_exception(e)
    finally:
        constructs_module._pull_from_context = REAL_PULL
    return describe(result, values, parent), list(EVENTS)


def grid_checks():
    depths = (0, 1, 2, ABSENT)
    names_in_context = ("CTX", "", None, 0)
    explicit_names = (ABSENT, None, "", "X", 0, ["n"])
    shared = {}
    for kind in (dict, Container):
        for parent_label, make_parent in parent_makers():
            for placement in itertools.product(depths, repeat=3):
                placements = dict(zip(
                    ("_elem_name", "_elem_parent", "_elem_routines"), placement))
                for context_name in names_in_context:
                    for explicit in explicit_names:
                        outcomes = []
                        for function in (TREE_FUNCTION, original_pull_child_info):
                            parent = make_parent()
                            values = {
                                "_elem_name": context_name,
                                "_elem_parent": parent,
                                "_elem_routines": {"r": len},
                            }
                            context = build_context(kind, placements, values)
                            seen_parent = parent if placement[1] in (0, 1) else None
                            outcomes.append(run(
                                function, context, explicit, values, seen_parent))
                        report("grid %s %s %r %r %r" % (
                            kind.__name__, parent_label, placement, context_name,
                            explicit), outcomes[0], outcomes[1])
    # two calls never share their fresh lists
    for function in (TREE_FUNCTION, original_pull_child_info):
        first = function({})
        second = function({})
        shared[function] = (
            first.parent_path is second.parent_path,
            first.routines is second.routines,
            first.next_path is first.parent_path,
            first, second)
    report("fresh lists", shared[TREE_FUNCTION], shared[original_pull_child_info])


class RaisingKeys(dict):
    def keys(self):
        raise OSError("keys")


def broken_checks():
    cases = [
        ("none", None), ("int", 5), ("list", []), ("string", "_elem_name"),
        ("raising keys", RaisingKeys()),
        ("inner none", {"_": None}),
        ("inner int", {"_": 3}),
        ("inner raising", {"_": RaisingKeys()}),
        ("name only outer, inner raising", {"_elem_name": "N", "_": RaisingKeys()}),
    ]
    for label, context in cases:
        for explicit in (ABSENT, None, "X"):
            values = {"_elem_name": None, "_elem_routines": None}
            new = run(TREE_FUNCTION, context, explicit, values, None)
            old = run(original_pull_child_info, context, explicit, values, None)
            report("broken %s %r" % (label, explicit), new, old)


# -------------------------------------------------- directory table scan
class FakeSat:
    def __init__(self):
        self.log = []

    def get_segment(self, index):
        self.log.append(index)
        if index % 7 == 3:
            raise RequestedInvalidSector
        rng = random.Random(index)
        return io.BytesIO(bytes(rng.getrandbits(8) for _ in range(400)))


class Volume:
    path = ["img", "A", "VOL"]


NAME_ALPHABET = "ABCXYZ0189 #+-."
FILE_TYPES = [int(t) for t in FileType]
END_RECORD = bytes(8) + struct.pack("<H", 0xD747) + bytes(14)


def make_record(rng):
    kind = rng.random()
    if kind < 0.8:
        text = "".join(rng.choice(NAME_ALPHABET) for _ in range(rng.randint(0, 12)))
        name = char_ascii_to_akai(text.ljust(12))
    else:
        name = bytes(rng.getrandbits(8) for _ in range(12))
    file_type = rng.choice(FILE_TYPES) if rng.random() < 0.8 else rng.getrandbits(8)
    size = rng.choice((0, 1, 150, 400, 401, rng.getrandbits(24)))
    start = rng.choice((0, 1, 2, 3, 5, 10, 0xFFFF, rng.getrandbits(16)))
    record = name + bytes(4) + bytes([file_type]) + size.to_bytes(3, "little")
    record += struct.pack("<H", start) + bytes(2)
    return record


def make_table(rng):
    records = [make_record(rng) for _ in range(rng.randint(0, 10))]
    if records and rng.random() < 0.5:
        records[rng.randrange(len(records))] = END_RECORD
    data = b"".join(records)
    if rng.random() < 0.3:
        data += bytes(rng.getrandbits(8) for _ in range(rng.randint(1, 23)))
    return data


def table_outcome(function, data, with_parent, routines):
    saved = file_entry_module.pull_child_info
    file_entry_module.pull_child_info = function
    try:
        sat = FakeSat()
        volume = Volume()
        body = Struct("file_entries" / FileEntriesAdapter(this._.sat, FileEntryConstruct))
        stream = io.BytesIO(data)
        extra = {"_elem_routines": routines}
        if with_parent:
            extra["_elem_parent"] = volume
        try:
            parsed = body.parse_stream(stream, _=Container(marker=2), sat=sat, **extra)
        except BaseException as e:  # noqa
            return describe_exception(e) + (stream.tell(), sat.log)
        entries = []
        for entry in parsed.file_entries:
            try:
                content = entry.file
                content = (type(content), getattr(content, "name", None),
                           getattr(content, "path", None),
                           getattr(content, "parent", None) is volume,
                           getattr(content, "_routines", None) is routines)
            except BaseException as e:  # noqa
                content = describe_exception(e)[:2]
            entries.append((entry.name, entry.file_type, content))
        return ("ok", entries, stream.tell(), sat.log)
    finally:
        file_entry_module.pull_child_info = saved


# ------------------------------------------------------- element adapters
class EchoAdapter(ElementAdapter):
    def _decode_element(self, obj, child_info, context, path):
        return (obj, tuple(child_info), child_info.next_path is child_info.parent_path)


def adapter_outcome(function, name_key, context_extra):
    saved = constructs_module.pull_child_info
    constructs_module.pull_child_info = function
    try:
        adapter = EchoAdapter(Bytes(2), name_key)
        parent = PlainParent(["root"])
        extra = dict(context_extra)
        if extra.pop("with_parent", False):
            extra["_elem_parent"] = parent
        try:
            result = Struct("x" / adapter).parse(b"abcd", **extra)
        except BaseException as e:  # noqa
            return describe_exception(e)
        obj, info, shared = result.x
        return (obj, info[0] is parent if "_elem_parent" in extra else info[0],
                info[1:], shared)
    finally:
        constructs_module.pull_child_info = saved


def main():
    rng = random.Random(23)
    grid_checks()
    broken_checks()
    for n in range(600):
        table = make_table(rng)
        with_parent = rng.random() < 0.8
        routines = {} if rng.random() < 0.5 else {"k": None}
        report("table %d" % n,
               table_outcome(TREE_FUNCTION, table, with_parent, routines),
               table_outcome(original_pull_child_info, table, with_parent, routines))
    for name_key in (None, "title", "missing"):
        for extra in ({}, {"title": "T"}, {"title": None}, {"_elem_name": "E"},
                      {"title": "T", "_elem_name": "E"}, {"with_parent": True},
                      {"with_parent": True, "title": "T", "_elem_routines": {"a": 1}},
                      {"with_parent": True, "_elem_name": ""}):
            report("adapter %r %r" % (name_key, extra),
                   adapter_outcome(TREE_FUNCTION, name_key, extra),
                   adapter_outcome(original_pull_child_info, name_key, extra))
    print("checked", checked, "failures", failures)
    return 1 if failures else 0


if __name__ == "__main__":
    sys.exit(main())
