"""Equivalence evidence for r17: smpl_extract/akai/akai_string.py,
_fast_akai_to_ascii_byte (the per-character decoder behind AkaiPaddedString,
i.e. the `sample_name` field of SampleHeaderConstruct and the names of
programs / velocity zones).

The refactoring turns the chain of early returns (digit range -> return,
letter range -> return, symbol table lookup -> raise / return) into one
if/elif/else ladder that assigns `result` and has a single `return` at the
end; the symbol table is only built in the branch that uses it.

An inline copy of the ORIGINAL function is compared with the live one:
  1. on every int in -1000..1000, big ints, bools, floats (incl. nan/inf),
     and non-numeric arguments (same value AND type, or same exception type
     and args);
  2. through char_akai_to_ascii / AkaiString / AkaiPaddedString(12) on all
     single bytes, on 20000 random 12-byte names and on short input;
  3. through SampleHeaderConstruct on 300 random sample headers (name field and
     stream position, or the same exception type).
Exit 0 = all agree, 1 = a difference was found.
"""
import io
import math
import random
import struct
import sys

from construct.core import Adapter
from construct.core import ConstructError
from construct.core import FixedSized
from construct.core import GreedyBytes
from construct.core import NullStripped
from construct.core import Padded

from smpl_extract.akai import akai_string
from smpl_extract.akai.akai_string import AkaiPaddedString
from smpl_extract.akai.akai_string import AkaiString
from smpl_extract.akai.akai_string import char_akai_to_ascii
from smpl_extract.akai.akai_string import char_ascii_to_akai
from smpl_extract.akai.data_types import CHAR_MAP_A
from smpl_extract.akai.data_types import CHAR_MAP_MINUS
from smpl_extract.akai.data_types import CHAR_MAP_NINE
from smpl_extract.akai.data_types import CHAR_MAP_PERIOD
from smpl_extract.akai.data_types import CHAR_MAP_PLUS
from smpl_extract.akai.data_types import CHAR_MAP_POUND
from smpl_extract.akai.data_types import CHAR_MAP_SPACE
from smpl_extract.akai.data_types import CHAR_MAP_Z
from smpl_extract.akai.data_types import CHAR_MAP_ZERO
from smpl_extract.akai.data_types import CharFormat
from smpl_extract.akai.data_types import InvalidCharacter
from smpl_extract.akai.sample import SampleHeaderConstruct


# --------------------------------------------------------------------------
# inline copy of the ORIGINAL implementation
# --------------------------------------------------------------------------
def orig_fast_akai_to_ascii_byte(byte_in: int):
    if CHAR_MAP_ZERO[CharFormat.AKAI] <= byte_in <= CHAR_MAP_NINE[CharFormat.AKAI]:
        return byte_in + CHAR_MAP_ZERO[CharFormat.ASCII] - CHAR_MAP_ZERO[CharFormat.AKAI]

    if CHAR_MAP_A[CharFormat.AKAI] <= byte_in <= CHAR_MAP_Z[CharFormat.AKAI]:
        return byte_in + CHAR_MAP_A[CharFormat.ASCII] - CHAR_MAP_A[CharFormat.AKAI]

    symbol_map = {
        CHAR_MAP_SPACE[CharFormat.AKAI]:   CHAR_MAP_SPACE[CharFormat.ASCII],
        CHAR_MAP_POUND[CharFormat.AKAI]:   CHAR_MAP_POUND[CharFormat.ASCII],
        CHAR_MAP_PLUS[CharFormat.AKAI]:    CHAR_MAP_PLUS[CharFormat.ASCII],
        CHAR_MAP_MINUS[CharFormat.AKAI]:   CHAR_MAP_MINUS[CharFormat.ASCII],
        CHAR_MAP_PERIOD[CharFormat.AKAI]:  CHAR_MAP_PERIOD[CharFormat.ASCII],
    }
    resulting_symbol = symbol_map.get(byte_in)
    
    if resulting_symbol is None:
        raise InvalidCharacter

    return resulting_symbol


def orig_fast_akai_to_ascii(bytes_in):
    out_str = list()
    for byte in bytes_in:
        out_str.append(chr(orig_fast_akai_to_ascii_byte(byte)))
    return "".join(out_str)


class OrigAkaiString(Adapter):
    def _decode(self, obj, context, path):
        del context, path  # Unused
        try:
            result = orig_fast_akai_to_ascii(obj)
        except (InvalidCharacter):
            raise ConstructError
        return result

    def _encode(self, obj, context, path):
        del context, path  # Unused
        result = char_ascii_to_akai(obj)
        return result


def OrigAkaiPaddedString(length):
    result = OrigAkaiString(FixedSized(length, Padded(
        length,
        NullStripped(
            GreedyBytes,
            pad=CHAR_MAP_SPACE[CharFormat.AKAI].to_bytes(1, 'little')
        ),
        pattern=CHAR_MAP_SPACE[CharFormat.AKAI].to_bytes(1, 'little')
    )))
    return result


# --------------------------------------------------------------------------
failures = []


def outcome(func, *args):
    try:
        value = func(*args)
    except BaseException as e:  # noqa
        return ("exc", type(e).__name__, repr(e.args))
    if isinstance(value, float) and math.isnan(value):
        return ("val", "float", "nan")
    return ("val", type(value).__name__, repr(value))


def check(label, a, b):
    if a != b:
        failures.append((label, a, b))


class Weird:
    """comparable object that logs every operation made on it"""
    def __init__(self, value, log):
        self.value = value
        self.log = log
    def __le__(self, other):
        self.log.append(("le", other)); return self.value <= other
    def __ge__(self, other):
        self.log.append(("ge", other)); return self.value >= other
    def __add__(self, other):
        self.log.append(("add", other)); return self.value + other
    def __hash__(self):
        self.log.append(("hash",)); return hash(self.value)
    def __eq__(self, other):
        self.log.append(("eq", other)); return self.value == other


def main():
    rnd = random.Random(0xC20_17)
    live = akai_string._fast_akai_to_ascii_byte

    # 1. direct calls
    args = list(range(-1000, 1001))
    args += [2**31, 2**63, -2**63, 2**100, True, False]
    args += [0.0, 9.0, 9.5, 10.0, 10.5, 11.0, 36.0, 36.5, 37.0, 40.0, 41.0,
             -0.0, float("nan"), float("inf"), float("-inf")]
    args += [None, "a", b"a", b"", (1,), [1], {1}, 1+2j, object]
    for a in args:
        check(("byte", repr(a)), outcome(orig_fast_akai_to_ascii_byte, a), outcome(live, a))
    for v in list(range(-3, 60)) + [9.5, 36.5]:
        log_a, log_b = [], []
        ra = outcome(orig_fast_akai_to_ascii_byte, Weird(v, log_a))
        rb = outcome(live, Weird(v, log_b))
        check(("weird", v), ra, rb)
        check(("weird-log", v), log_a, log_b)

    # 2. strings
    for b in range(256):
        data = bytes([b])
        check(("c2a", b), outcome(orig_fast_akai_to_ascii, data), outcome(char_akai_to_ascii, data))
        check(("c2a-list", b), outcome(orig_fast_akai_to_ascii, [b, 0, b]), outcome(char_akai_to_ascii, [b, 0, b]))
    orig_p = OrigAkaiPaddedString(12)
    live_p = AkaiPaddedString(12)
    for n in range(20000):
        mode = n % 4
        if mode == 0:
            data = bytes(rnd.randrange(0, 0x29) for _ in range(12))
        elif mode == 1:
            data = bytes(rnd.randrange(0, 256) for _ in range(12))
        elif mode == 2:
            k = rnd.randrange(0, 13)
            data = bytes(rnd.randrange(0, 0x29) for _ in range(k)) + b"\x0a" * (12 - k)
        else:
            data = bytes(rnd.choice((0, 9, 10, 11, 0x24, 0x25, 0x28, 0x29, 255)) for _ in range(12))
        sa, sb = io.BytesIO(data + b"zz"), io.BytesIO(data + b"zz")
        ra = outcome(orig_p.parse_stream, sa)
        rb = outcome(live_p.parse_stream, sb)
        check(("padded", data), ra, rb)
        check(("padded-pos", data), sa.tell(), sb.tell())
        check(("akaistring", data), outcome(OrigAkaiString(GreedyBytes).parse, data),
              outcome(AkaiString(GreedyBytes).parse, data))
    for k in range(12):
        check(("short", k), outcome(orig_p.parse, b"\x0b" * k), outcome(live_p.parse, b"\x0b" * k))
    # building is not touched, but must still round-trip
    for text in ("", "A", "HELLO WORLD", "ZZ#+-. 09", "abc", "TOO LONG NAME!", "bad_char"):
        check(("build", text), outcome(orig_p.build, text), outcome(live_p.build, text))

    # 3. whole sample headers
    for n in range(300):
        if n % 3 == 0:
            name = bytes(rnd.randrange(0, 256) for _ in range(12))
        else:
            name = bytes(rnd.randrange(0, 0x29) for _ in range(12))
        play_start = rnd.randrange(0, 50)
        play_end = play_start + rnd.randrange(0, 50)
        header = bytes([rnd.choice((1, 3)), rnd.randrange(256), rnd.randrange(21, 128)]) + name
        header += bytes(rnd.randrange(256) for _ in range(4))
        header += bytes([rnd.randrange(0, 4), rnd.randrange(256), rnd.randrange(256)])
        header += bytes(rnd.randrange(256) for _ in range(4))
        header += struct.pack("<III", rnd.randrange(2**32), play_start, play_end)
        header += bytes(rnd.randrange(256) for _ in range(8 * 12))
        header += bytes(rnd.randrange(256) for _ in range(4))
        header += struct.pack("<H", rnd.choice((0, 22050, 44100, rnd.randrange(65536))))
        body = bytes(rnd.randrange(256) for _ in range(2 * play_end + 4))
        stream = io.BytesIO(header + body)
        expected_name = outcome(orig_fast_akai_to_ascii, name.rstrip(b"\x0a"))
        try:
            parsed = SampleHeaderConstruct.parse_stream(stream)
            got = ("val", "str", repr(parsed.sample_name))
        except ConstructError as e:
            got = ("exc", "InvalidCharacter", "()") if expected_name[0] == "exc" else ("exc", type(e).__name__, repr(e.args))
        check(("header", name), expected_name, got)

    if failures:
        for f in failures[:20]:
            print("MISMATCH", f)
        print(f"{len(failures)} mismatches")
        return 1
    print("r17 demo: all comparisons agree")
    return 0


if __name__ == "__main__":
    sys.exit(main())
