"""Equivalence demo for r12: parse_text_file and _wrap_filestream
(smpl_extract/actions.py).

Part 1 - parse_text_file: the live function is compared with an inline copy
of the ORIGINAL on many generated files (ASCII text with every line-ending
flavour, empty files, NUL bytes, non-ASCII bytes at the start / in the middle
/ at the very end / beyond the first read buffer, long files), on missing
paths, directories and odd argument types.  `open` is wrapped (in the module
namespace of the live code and in this file for the reference) so that the
normalised open parameters (file, mode, encoding, all other parameters at
their defaults) and the fact that the stream is closed afterwards - on success
and on failure - are part of the comparison, as are exception type, message,
__cause__ and __suppress_context__.

Part 2 - _wrap_filestream: live decorator versus an inline copy of the
ORIGINAL with a recording `determine_image_type` and recording actions; str,
str subclasses, bytes, None, arbitrary objects, extra positional / keyword
arguments, exceptions from either callee, metadata copied by functools.wraps.

Part 3 - end to end on a generated CUE/BIN audio image: `ls` / export through
a path and through an already opened image give the precomputed output, the
export is byte-identical before and after listings, and the image files are
not modified.
"""
import builtins
import contextlib
import hashlib
import inspect
import io
import os
import random
import sys
import tempfile
from functools import wraps

from smpl_extract import actions
from smpl_extract.actions import BadTextFile

OPEN_LOG = []
_OPEN_SIGNATURE = inspect.signature(io.open)


def logging_open(*args, **kwargs):
    """Stand-in for the builtin that records normalised arguments."""
    try:
        bound = _OPEN_SIGNATURE.bind(*args, **kwargs)
    except (TypeError, ValueError):
        # this Python cannot introspect open(): fall back to manual binding
        names = ["file", "mode", "buffering", "encoding", "errors",
                 "newline", "closefd", "opener"]
        merged = dict(zip(names, args))
        merged.update(kwargs)
        normalised = tuple(sorted((k, repr(v)) for k, v in merged.items()
                                  if not (k == "mode" and v == "r")))
        normalised += (("mode", repr(merged.get("mode", "r"))),)
    else:
        bound.apply_defaults()
        normalised = tuple(sorted(
            (k, repr(v)) for k, v in bound.arguments.items()
        ))
    record = {"args": normalised, "stream": None}
    OPEN_LOG.append(record)
    stream = builtins.open(*args, **kwargs)
    record["stream"] = stream
    return stream


# live code: shadow the builtin inside the actions module
actions.open = logging_open
# reference code below: shadow the builtin in this module
open = logging_open  # noqa: A001


# --------------------------------------------------------------------------
# inline copies of the ORIGINAL implementations
# --------------------------------------------------------------------------
def orig_parse_text_file(filename: str):
    with open(filename, "r", encoding="ascii") as file:
        try:
            text = file.readlines()
        except (UnicodeDecodeError) as e:
            raise BadTextFile from e
        return text


def determine_image_type(file):  # used by the inline original decorator
    return RECORDING_DETERMINE(file)


def orig_wrap_filestream(func):
    @wraps(func)
    def inner(file, *args, **kwargs):
        if isinstance(file, str):
            result = determine_image_type(file)
        else:
            result = file
        func(result, *args, **kwargs)
    return inner


# --------------------------------------------------------------------------
# part 1
# --------------------------------------------------------------------------
def describe_exception(exc):
    cause = exc.__cause__
    return (
        type(exc).__name__,
        str(exc),
        getattr(exc, "errno", None),
        type(cause).__name__ if cause is not None else None,
        getattr(cause, "args", None) and tuple(
            a if not isinstance(a, (bytes, bytearray)) else len(a)
            for a in cause.args
        ),
        exc.__suppress_context__,
        type(exc.__context__).__name__ if exc.__context__ is not None else None,
    )


def call_parse(func, argument):
    del OPEN_LOG[:]
    try:
        outcome = ("ok", func(argument))
    except BaseException as exc:  # noqa: BLE001 - compared
        outcome = ("exc",) + describe_exception(exc)
    opens = []
    for record in OPEN_LOG:
        stream = record["stream"]
        opens.append((
            record["args"],
            None if stream is None else stream.closed,
            None if stream is None else (stream.mode, stream.encoding),
        ))
    return outcome, tuple(opens)


def text_file_payloads(rng):
    payloads = [
        b"",
        b"\n",
        b"\r\n",
        b"\r",
        b"no newline at end",
        b"one\ntwo\nthree\n",
        b"one\r\ntwo\r\nthree",
        b"mac\rline\rendings\r",
        b"mixed\nline\r\nendings\rhere\n\n\n",
        b"\x00\x01\x02binary but seven bit\x7f\n",
        b"\x80",
        b"\xff\xfe",
        b"caf\xc3\xa9\n",
        b"good line\nbad \xe9 line\n",
        b"ends badly\n\xf0",
        b"FILE \"x.bin\" BINARY\n  TRACK 01 AUDIO\n    INDEX 01 00:00:00\n",
        b"A" * 70000 + b"\n" + b"B" * 10,
        b"A" * 70000 + b"\x99" + b"B" * 10,          # beyond first buffer
        (b"line\n" * 20000),
        (b"line\n" * 20000) + b"\xa0",
        b"\x1a\x04\x1b[0m\n",
        b"tab\tseparated\tvalues\n",
    ]
    for _ in range(250):
        length = rng.randrange(0, 400)
        if rng.random() < 0.5:
            alphabet = list(range(0, 128))
        else:
            alphabet = list(range(0, 128)) * 6 + list(range(128, 256))
        alphabet += [10] * 40 + [13] * 20
        payloads.append(bytes(rng.choice(alphabet) for _ in range(length)))
    return payloads


def part1(workdir):
    rng = random.Random(56)
    failures = 0
    checked = 0
    bad = 0
    for i, payload in enumerate(text_file_payloads(rng)):
        path = os.path.join(workdir, "text%04d.txt" % i)
        with builtins.open(path, "wb") as handle:
            handle.write(payload)
        live = call_parse(actions.parse_text_file, path)
        ref = call_parse(orig_parse_text_file, path)
        checked += 1
        if live[0][0] == "exc":
            bad += 1
        if live != ref:
            failures += 1
            print("parse_text_file mismatch for payload %d" % i)
            print("  live:", repr(live)[:600])
            print("  ref: ", repr(ref)[:600])
        # expected value computed independently of both implementations
        try:
            normalised = payload.decode("ascii") \
                .replace("\r\n", "\n").replace("\r", "\n")
            pieces = normalised.split("\n")
            lines = [piece + "\n" for piece in pieces[:-1]]
            if pieces[-1]:
                lines.append(pieces[-1])
            expected = ("ok", lines)
        except UnicodeDecodeError:
            expected = ("exc", "BadTextFile")
        if live[0][:2] != expected[:2]:
            failures += 1
            print("parse_text_file unexpected result for payload %d" % i,
                  repr(live[0])[:200], repr(expected)[:200])
        # stream must be closed in every case and opened read-only
        for args, closed, mode_enc in live[1]:
            if closed is not True or mode_enc != ("r", "ascii"):
                failures += 1
                print("stream state wrong", closed, mode_enc)

    odd_arguments = [
        os.path.join(workdir, "does-not-exist.txt"),
        workdir,                       # a directory
        os.path.join(workdir, "text0005.txt").encode(),  # bytes path
        "",
        None,
        3.5,
        ["list"],
        "bad\x00name",
        os.path.join(workdir, "text0005.txt", "below-a-file"),
    ]
    for argument in odd_arguments:
        live = call_parse(actions.parse_text_file, argument)
        ref = call_parse(orig_parse_text_file, argument)
        checked += 1
        if live != ref:
            failures += 1
            print("parse_text_file mismatch for argument %r" % (argument,))
            print("  live:", live)
            print("  ref: ", ref)
    print("part 1: %d inputs (%d undecodable), failures so far %d"
          % (checked, bad, failures))
    return failures


# --------------------------------------------------------------------------
# part 2
# --------------------------------------------------------------------------
class Boom(Exception):
    pass


EVENTS = []


def RECORDING_DETERMINE(file):
    EVENTS.append(("determine", type(file).__name__, file))
    if file == "explode":
        raise Boom("cannot open")
    if file == "none":
        return None
    return ("image-of", file)


class StrSubclass(str):
    pass


class FakeImage:
    def __repr__(self):
        return "FakeImage()"


FAKE_IMAGE = FakeImage()


def make_action(mode):
    def action(image, *args, **kwargs):
        """Docstring of the action."""
        EVENTS.append(("action", repr(image), args,
                       tuple(sorted(kwargs.items()))))
        if mode == "raise":
            raise Boom("action failed")
        return "this value is dropped by the wrapper"
    action.__name__ = "action_" + mode
    action.__qualname__ = "qual.action_" + mode
    action.custom_attribute = mode
    return action


def run_wrapped(wrapper_factory, mode, call_args, call_kwargs):
    del EVENTS[:]
    action = make_action(mode)
    wrapped = wrapper_factory(action)
    metadata = (
        wrapped.__name__, wrapped.__qualname__, wrapped.__doc__,
        wrapped.__wrapped__ is action, wrapped.__dict__.get("custom_attribute"),
        wrapped.__module__,
    )
    try:
        outcome = ("ok", wrapped(*call_args, **call_kwargs))
    except BaseException as exc:  # noqa: BLE001 - compared
        outcome = ("exc", type(exc).__name__, str(exc))
    return metadata, outcome, tuple(EVENTS)


def part2():
    failures = 0
    actions.determine_image_type = RECORDING_DETERMINE
    try:
        first_arguments = [
            "some/path.img", "", "explode", "none", StrSubclass("sub.img"),
            StrSubclass("explode"), b"bytes/path", None, 0, FAKE_IMAGE,
            ["a", "list"], ("image-of", "x"),
        ]
        extra = [
            ((), {}),
            (("/",), {}),
            ((), {"path": "/A"}),
            (("out", 1, 2), {"flag": True, "other": None}),
        ]
        checked = 0
        for mode in ("ok", "raise"):
            for first in first_arguments:
                for more_args, more_kwargs in extra:
                    call_args = (first,) + more_args
                    live = run_wrapped(actions._wrap_filestream, mode,
                                       call_args, more_kwargs)
                    ref = run_wrapped(orig_wrap_filestream, mode,
                                      call_args, more_kwargs)
                    checked += 1
                    if live != ref:
                        failures += 1
                        print("_wrap_filestream mismatch", mode, call_args,
                              more_kwargs)
                        print("  live:", live)
                        print("  ref: ", ref)
                    if live[1][0] == "ok" and live[1][1] is not None:
                        failures += 1
                        print("wrapper must return None")
        # calling without the mandatory first argument
        for factory in (actions._wrap_filestream, orig_wrap_filestream):
            try:
                factory(make_action("ok"))()
            except TypeError:
                pass
            else:
                failures += 1
                print("missing argument accepted")
            try:
                factory(make_action("ok"))(file="x.img")
                seen = tuple(EVENTS)
            except TypeError as exc:
                seen = ("TypeError", str(exc))
            EVENTS.append(("kw-call", seen))
        print("part 2: %d calls, failures so far %d" % (checked, failures))
    finally:
        actions.determine_image_type = ORIGINAL_DETERMINE
    return failures


ORIGINAL_DETERMINE = actions.determine_image_type


# --------------------------------------------------------------------------
# part 3
# --------------------------------------------------------------------------
EXPECTED_LS = (
    "Item                 Type                \n"
    "-----------------------------------------\n"
    "Untitled Track 1     CDDA Track          \n"
    "Untitled Track 2     CDDA Track          \n"
    "\n"
)
EXPECTED_BAD = "The entity \"nope\" was not found in \"image\".\n"
EXPECTED_EXPORT = "Exported Untitled Track 1.wav\nExported Untitled Track 2.wav\n"


def sha(path):
    with builtins.open(path, "rb") as handle:
        return hashlib.sha256(handle.read()).hexdigest()


def tree(directory):
    found = {}
    for root, _dirs, files in os.walk(directory):
        for name in files:
            full = os.path.join(root, name)
            found[os.path.relpath(full, directory)] = sha(full)
    return found


def captured(func, *args):
    buffer = io.StringIO()
    with contextlib.redirect_stdout(buffer):
        func(*args)
    return buffer.getvalue()


def part3(workdir):
    failures = 0
    rng = random.Random(7)
    bin_path = os.path.join(workdir, "disc.bin")
    cue_path = os.path.join(workdir, "disc.cue")
    with builtins.open(bin_path, "wb") as handle:
        handle.write(bytes(rng.randrange(256) for _ in range(2352 * 75 * 3)))
    with builtins.open(cue_path, "w", newline="") as handle:
        handle.write(
            "FILE \"disc.bin\" BINARY\r\n"
            "  TRACK 01 AUDIO\r\n    INDEX 01 00:00:00\r\n"
            "  TRACK 02 AUDIO\r\n    INDEX 01 00:01:37\r\n"
        )
    before = (sha(bin_path), sha(cue_path))

    # fresh object per operation (through the path) ...
    fresh_ls = captured(actions.ls_action, cue_path, "")
    fresh_bad = captured(actions.ls_action, cue_path, "nope")
    out_fresh = os.path.join(workdir, "out-fresh")
    fresh_export = captured(actions.export_samples_to_wav, cue_path, out_fresh)

    # ... versus one image object with a history
    del OPEN_LOG[:]
    image = actions.determine_image_type(cue_path)
    modes = sorted(r["stream"].mode for r in OPEN_LOG if r["stream"] is not None)
    if modes != ["r", "rb"]:
        failures += 1
        print("unexpected open modes", modes)
    history = []
    history.append(captured(actions.ls_action, image, "nope"))
    history.append(captured(actions.ls_action, image, ""))
    out_hist = os.path.join(workdir, "out-history")
    history.append(captured(actions.export_samples_to_wav, image, out_hist))
    history.append(captured(actions.ls_action, image, ""))
    out_again = os.path.join(workdir, "out-again")
    history.append(captured(actions.export_samples_to_wav, image, out_again))

    checks = [
        (fresh_ls, EXPECTED_LS), (fresh_bad, EXPECTED_BAD),
        (fresh_export, EXPECTED_EXPORT), (history[0], EXPECTED_BAD),
        (history[1], EXPECTED_LS), (history[2], EXPECTED_EXPORT),
        (history[3], EXPECTED_LS), (history[4], EXPECTED_EXPORT),
    ]
    for i, (got, expected) in enumerate(checks):
        if got != expected:
            failures += 1
            print("end-to-end output %d differs: %r" % (i, got))
    trees = [tree(out_fresh), tree(out_hist), tree(out_again)]
    if not (trees[0] == trees[1] == trees[2]) or sorted(trees[0]) != [
            "Untitled Track 1.wav", "Untitled Track 2.wav"]:
        failures += 1
        print("exported trees differ", trees)
    if (sha(bin_path), sha(cue_path)) != before:
        failures += 1
        print("image files were modified")

    # a text file that is no cue sheet and a binary file fall through to the
    # binary open; whatever the parsers make of it, both spellings agree
    for name, payload in (("notes.txt", b"just some notes\n"),
                          ("junk.img", bytes(range(256)) * 64)):
        path = os.path.join(workdir, name)
        with builtins.open(path, "wb") as handle:
            handle.write(payload)
        outcomes = []
        for _ in range(2):
            del OPEN_LOG[:]
            try:
                result = ("ok", type(actions.determine_image_type(path)).__name__)
            except Exception as exc:  # noqa: BLE001
                result = ("exc", type(exc).__name__)
            outcomes.append((result, tuple(
                (r["stream"].mode if r["stream"] is not None else None)
                for r in OPEN_LOG
            )))
        if outcomes[0] != outcomes[1] or outcomes[0][1] != ("r", "rb"):
            failures += 1
            print("fall-through open sequence wrong", name, outcomes)
        if sha(path) != hashlib.sha256(payload).hexdigest():
            failures += 1
            print("file modified", name)
    print("part 3: end-to-end done, failures so far %d" % failures)
    return failures


def main():
    failures = 0
    with tempfile.TemporaryDirectory(prefix="r12demo") as workdir:
        failures += part1(workdir)
        failures += part2()
        failures += part3(workdir)
    print("total failures: %d" % failures)
    return 1 if failures else 0


if __name__ == "__main__":
    sys.exit(main())
