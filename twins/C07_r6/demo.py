"""Equivalence demo for r6: FileAllocationTable.get_path (smpl_extract/util/fat.py).

Compares the module's get_path against an inline copy of the ORIGINAL
implementation on every small link table (exhaustive) and on random tables of
real size with injected cycles, merges and out-of-range links.
"""
import itertools
import random
import sys

from smpl_extract.akai.sat import SegmentAllocationTable
from smpl_extract.roland.s7xx.fat import RolandFileAllocationTable
from smpl_extract.util.fat import FileAllocationTable
from smpl_extract.util.fat import InvalidFatDefinition
from smpl_extract.util.fat import RequestedInvalidSector
from smpl_extract.util.fat import SectorLink


def original_get_path(self, starting_sector):

    path = []
    current_sector = starting_sector

    loop_cnt = 0
    while loop_cnt < self.size:
        if current_sector >= len(self.sector_links):
            raise RequestedInvalidSector

        path.append(current_sector)
        sector_link = self.sector_links[current_sector]

        if sector_link.end:
            break
        current_sector = sector_link.next
        loop_cnt += 1

    if loop_cnt >= self.size:
        raise InvalidFatDefinition("Broken FAT. Loop? Sector path exceeds size?")

    return path


def run(fn):
    try:
        return ("ret", fn())
    except BaseException as exc:  # noqa
        return ("exc", type(exc).__name__, str(exc))


def snapshot(links):
    return [(x.next, x.end) for x in links]


def main():
    checked = 0
    bad = 0

    def check(cls, size, links, start):
        nonlocal checked, bad
        table = cls(None, size, links)
        before = snapshot(links)
        a = run(lambda: original_get_path(table, start))
        b = run(lambda: table.get_path(start))
        checked += 1
        ok = a == b and snapshot(links) == before and table.size == size
        if a[0] == "ret" and b[0] == "ret":
            ok = ok and type(a[1]) is type(b[1])
        if not ok:
            bad += 1
            if bad < 10:
                print("MISMATCH", cls.__name__, size, before, start, a, b)

    # exhaustive over small tables; `size` deliberately independent of the
    # number of entries (the constructor allows it)
    for n in range(0, 4):
        entry_values = [
            SectorLink(next=nxt, end=end)
            for nxt in range(-1, n + 2)
            for end in (False, True)
        ]
        for entries in itertools.product(entry_values, repeat=n):
            links = list(entries)
            for size in range(0, n + 3):
                for start in range(-n - 1, n + 2):
                    check(FileAllocationTable, size, links, start)

    # size 4, in-range / one out-of-range link only (keeps the count sane)
    n = 4
    entry_values = [
        SectorLink(next=nxt, end=end)
        for nxt in range(0, n + 1)
        for end in (False, True)
    ]
    for entries in itertools.product(entry_values, repeat=n):
        links = list(entries)
        for size in (0, 1, 3, 4, 5):
            for start in range(0, n + 1):
                check(FileAllocationTable, size, links, start)

    # random tables of real size, through the two subclasses as well
    rng = random.Random(7072)
    for _ in range(400):
        n = rng.choice([8, 64, 500, 2000])
        order = list(range(n))
        rng.shuffle(order)
        links = [SectorLink()] * n
        pos = 0
        while pos < n:
            run_len = rng.randint(1, 30)
            chain = order[pos:pos + run_len]
            for a_, b_ in zip(chain, chain[1:]):
                links[a_] = SectorLink(next=b_, end=False)
            links[chain[-1]] = SectorLink(next=0, end=True)
            pos += run_len
        # inject damage
        for _ in range(rng.randint(0, 6)):
            victim = rng.randrange(n)
            links[victim] = SectorLink(
                next=rng.choice([victim, rng.randrange(n), n, n + 3, -1]),
                end=rng.random() < 0.2,
            )
        cls = rng.choice(
            [FileAllocationTable, SegmentAllocationTable, RolandFileAllocationTable]
        )
        for size in (n, n - 1, rng.randint(0, n + 5), 1, 0):
            for _ in range(12):
                check(cls, size, links, rng.randrange(-2, n + 3))

    print(f"checked {checked} cases, {bad} mismatches")
    return 1 if bad else 0


if __name__ == "__main__":
    sys.exit(main())
