"""Equivalence demo for r11 (what `ls <file> <path>` opens before any path is
resolved or reported as not found: actions.determine_image_type).

`determine_image_type` as currently in the tree is compared with an inline
copy of the ORIGINAL implementation (run against the same module globals):
  * with every collaborator (parse_text_file, attempt_parse_cue_sheet, open,
    is_mdf_image, MdfStream, is_mdx_image, MdxStream, is_roland_s7xx_image,
    RolandSxxImageParser, AkaiImageParser, os.path.dirname) replaced by a
    scripted recorder, over the full product of their behaviours (normal
    results, falsy / None results, BadTextFile, BadCueSheet, subclasses of
    both, unrelated exceptions) and several kinds of `file` argument (str,
    str subclass, empty str, bytes, stream object, None): same call
    sequence, same arguments by identity, same result object or exception;
  * on real files in a temporary directory (AKAI image, the same image in
    MDF and MDX wrapping, empty file, non-ASCII garbage, plain text, cue
    sheets with a data track / audio tracks only / no tracks / a missing bin
    file, a missing path, a directory) given as file names and as open
    streams: same resulting image class or exception, and the same stdout of
    ls_action for found and not-found paths.
Exit 0 when all agree, else 1.
"""
import contextlib
import io
import itertools
import os
import sys
import tempfile
import types

import smpl_extract.actions as actions
from smpl_extract.actions import BadTextFile
from smpl_extract.akai.data_types import AKAI_PARTITION_MAGIC
from smpl_extract.akai.data_types import AKAI_SAT_ENTRY_CNT
from smpl_extract.akai.data_types import AKAI_SECTOR_SIZE
from smpl_extract.akai.data_types import AKAI_VOLUME_ENTRY_CNT
from smpl_extract.akai.data_types import FILE_TABLE_END_FLAG
from smpl_extract.cuesheet import BadCueSheet


# ---- ORIGINAL implementation (verbatim) -----------------------------------
def _orig_determine_image_type(file):
    if isinstance(file, str):
        is_textfile = True
        lines = []
        try:
            lines = parse_text_file(file)
        except BadTextFile:
            is_textfile = False

        if is_textfile:
            parent_directory = os.path.dirname(file)
            try:
                result = attempt_parse_cue_sheet(lines, parent_directory)
                return result
            except BadCueSheet:
                pass

        file_stream = open(file, "rb")
    else:
        file_stream = file

    if is_mdf_image(file_stream):
        file_stream = MdfStream(file_stream)
    elif is_mdx_image(file_stream):
        file_stream = MdxStream(file_stream)

    if is_roland_s7xx_image(file_stream):
        result = RolandSxxImageParser(file_stream)
    else:
        result = AkaiImageParser(file_stream)
    return result


# Re-home the original so that it resolves its globals (collaborators, `os`,
# the exception classes, a patched `open`) in smpl_extract.actions, exactly
# like the function in the tree does.
orig_determine_image_type = types.FunctionType(
    _orig_determine_image_type.__code__,
    actions.__dict__,
    "determine_image_type",
)
new_determine_image_type = actions.determine_image_type


@contextlib.contextmanager
def world(func):
    """Make `func` the module's determine_image_type (used by the recursion
    in attempt_parse_cue_sheet and by the ls_action wrapper)."""
    saved = actions.determine_image_type
    actions.determine_image_type = func
    try:
        yield
    finally:
        actions.determine_image_type = saved


# ---- part 1: scripted collaborators ---------------------------------------
class MyBadTextFile(BadTextFile):
    pass


class MyBadCueSheet(BadCueSheet):
    pass


class Boom(Exception):
    pass


class Token:
    def __init__(self, label, truth=True):
        self.label = label
        self.truth = truth

    def __bool__(self):
        return self.truth

    def __repr__(self):
        return f"<{self.label}>"


class StrSub(str):
    pass


class FakeOsPath:
    def __init__(self, log):
        self.log = log

    def dirname(self, value):
        self.log.append(("dirname", value))
        return Token("dir")


class FakeOs:
    def __init__(self, log):
        self.path = FakeOsPath(log)


BEHAVIOURS = {
    "parse_text_file": [
        "lines", "empty", "none", BadTextFile, MyBadTextFile, BadCueSheet,
        FileNotFoundError, UnicodeDecodeError,
    ],
    "attempt_parse_cue_sheet": [
        "token", "none", "falsy", BadCueSheet, MyBadCueSheet, BadTextFile,
        Boom,
    ],
    "open": ["token", OSError, BadCueSheet],
    "is_mdf_image": [True, False, "falsy-token", Boom],
    "MdfStream": ["token", Boom],
    "is_mdx_image": [True, False, Boom],
    "MdxStream": ["token", "none"],
    "is_roland_s7xx_image": [True, False, "truthy-token", "falsy-token",
                             Boom],
    "RolandSxxImageParser": ["token", Boom],
    "AkaiImageParser": ["token", "none", Boom],
}
NAMES = list(BEHAVIOURS)


def make_collaborator(name, behaviour, log, registry):
    def collaborator(*args, **kwargs):
        log.append((
            name,
            tuple(registry.get(id(a), repr(a)) for a in args),
            tuple(sorted(kwargs)),
        ))
        if isinstance(behaviour, type) and issubclass(behaviour, Exception):
            if behaviour is UnicodeDecodeError:
                raise UnicodeDecodeError("ascii", b"\xff", 0, 1, "scripted")
            raise behaviour(f"from {name}")
        if behaviour == "token":
            value = Token(f"{name}-result")
        elif behaviour == "lines":
            value = ["FILE \"x\" BINARY\n"]
        elif behaviour == "empty":
            value = []
        elif behaviour == "none":
            value = None
        elif behaviour == "falsy":
            value = Token(f"{name}-falsy", truth=False)
        elif behaviour == "falsy-token":
            value = Token(f"{name}-falsy", truth=False)
        elif behaviour == "truthy-token":
            value = Token(f"{name}-truthy", truth=True)
        else:
            value = behaviour
        if value is not None and not isinstance(value, bool):
            registry[id(value)] = f"{name}-result"
            registry.setdefault("keep", []).append(value)
        return value
    return collaborator


def make_file_argument(kind, registry):
    if kind == "str":
        value = "/some/dir/image.img"
    elif kind == "strsub":
        value = StrSub("relative.cue")
    elif kind == "empty":
        value = ""
    elif kind == "bytes":
        value = b"/some/dir/image.img"
    elif kind == "none":
        value = None
    else:
        value = Token("stream-arg")
    if value is not None:
        registry[id(value)] = "file-arg"
    return value


FILE_KINDS = ["str", "strsub", "empty", "bytes", "stream", "none"]


def run_scripted(func, file_kind, combo):
    log = []
    registry = {}
    saved = {}
    patched = dict(zip(NAMES, combo))
    for name, behaviour in patched.items():
        saved[name] = actions.__dict__.get(name, KeyError)
        actions.__dict__[name] = make_collaborator(
            name, behaviour, log, registry
        )
    saved["os"] = actions.os
    actions.os = FakeOs(log)
    file_arg = make_file_argument(file_kind, registry)
    try:
        try:
            result = func(file_arg)
            outcome = ("ok", registry.get(id(result), repr(result)))
        except BaseException as exc:  # noqa: B902
            outcome = ("exc", type(exc).__name__, str(exc))
    finally:
        for name, value in saved.items():
            if value is KeyError:
                del actions.__dict__[name]
            else:
                actions.__dict__[name] = value
    return outcome, log


def relevant_combos(file_kind):
    """Product of the behaviours before the stream is opened, times the
    product of the behaviours after it, thinned to stay fast: every
    "before" combination meets a handful of "after" combinations and the
    other way round. Knobs that cannot be reached are collapsed."""
    is_str = file_kind in ("str", "strsub", "empty")
    before_names, after_names = NAMES[:3], NAMES[3:]
    before = list(itertools.product(*(
        BEHAVIOURS[name] if is_str else BEHAVIOURS[name][:1]
        for name in before_names
    )))
    after = list(itertools.product(*(
        BEHAVIOURS[name] for name in after_names
    )))
    some_after = after[::max(1, len(after) // 7)]
    some_before = before[::max(1, len(before) // 5)]
    seen = set()
    for first, second in itertools.chain(
        itertools.product(before, some_after),
        itertools.product(some_before, after),
    ):
        combo = first + second
        key = tuple(map(repr, combo))
        if key not in seen:
            seen.add(key)
            yield combo


# ---- part 2: real files ---------------------------------------------------
def akai_name(text):
    out = []
    for ch in text.ljust(12)[:12]:
        if ch.isdigit():
            out.append(ord(ch) - ord("0"))
        elif "A" <= ch <= "Z":
            out.append(0x0B + ord(ch) - ord("A"))
        else:
            out.append({" ": 0x0A, "#": 0x25, "+": 0x26, "-": 0x27,
                        ".": 0x28}[ch])
    return bytes(out)


def make_partition(sectors, volumes=()):
    header = (
        sectors.to_bytes(2, "little") + b"\x00\x00" + AKAI_PARTITION_MAGIC
        + bytes([0x55, 0xBA]) + b"\x2f\x00"
    )
    sat = [0] * AKAI_SAT_ENTRY_CNT
    entries = b""
    bodies = {}
    next_sector = 4
    for n in range(AKAI_VOLUME_ENTRY_CNT):
        if n < len(volumes):
            name, vtype = volumes[n]
            entries += (
                akai_name(name) + vtype.to_bytes(2, "little")
                + next_sector.to_bytes(2, "little")
            )
            sat[next_sector] = 0xC000
            body = bytearray(AKAI_SECTOR_SIZE)
            body[8:10] = FILE_TABLE_END_FLAG.to_bytes(2, "little")
            bodies[next_sector] = bytes(body)
            next_sector += 1
        else:
            entries += bytes([0x0A] * 12) + b"\x00\x00\x00\x00"
    for s in range(4):
        sat[s] = 0x4000
    sat_bytes = b"".join(v.to_bytes(2, "little") for v in sat)
    blob = bytearray(sectors * AKAI_SECTOR_SIZE)
    head = header + entries + sat_bytes
    blob[:len(head)] = head
    for sector, body in bodies.items():
        blob[sector * AKAI_SECTOR_SIZE:(sector + 1) * AKAI_SECTOR_SIZE] = body
    return bytes(blob)


def wrap_mdf(payload):
    out = bytearray()
    magic = b"\x00" + b"\xff" * 10 + b"\x00"
    for n in range(0, len(payload), 2048):
        chunk = payload[n:n + 2048].ljust(2048, b"\x00")
        out += magic + (n // 2048).to_bytes(3, "big") + b"\x01"
        out += chunk + b"\x00" * 288
    return bytes(out)


def wrap_mdx(payload):
    header_size = 16 + 2 + 26 + 4 + 8 + 8
    header = (
        b"MEDIA\x20DESCRIPTOR" + b"\x02\x01" + b"\xa9" + b"\x20" * 25
        + b"\xff" * 4 + (header_size + len(payload)).to_bytes(8, "little")
        + b"\x00" * 8
    )
    assert len(header) == header_size
    return header + payload


def write_files(root):
    vols_a = (("VOLUME 001", 1), ("VOLUME 002", 3), ("VOLUME 001", 1))
    akai = make_partition(8, vols_a) + make_partition(4, (("DRUMS", 3),))
    files = {
        "akai.img": akai,
        "akai.mdf": wrap_mdf(akai),
        "akai.mdx": wrap_mdx(akai),
        "empty.bin": b"",
        "garbage.bin": bytes(range(256)) * 64,
        "text.txt": b"hello world\nnot a cue sheet\n",
        "latin1.txt": "FILE \"akai.img\" BINARY \xe4\n".encode("latin-1"),
        "data.cue": (
            b"FILE \"akai.img\" BINARY\n  TRACK 01 MODE1/2352\n"
            b"    INDEX 01 00:00:00\n"
        ),
        "mixed.cue": (
            b"FILE \"akai.mdf\" BINARY\n  TRACK 01 AUDIO\n"
            b"    INDEX 01 00:00:00\n  TRACK 02 MODE1/2352\n"
            b"    INDEX 01 00:02:00\n"
        ),
        "audio.bin": bytes(2352 * 75 * 3),
        "audio.cue": (
            b"FILE \"audio.bin\" BINARY\n  TRACK 01 AUDIO\n"
            b"    TITLE \"First\"\n    INDEX 01 00:00:00\n"
            b"  TRACK 02 AUDIO\n    INDEX 01 00:01:00\n"
            b"  TRACK 03 AUDIO\n    TITLE \"First\"\n    INDEX 01 00:02:00\n"
        ),
        "notrack.cue": b"FILE \"akai.img\" BINARY\n",
        "missing.cue": (
            b"FILE \"nope.bin\" BINARY\n  TRACK 01 MODE1/2352\n"
            b"    INDEX 01 00:00:00\n"
        ),
        "selfref.cue": b"REM nothing\nTRACK 01 AUDIO\n",
    }
    for name, data in files.items():
        with open(os.path.join(root, name), "wb") as handle:
            handle.write(data)
    os.mkdir(os.path.join(root, "subdir"))
    return sorted(files) + ["subdir", "does-not-exist.img"]


LS_PATHS = [
    "", "/", "A", "a:", "A:/", "B", "C", "A/VOLUME 001", "A/VOLUME 001 (2)",
    "a/volume 002/", "A/VOLUME 003", "B:/DRUMS", "B/DRUMS/x", "First",
    "First (2)", "Untitled Track 2", "Untitled Track 9", "nope", "\u2603",
]


def describe(result):
    return (type(result).__module__, type(result).__name__)


def run_real(func, target, as_stream):
    out = []
    with world(func):
        handle = None
        try:
            if as_stream == "file":
                handle = open(target, "rb")
                argument = handle
            elif as_stream == "bytesio":
                with open(target, "rb") as src:
                    argument = io.BytesIO(src.read())
            else:
                argument = target
        except OSError as exc:
            return [("setup-exc", type(exc).__name__)]
        try:
            result = func(argument)
            out.append(("ok", describe(result)))
        except BaseException as exc:  # noqa: B902
            out.append(("exc", type(exc).__name__, str(exc)))
            result = None
        if handle is not None:
            out.append(("stream-pos", handle.tell()))

        # a str argument is re-opened and re-parsed for every ls call, so
        # use fewer paths there to keep the demo quick
        paths = LS_PATHS[::3] if isinstance(argument, str) else LS_PATHS
        for path in paths:
            buf = io.StringIO()
            try:
                with contextlib.redirect_stdout(buf):
                    # through the public wrapper, which calls the module's
                    # determine_image_type for str arguments
                    if isinstance(argument, str):
                        actions.ls_action(argument, path)
                    elif result is not None:
                        actions.ls_action(result, path)
                out.append(("ls", path, buf.getvalue()))
            except BaseException as exc:  # noqa: B902
                out.append((
                    "ls-exc", path, type(exc).__name__, str(exc),
                    buf.getvalue()
                ))
        if handle is not None:
            handle.close()
    return out


def main():
    failures = 0
    checked = 0

    for file_kind in FILE_KINDS:
        for combo in relevant_combos(file_kind):
            expected = run_scripted(
                orig_determine_image_type, file_kind, combo
            )
            actual = run_scripted(new_determine_image_type, file_kind, combo)
            checked += 1
            if expected != actual:
                failures += 1
                if failures <= 5:
                    print("MISMATCH", file_kind, dict(zip(NAMES, combo)))
                    print("  expected", expected)
                    print("  actual  ", actual)

    with tempfile.TemporaryDirectory() as root:
        names = write_files(root)
        cwd = os.getcwd()
        seen_classes = set()
        for name in names:
            for as_stream in ("name", "file", "bytesio", "relative"):
                if as_stream == "relative":
                    os.chdir(root)
                    target = name
                else:
                    target = os.path.join(root, name)
                try:
                    mode = "name" if as_stream == "relative" else as_stream
                    expected = run_real(
                        orig_determine_image_type, target, mode
                    )
                    actual = run_real(new_determine_image_type, target, mode)
                finally:
                    os.chdir(cwd)
                checked += 1
                if expected[0][0] == "ok":
                    seen_classes.add(expected[0][1][1])
                if expected != actual:
                    failures += 1
                    if failures <= 5:
                        print("MISMATCH for", name, as_stream)
                        for a, b in zip(expected, actual):
                            if a != b:
                                print("  expected", a)
                                print("  actual  ", b)
                                break
        wanted = {"AkaiImageParser", "CompactDiskAudioImage"}
        if not wanted <= seen_classes:
            # the fixtures are meant to reach both kinds of result
            print("fixtures reached only", sorted(seen_classes))
            failures += 1

    print(f"checked {checked} cases, {failures} mismatches")
    return 1 if failures else 0


if __name__ == "__main__":
    sys.exit(main())
