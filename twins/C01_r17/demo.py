"""Equivalence demo for r17 (smpl_extract/util/sector.py: where
SectorStream._get_address_given_sector_index is defined).

Inline copies of the ORIGINAL classes (SectorStream with the method in its own
body, FileStream and an MDF-like subclass on top of it) are compared with the
live classes:
  A. SectorStream over random bytes: every (sector length, size, position,
     read size) session gives the same bytes / the same exception, the same
     cursor and the same sequence of seek/read calls on the parent stream;
     _get_address_given_sector_index, _translate_address and _read_sector are
     also called directly with ordinary and odd arguments;
  B. FileStream (the class Segment derives from) with sector lists in every
     order, lists that are too short, sector numbers beyond the parent: the
     super() call of FileStream must land on the same arithmetic;
  C. a subclass that overrides the addressing (like MdfStream) still wins;
  D. whole AKAI images from an independent writer exported to WAV with the
     live classes and with the original method put back into the body of
     SectorStream: same stdout, same files, same bytes.
Exit 0 = all agree."""
import contextlib
import hashlib
import io
import os
import random
import shutil
import struct
import sys
import tempfile
from io import IOBase
from io import SEEK_CUR
from io import SEEK_END
from io import SEEK_SET
from typing import List

import smpl_extract.util.sector as sector_module
from smpl_extract.util.fat import FileStream
from smpl_extract.util.sector import SectorStream
from smpl_extract.util.stream import AttemptToReadBeyondBuffer
from smpl_extract.util.stream import SectorReadError
from smpl_extract.util.stream import StreamWrapper


# ---- inline copy of the ORIGINAL implementation -------------------------
class OrigSectorStream(StreamWrapper):


    def __init__(
            self,
            parent_stream:  IOBase,
            size:           int,
            sector_length:  int,
            position:       int = 0,
            buffer_length:  int = 0x1000
    ) -> None:

        super().__init__(
            parent_stream, 
            size=size,
            position=position,
            buffer_length=buffer_length
        )

        self.sector_length = sector_length

    
    def _get_address_given_sector_index(
            self, 
            sector_index: int, 
            offset: int
        ):
        sector_address  = sector_index * self.sector_length
        
        parent_address = sector_address + offset
        return parent_address


    def _translate_address(
            self, 
            content_address: int
    )->int:

        if content_address >= self.end_of_file:
            return self.end_of_file
        
        sector_index    = content_address // self.sector_length
        sector_offset   = content_address % self.sector_length

        partition_address = self._get_address_given_sector_index(
            sector_index, 
            sector_offset
        )
        return partition_address


    def _read_sector(
            self, 
            sector_index: int, 
            offset: int, 
            size: int
    )->bytes:
        if offset + size > self.sector_length:
            raise AttemptToReadBeyondBuffer("Reading too much")

        start_address = self._get_address_given_sector_index(
            sector_index, 
            offset
        )
    
        self.substream.seek(start_address, SEEK_SET)
        result = self.substream.read(size)
        return result

    
    def _read(self, size: int)->bytes:

        if size <= 0:
            return bytes()

        remaining_size = size

        initial_sector_index    = self.position // self.sector_length
        initial_sector_offset   = self.position % self.sector_length
        
        # read partial initial sector
        if initial_sector_offset + size <= self.sector_length:
            initial_read_size = size
        else:
            initial_read_size = self.sector_length - initial_sector_offset
        result = self._read_sector(
            initial_sector_index, 
            initial_sector_offset, 
            initial_read_size
        )
        remaining_size -= initial_read_size

        # read full size middle sectors
        i = 1
        while remaining_size > self.sector_length:
            result += self._read_sector(
                initial_sector_index + i, 
                0, 
                self.sector_length
            )
            remaining_size -= self.sector_length
            i += 1
        
        # read partial final sector
        final_sector_index = initial_sector_index + i
        if remaining_size > 0:
            result += self._read_sector(
                final_sector_index, 
                0, 
                remaining_size
            )

        if len(result) != size:
            raise SectorReadError(f"Wanted {size}, read {len(result)}.")

        return result


def orig_get_address_given_sector_index(
        self, 
        sector_index: int, 
        offset: int
    ):
    sector_address  = sector_index * self.sector_length
    
    parent_address = sector_address + offset
    return parent_address


class OrigFileStream(OrigSectorStream):


    def __init__(
            self,
            parent_stream:      IOBase,
            sector_size:        int,
            sector_list:        List[int],
            position:           int = 0,
            buffer_length:      int = 0x1000
    ) -> None:
        super().__init__(
            parent_stream, 
            size=(sector_size * len(sector_list)),
            sector_length=sector_size,
            position=position,
            buffer_length=buffer_length
        )
        self.sector_list = sector_list

    
    def _get_address_given_sector_index(
            self, 
            sector_index: int, 
            offset: int
        ):
        try:
            sector  = self.sector_list[sector_index]
        except IndexError as e:
            raise SectorReadError(
                f"Sector {sector_index} lies beyond the "
                f"{len(self.sector_list)} sectors of the file."
            ) from e
        result  = super()._get_address_given_sector_index(
            sector,
            offset
        )
        return result


def make_framed(base):
    """A subclass that overrides the addressing the way MdfStream does."""
    class Framed(base):
        FRAME = 7
        def _get_address_given_sector_index(self, sector_index, offset):
            return sector_index * (self.sector_length + 2 * self.FRAME) + self.FRAME + offset
    return Framed
# -------------------------------------------------------------------------

# ---- independent AKAI S1000/S3000 image writer (logical model -> bytes) ----
import struct as _struct

SECTOR = 0x2000
SAT_CNT = 11386
HEADER_SECTORS = 3
MAGIC = b"".join(((3333 * i) & 0xFFFF).to_bytes(2, "little") for i in range(1, 98))


def akai_name(text):
    out = bytearray()
    for ch in text.upper().ljust(12)[:12]:
        if "0" <= ch <= "9":
            out.append(ord(ch) - ord("0"))
        elif "A" <= ch <= "Z":
            out.append(ord(ch) - ord("A") + 0x0B)
        else:
            out.append({" ": 0x0A, "#": 0x25, "+": 0x26, "-": 0x27, ".": 0x28}[ch])
    return bytes(out)


def sample_file(name, type_byte, rate, pcm, play_start, play_end, loops=(), loop_type=2):
    """140 byte header followed by the 16 bit words."""
    head = bytearray()
    head += bytes([type_byte, 0, 60])
    head += akai_name(name)
    head += bytes(4)
    head += bytes([loop_type, 0, 0])
    head += bytes(4)
    head += _struct.pack("<III", len(pcm) // 2, play_start, play_end)
    table = list(loops) + [(0, 0, 0, 0)] * (8 - len(loops))
    for at, fine, coarse, duration in table:
        head += _struct.pack("<IHIH", at, fine, coarse, duration)
    head += bytes(4)
    head += _struct.pack("<H", rate)
    assert len(head) == 140, len(head)
    return bytes(head) + pcm


def build_partition(rnd, volumes, layout="random", dir_style="chain", spare=6):
    """volumes: list of (name, type 1|3, [(file name, file type byte, content bytes)])"""
    needed = HEADER_SECTORS
    for _name, _type, files in volumes:
        needed += 2 + (24 * (len(files) + 1) + SECTOR - 1) // SECTOR
        for _fname, _ftype, content in files:
            needed += max(1, (len(content) + SECTOR - 1) // SECTOR)
    total = needed + spare
    sat = [0] * SAT_CNT
    for s in range(HEADER_SECTORS):
        sat[s] = 0x4000
    sectors = {}
    free = list(range(HEADER_SECTORS, total))

    def take(count, how):
        nonlocal free
        if how == "contiguous":
            for at in range(len(free) - count + 1):
                run = free[at:at + count]
                if run[-1] - run[0] == count - 1:
                    break
            else:
                raise AssertionError("no contiguous run")
            chosen = run
        elif how == "ascending":
            chosen = sorted(rnd.sample(free, count))
        elif how == "descending":
            chosen = sorted(rnd.sample(free, count), reverse=True)
        else:
            chosen = rnd.sample(free, count)
        free = [s for s in free if s not in chosen]
        return chosen

    def store(chain, payload):
        for n, s in enumerate(chain):
            sectors[s] = payload[n * SECTOR:(n + 1) * SECTOR].ljust(SECTOR, b"\x00")

    # directories first (a reserved run needs a non reserved sector behind it)
    dir_chains = []
    for _name, _type, files in volumes:
        count = (24 * (len(files) + 1) + SECTOR - 1) // SECTOR
        if dir_style == "reserved":
            chain = take(count + 1, "contiguous")
            guard = chain.pop()
            free.append(guard)
            free.sort()
            for s in chain:
                sat[s] = 0x4000
            # keep the guard sector out of later reserved runs: leave it free
            free.remove(guard)
        else:
            chain = take(count, "contiguous" if dir_style == "chain" else "random")
            for a, b in zip(chain, chain[1:]):
                sat[a] = b
            sat[chain[-1]] = 0xC000
        dir_chains.append(chain)

    volume_table = bytearray()
    for (name, vtype, files), dir_chain in zip(volumes, dir_chains):
        table = bytearray()
        for fname, ftype, content in files:
            count = max(1, (len(content) + SECTOR - 1) // SECTOR)
            how = layout if layout != "mixed" else rnd.choice(
                ["contiguous", "ascending", "descending", "random"])
            chain = take(count, how)
            for a, b in zip(chain, chain[1:]):
                sat[a] = b
            sat[chain[-1]] = 0xC000
            store(chain, content)
            table += akai_name(fname) + bytes(4) + bytes([ftype])
            table += len(content).to_bytes(3, "little")
            table += _struct.pack("<H", chain[0]) + bytes(2)
        end = bytearray(24)
        end[8:10] = (0xD747).to_bytes(2, "little")
        table += end
        store(dir_chain, bytes(table))
        volume_table += akai_name(name) + _struct.pack("<HH", vtype, dir_chain[0])
    volume_table += bytes(16 * (100 - len(volumes)))

    head = _struct.pack("<H", total) + b"\x00\x00" + MAGIC
    check = total // 128 - 1
    head += bytes([0x55 if check % 2 == 0 else 0xD5, (check // 2 + 0xBA) & 0xFF]) + b"\x2F\x00"
    head += bytes(volume_table)
    head += b"".join(_struct.pack("<H", x) for x in sat)
    assert len(head) == HEADER_SECTORS * SECTOR - 2, len(head)
    body = bytearray(head.ljust(HEADER_SECTORS * SECTOR, b"\x00"))
    for s in range(HEADER_SECTORS, total):
        body += sectors.get(s, bytes(SECTOR))
    return bytes(body)
# ---------------------------------------------------------------------------

# ---- shared demo plumbing --------------------------------------------------
failures = 0
checks = 0


def check(label, a, b):
    global failures, checks
    checks += 1
    if a != b:
        failures += 1
        if failures <= 10:
            print("MISMATCH", label, "\n   live:", repr(a)[:600], "\n   orig:", repr(b)[:600])


def describe_exc(e):
    cause = e.__cause__
    return (
        type(e).__module__ + "." + type(e).__qualname__,
        str(e),
        None if cause is None else (type(cause).__qualname__, str(cause)),
        e.__suppress_context__,
    )


def outcome(f):
    try:
        return ("ok", f())
    except BaseException as e:  # noqa - demo compares every exception
        return ("raise", describe_exc(e))


def snapshot_dir(base):
    found = {}
    for root, dirs, files in os.walk(base):
        dirs.sort()
        rel = os.path.relpath(root, base)
        found[rel + "/"] = None
        for name in sorted(files):
            with open(os.path.join(root, name), "rb") as fh:
                found[os.path.join(rel, name)] = hashlib.sha256(fh.read()).hexdigest()
    return found


def export_image(image_bytes, scratch, tag):
    from smpl_extract.actions import export_samples_to_wav
    from smpl_extract.akai.image import AkaiImageParser
    dest = os.path.join(scratch, tag)
    os.makedirs(dest)
    captured = io.StringIO()
    with contextlib.redirect_stdout(captured):
        result = outcome(lambda: export_samples_to_wav(
            AkaiImageParser(io.BytesIO(image_bytes)), dest))
    return (result, captured.getvalue(), snapshot_dir(dest))


def make_images(rnd):
    """A spread of logical models x allocation layouts x directory styles."""
    def pcm(words):
        return bytes(rnd.getrandbits(8) for _ in range(2 * words))

    images = []
    lengths = [1, 2, 100, 4096 - 70, 4096 - 69, 4096 - 71, 2 * 4096 - 70,
               3 * 4096 - 70, 5000, 9000, 13000]
    for layout in ("contiguous", "ascending", "descending", "random", "mixed"):
        for dir_style in ("chain", "reserved", "scattered"):
            parts = []
            for p in range(rnd.choice([1, 2, 3])):
                volumes = []
                for v in range(rnd.choice([1, 2, 3])):
                    files = []
                    for f in range(rnd.choice([0, 1, 3, 5])):
                        words = rnd.choice(lengths)
                        start = rnd.choice([0, 0, 1, 7, words // 3])
                        end = rnd.choice([words, words, words - 1, max(start, words - 5)])
                        s3000 = rnd.random() < 0.5
                        files.append((
                            "S%d%d%d" % (p, v, f),
                            0xF3 if s3000 else 0x73,
                            sample_file(
                                "S%d" % f, 3 if s3000 else 1,
                                rnd.choice([0, 8000, 22050, 44100, 48000]),
                                pcm(words), start, end
                            )
                        ))
                    if rnd.random() < 0.5:
                        words = rnd.choice(lengths)
                        for side in "LR":
                            files.append((
                                "PAIR -" + side, 0xF3,
                                sample_file("PAIR -" + side, 3, 44100, pcm(words), 0, words)
                            ))
                    volumes.append(("VOL %d%d" % (p, v), rnd.choice([1, 3]), files))
                parts.append(build_partition(rnd, volumes, layout=layout, dir_style=dir_style))
            images.append(((layout, dir_style), b"".join(parts)))
    return images
# ---------------------------------------------------------------------------


class LoggingBytesIO(io.BytesIO):
    def __init__(self, data, log):
        super().__init__(data)
        self.log = log

    def tell(self):
        r = super().tell()
        self.log.append(("tell", r))
        return r

    def seek(self, *a):
        r = super().seek(*a)
        self.log.append(("seek", a, r))
        return r

    def read(self, *a):
        r = super().read(*a)
        self.log.append(("read", a, len(r)))
        return r




def drive(stream, log, script):
    """Run a list of operations on a stream and report everything observable."""
    seen = []
    for op in script:
        del log[:]
        kind = op[0]
        if kind == "seek":
            r = outcome(lambda: stream.seek(op[1], op[2]))
        elif kind == "read":
            r = outcome(lambda: stream.read(op[1]))
        elif kind == "addr":
            r = outcome(lambda: stream._get_address_given_sector_index(op[1], op[2]))
        elif kind == "translate":
            r = outcome(lambda: stream._translate_address(op[1]))
        elif kind == "sector":
            r = outcome(lambda: stream._read_sector(op[1], op[2], op[3]))
        else:
            raise AssertionError(kind)
        seen.append((op, r, stream.tell(), stream.true_size, list(log)))
    return seen


def random_script(rnd, sector_length, size, sectors):
    script = []
    for _ in range(rnd.choice([3, 8, 20])):
        pick = rnd.random()
        if pick < 0.25:
            script.append(("seek", rnd.choice([
                0, 1, sector_length - 1, sector_length, sector_length + 1, size - 1, size,
                size + 5, -3, rnd.randrange(0, size + 2)]), rnd.choice([SEEK_SET, SEEK_SET, SEEK_CUR, SEEK_END])))
        elif pick < 0.65:
            script.append(("read", rnd.choice([
                0, 1, 2, sector_length - 1, sector_length, sector_length + 1, 2 * sector_length,
                3 * sector_length + 1, size, size + 9, -1, None, rnd.randrange(0, size + 2)])))
        elif pick < 0.8:
            script.append(("addr", rnd.choice([0, 1, sectors - 1, sectors, sectors + 3, -1, -sectors, 10 ** 6]),
                           rnd.choice([0, 1, sector_length - 1, sector_length, -2, 2.5])))
        elif pick < 0.9:
            script.append(("translate", rnd.choice([0, 1, sector_length, size - 1, size, size + 1, -1,
                                                    rnd.randrange(0, size + 2)])))
        else:
            script.append(("sector", rnd.choice([0, 1, sectors - 1, sectors, -1]),
                           rnd.choice([0, 1, sector_length - 1, sector_length]),
                           rnd.choice([0, 1, sector_length - 1, sector_length, sector_length + 1])))
    return script


def part_a():
    rnd = random.Random(1701)
    reads_ok = 0
    for case in range(700):
        sector_length = rnd.choice([1, 2, 3, 8, 16, 100, 512])
        sectors = rnd.choice([1, 2, 3, 5, 9])
        parent_len = rnd.choice([sector_length * sectors, sector_length * sectors - 1,
                                 sector_length * sectors + 3, max(0, sector_length * (sectors - 1))])
        data = bytes(rnd.getrandbits(8) for _ in range(parent_len))
        size = rnd.choice([sector_length * sectors, sector_length * sectors - 1, sector_length * sectors + 2])
        position = rnd.choice([0, 0, 1, sector_length])
        buffer_length = rnd.choice([0x1000, 1, 7, sector_length])
        script = random_script(rnd, sector_length, max(size, 1), sectors)

        def run(cls):
            log = []
            parent = LoggingBytesIO(data, log)
            stream = cls(parent, size, sector_length, position=position, buffer_length=buffer_length)
            return drive(stream, log, script)

        live = run(SectorStream)
        check(("sector stream", case), live, run(OrigSectorStream))
        reads_ok += sum(1 for op, r, *_ in live if op[0] == "read" and r[0] == "ok" and r[1])
        framed_live = run(make_framed(SectorStream))
        check(("framed stream", case), framed_live, run(make_framed(OrigSectorStream)))
    print("non empty successful reads (sector stream):", reads_ok)
    check("part A is not vacuous", reads_ok > 500, True)


def part_b():
    rnd = random.Random(1702)
    reads_ok = 0
    short = 0
    for case in range(700):
        sector_size = rnd.choice([1, 2, 4, 16, 64, 512])
        parent_sectors = rnd.choice([1, 2, 4, 8, 20])
        data = bytes(rnd.getrandbits(8) for _ in range(sector_size * parent_sectors - rnd.choice([0, 0, 1])))
        count = rnd.choice([0, 1, 2, 3, parent_sectors])
        how = rnd.choice(["ascending", "descending", "random", "repeats", "beyond", "negative"])
        if how == "ascending":
            sector_list = sorted(rnd.sample(range(parent_sectors), min(count, parent_sectors)))
        elif how == "descending":
            sector_list = sorted(rnd.sample(range(parent_sectors), min(count, parent_sectors)), reverse=True)
        elif how == "random":
            sector_list = rnd.sample(range(parent_sectors), min(count, parent_sectors))
        elif how == "repeats":
            sector_list = [rnd.randrange(parent_sectors) for _ in range(count)]
        elif how == "beyond":
            sector_list = [rnd.randrange(parent_sectors + 3) for _ in range(count)]
        else:
            sector_list = [rnd.randrange(-parent_sectors, parent_sectors) for _ in range(count)]
        size = sector_size * len(sector_list)
        script = random_script(rnd, sector_size, max(size, 1), max(len(sector_list), 1))
        lie = rnd.choice([0, 0, 0, sector_size, 3 * sector_size + 1])

        def run(cls):
            log = []
            parent = LoggingBytesIO(data, log)
            stream = cls(parent, sector_size, list(sector_list), buffer_length=rnd_buffer)
            stream.end_of_file += lie   # a window that announces more than its chain holds
            return drive(stream, log, script)

        rnd_buffer = rnd.choice([0x1000, 5, sector_size])
        live = run(FileStream)
        check(("file stream", case, how), live, run(OrigFileStream))
        reads_ok += sum(1 for op, r, *_ in live if op[0] == "read" and r[0] == "ok" and r[1])
        short += sum(1 for op, r, *_ in live if r[0] == "raise" and "SectorReadError" in r[1][0])
    print("non empty successful reads (file stream):", reads_ok, "| SectorReadError outcomes:", short)
    check("part B is not vacuous", reads_ok > 300 and short > 20, True)


def part_c():
    """Lookup order: the public classes still resolve the method the same way."""
    stream = FileStream(io.BytesIO(bytes(64)), 8, [3, 1])
    check("file stream uses its own override", stream._get_address_given_sector_index(1, 2), 1 * 8 + 2)
    check("sector stream arithmetic", SectorStream(io.BytesIO(), 64, 8)._get_address_given_sector_index(5, 3), 43)
    check("SectorStream is a StreamWrapper", issubclass(SectorStream, StreamWrapper), True)
    check("FileStream is a SectorStream", issubclass(FileStream, SectorStream), True)
    from smpl_extract.akai.sat import Segment
    check("Segment is a FileStream", issubclass(Segment, FileStream), True)
    from smpl_extract.alcohol.mdf import MdfStream, MDF_SECTOR_SIZE, MDF_SECTOR_HEADER_SIZE
    mdf = MdfStream(io.BytesIO(bytes(3 * MDF_SECTOR_SIZE)))
    check("MdfStream override wins", mdf._get_address_given_sector_index(2, 5),
          2 * MDF_SECTOR_SIZE + MDF_SECTOR_HEADER_SIZE + 5)


def part_d(scratch):
    rnd = random.Random(1703)
    exported = 0
    calls = [0]

    def counting(self, sector_index, offset):
        calls[0] += 1
        return orig_get_address_given_sector_index(self, sector_index, offset)

    for n, (label, image) in enumerate(make_images(rnd)):
        live = export_image(image, scratch, "live%d" % n)
        had_own = "_get_address_given_sector_index" in SectorStream.__dict__
        saved = SectorStream.__dict__.get("_get_address_given_sector_index")
        SectorStream._get_address_given_sector_index = counting   # back in the class body, as it was
        try:
            orig = export_image(image, scratch, "orig%d" % n)
        finally:
            if had_own:
                SectorStream._get_address_given_sector_index = saved
            else:
                del SectorStream._get_address_given_sector_index
        check(("export", label), live, orig)
        exported += sum(1 for digest in live[2].values() if digest)
    print("wav files exported per run:", exported, "| original addressing calls:", calls[0])
    check("exports are not vacuous", exported > 40, True)
    check("the original method really ran", calls[0] > 1000, True)


def main():
    scratch = tempfile.mkdtemp(prefix="r17_demo_")
    try:
        part_a()
        part_b()
        part_c()
        part_d(scratch)
    finally:
        shutil.rmtree(scratch, ignore_errors=True)
    print("checks:", checks, "failures:", failures)
    return 1 if failures or not checks else 0


if __name__ == "__main__":
    sys.exit(main())
