"""Equivalence demo for PipelineTranscoder.__next__ (smpl_extract/transcoder.py),
the driver that calls decode_frame (one block from the left stream, one block
from the right stream, ...) for every exported frame.

The live PipelineTranscoder is compared with a subclass carrying a verbatim copy
of the ORIGINAL __next__:

 1. synthetic pipelines: decoders returning every mix of empty / non-empty
    channels (arrays, lists, objects with odd __len__), decoders and processes
    and encoders that raise, process entries of unusual shapes - return values,
    exception type / message / __context__ type and the order of the calls made
    into the pipeline must agree;
 2. real pipelines built by make_transcoder over two or three sample streams
    (plain windows, nested windows and fragmented sector files, different sample
    widths and byte orders) that share ONE traced handle: frames, end of
    iteration and the complete seek/read/tell trace must agree, and the frames
    must equal what isolated sequential reads of each stream give;
 3. several exports running at the same time over the same handle, their
    __next__ calls interleaved exhaustively (2 exports x 3 frames, 3 x 2) and
    randomly: per export the frames must be the same as when it runs alone.
Exit 0 when everything agrees, 1 otherwise.
"""
import io
import itertools
import random
import sys

import numpy as np

from smpl_extract.data_streams import DataStream
from smpl_extract.data_streams import Endianess
from smpl_extract.data_streams import StreamEncoding
from smpl_extract.transcoder import PipelineTranscoder
from smpl_extract.transcoder import TranscodePipelineStruct
from smpl_extract.transcoder import make_transcoder
from smpl_extract.util.fat import FileStream
from smpl_extract.util.stream import SectorReadError
from smpl_extract.util.stream import StreamOffset
from smpl_extract.util.stream import StreamWrapper


class OrigPipelineTranscoder(PipelineTranscoder):
    def __next__(self):
        """Verbatim copy of the original PipelineTranscoder.__next__."""
        try:
            channels = self.pipeline.f_decode(self.data_streams)
        except SectorReadError:  # TODO: Create more robust handling for this
            raise StopIteration
        if any(len(x) <= 0 for x in channels):
            raise StopIteration

        for process in self.pipeline.processes:
            f_process = process[1]
            channels = f_process(channels)

        result = self.pipeline.f_encode(channels)
        return result


class TraceIO(io.BytesIO):
    def __init__(self, data):
        super().__init__(data)
        self.trace = []

    def seek(self, off, whence=0):
        r = super().seek(off, whence)
        self.trace.append(("seek", off, whence, r))
        return r

    def tell(self):
        r = super().tell()
        self.trace.append(("tell", r))
        return r

    def read(self, size=-1):
        r = super().read(size)
        self.trace.append(("read", size, len(r)))
        return r


FAILURES = []
CHECKS = 0


def check(cond, what):
    global CHECKS
    CHECKS += 1
    if not cond:
        FAILURES.append(what)
        if len(FAILURES) <= 15:
            print("MISMATCH:", repr(what)[:600])


def outcome(f, *a, **k):
    try:
        return ("ok", f(*a, **k))
    except BaseException as e:  # noqa: BLE001 - we compare whatever is raised
        return ("exc", type(e).__name__, str(e), type(e.__context__).__name__)


# ---------------------------------------------------------------------------
# 1. synthetic pipelines
# ---------------------------------------------------------------------------
class OddLen:
    def __init__(self, n, log):
        self.n = n
        self.log = log

    def __len__(self):
        self.log.append(("len", repr(self.n)))
        if isinstance(self.n, Exception):
            raise self.n
        return self.n


def synthetic():
    empty, one, two = np.zeros(0, "int16"), np.arange(1, dtype="int16"), np.arange(2, dtype="int16")

    def decoders(log):
        yield "none", lambda s: []
        for combo in itertools.product((empty, one, two), repeat=2):
            yield "arrays", lambda s, c=combo: list(c)
        yield "three", lambda s: [two, one, empty]
        yield "lists", lambda s: [[1], [], [2]]
        yield "tuple", lambda s: ((1,), (2, 3))
        yield "generator", lambda s: (x for x in ([1], [2]))
        yield "strings", lambda s: ["ab", ""]
        yield "odd", lambda s: [OddLen(3, log), OddLen(0, log), OddLen(5, log)]
        yield "odd-true", lambda s: [OddLen(True, log), OddLen(2, log)]
        yield "odd-raise", lambda s: [OddLen(1, log), OddLen(KeyError("k"), log), OddLen(0, log)]
        yield "no-len", lambda s: [one, 5, empty]
        yield "not-iterable", lambda s: None

        def sector_error(s):
            raise SectorReadError("Wanted 8, read 3.")
        yield "sector-error", sector_error

        def value_error(s):
            raise ValueError("boom")
        yield "value-error", value_error

        def stop(s):
            raise StopIteration("inner")
        yield "stop", stop

    def process_lists(log):
        def tag(name):
            def f(ch):
                log.append(("process", name, len(ch)))
                return list(ch) + [name]
            return f

        def bad(ch):
            log.append(("process", "bad"))
            raise RuntimeError("process failed")
        yield []
        yield [("a", tag("a"))]
        yield [("a", tag("a")), ("b", tag("b")), ("c", tag("c"))]
        yield (("a", tag("a")), ["b", tag("b")])
        yield [("a", tag("a"), "extra"), {1: tag("dict")}]
        yield [("a", tag("a")), ("bad", bad), ("c", tag("c"))]
        yield [("short",)]
        yield [("a", "not callable")]
        yield [tag("bare")]

    def encoders(log):
        def enc(ch):
            log.append(("encode", len(ch)))
            return repr([x if isinstance(x, str) else len(x) for x in ch]).encode()

        def bad(ch):
            log.append(("encode", "bad"))
            raise OverflowError("encode failed")
        yield enc
        yield bad

    n_dec = len(list(decoders([])))
    n_proc = len(list(process_lists([])))
    n_enc = len(list(encoders([])))
    for d, p, e in itertools.product(range(n_dec), range(n_proc), range(n_enc)):
        results = []
        for cls in (PipelineTranscoder, OrigPipelineTranscoder):
            log = []
            label, f_decode = list(decoders(log))[d]
            processes = list(process_lists(log))[p]
            f_encode = list(encoders(log))[e]

            def logged_decode(streams, f=f_decode):
                log.append(("decode", streams))
                return f(streams)
            pipeline = TranscodePipelineStruct(logged_decode, processes, f_encode)
            transcoder = cls(["L", "R"], pipeline)
            first = outcome(next, transcoder)
            second = outcome(next, transcoder)
            results.append((first, second, log, iter(transcoder) is transcoder))
        check(results[0] == results[1], ("synthetic", label, d, p, e, results[0][0], results[1][0]))

    # iteration protocol: for-loops end at the first short block
    for cls in (PipelineTranscoder, OrigPipelineTranscoder):
        blocks = [[two, two], [one, two], [two, empty], [two, two]]
        it = iter(blocks)
        pipeline = TranscodePipelineStruct(lambda s: next(it), [], lambda ch: sum(map(len, ch)))
        check(list(cls([], pipeline)) == [4, 3], ("for-loop", cls.__name__))


# ---------------------------------------------------------------------------
# 2./3. real pipelines over one shared handle
# ---------------------------------------------------------------------------
SECTOR = 256


def payload(n, seed):
    return np.random.RandomState(seed).randint(0, 256, n).astype(np.uint8).tobytes()


IMAGE = payload(0x10000, 5)   # window of 92 sectors at 256, plain windows elsewhere

LE16 = StreamEncoding(Endianess.LITTLE, 2, 1)
BE16 = StreamEncoding(Endianess.BIG, 2, 1)
LE8 = StreamEncoding(Endianess.LITTLE, 1, 1)
LE16x2 = StreamEncoding(Endianess.LITTLE, 2, 2)

# name -> (builder(handle, shared window), encoding, bytes it must yield)
def _window(handle, start, size):
    return StreamOffset(handle, size, start)


def truth_sectors(base, sectors, size):
    window = IMAGE[base:]
    return b"".join(window[s * SECTOR:(s + 1) * SECTOR] for s in sectors)[:size]


SPECS = {
    "winL": (lambda h, w: _window(h, 100, 20000), LE16, IMAGE[100:20100]),
    "winR": (lambda h, w: _window(h, 1000, 20000), LE16, IMAGE[1000:21000]),
    "winShort": (lambda h, w: _window(h, 30000, 9000), LE16, IMAGE[30000:39000]),
    "bigend": (lambda h, w: _window(h, 40000, 20000), BE16, IMAGE[40000:60000]),
    "nested": (lambda h, w: StreamOffset(StreamWrapper(_window(h, 500, 30000), 25000), 20000, 140),
               LE16, IMAGE[640:20640]),
    "fileA": (lambda h, w: StreamWrapper(FileStream(w, SECTOR, list(range(3, 90, 2))), 11000),
              LE16, truth_sectors(256, list(range(3, 90, 2)), 11000)),
    "fileB": (lambda h, w: StreamWrapper(FileStream(w, SECTOR, list(range(88, 2, -2))), 10900),
              LE16, truth_sectors(256, list(range(88, 2, -2)), 10900)),
    # directory entry claims 9000 bytes, the chain only holds 20 sectors
    "fileLying": (lambda h, w: StreamWrapper(FileStream(w, SECTOR, list(range(40, 20, -1))), 9000),
                  LE16, truth_sectors(256, list(range(40, 20, -1)), 9000)),
    "bytes8": (lambda h, w: _window(h, 7, 20000), LE8, IMAGE[7:20007]),
    "pairLR": (lambda h, w: _window(h, 2048, 16000), LE16x2, IMAGE[2048:18048]),
}

EXPORTS = (
    (("winL", "winR"), StreamEncoding(Endianess.LITTLE, 2, 2)),
    (("winL", "winShort"), StreamEncoding(Endianess.LITTLE, 2, 2)),
    (("winL", "bigend"), StreamEncoding(Endianess.LITTLE, 2, 2)),
    (("bigend", "winR"), StreamEncoding(Endianess.BIG, 2, 2)),
    (("nested", "fileA"), StreamEncoding(Endianess.LITTLE, 2, 2)),
    (("fileA", "fileB"), StreamEncoding(Endianess.LITTLE, 2, 2)),
    (("fileB", "fileLying"), StreamEncoding(Endianess.LITTLE, 2, 2)),
    (("winL", "fileB", "winR"), StreamEncoding(Endianess.LITTLE, 2, 3)),
    (("bytes8", "bytes8"), StreamEncoding(Endianess.LITTLE, 1, 2)),
    (("pairLR", "winL"), StreamEncoding(Endianess.LITTLE, 2, 3)),
    (("winL",), StreamEncoding(Endianess.BIG, 2, 1)),
    (("winL", "winL"), StreamEncoding(Endianess.LITTLE, 4, 2)),
)


def build_export(cls, handle, window, names, dest):
    streams = []
    cache = {}
    for name in names:
        builder, encoding, _truth = SPECS[name]
        if name not in cache:  # ("winL", "winL"): the very same stream object twice
            cache[name] = builder(handle, window)
        streams.append(DataStream(cache[name], encoding))
    made = make_transcoder(streams, dest)
    assert type(made) is PipelineTranscoder, type(made)
    return cls(made.data_streams, made.pipeline)


def expected_frames(names, dest):
    """What the export must produce, computed from the image alone."""
    if len(set(names)) != len(names):
        return None
    columns = []
    for name in names:
        _b, enc, truth = SPECS[name]
        dt = np.dtype("int%d" % (8 * enc.sample_width)).newbyteorder(
            ">" if enc.endianess == Endianess.BIG else "<")
        frame_size = enc.sample_width * enc.num_interleaved_channels
        arr = np.frombuffer(truth[:len(truth) // frame_size * frame_size], dt)
        if enc.num_interleaved_channels > 1:
            columns += list(arr.reshape((-1, enc.num_interleaved_channels)).T)
        else:
            columns.append(arr)
    return columns


def run_alone(cls, names, dest):
    handle = TraceIO(IMAGE)
    window = StreamOffset(handle, SECTOR * 92, 256)
    transcoder = build_export(cls, handle, window, names, dest)
    frames = []
    while True:
        r = outcome(next, transcoder)
        frames.append(r)
        if r[0] != "ok":
            break
    frames.append(outcome(next, transcoder))  # stays exhausted / same error again
    return frames, handle.trace


def real_alone():
    alone = {}
    for index, (names, dest) in enumerate(EXPORTS):
        a = run_alone(PipelineTranscoder, names, dest)
        b = run_alone(OrigPipelineTranscoder, names, dest)
        check(a == b, ("alone", names))
        check(a[0][-2][:2] == ("exc", "StopIteration"), ("alone-ends", names, a[0][-2]))
        alone[index] = [f[1] for f in a[0] if f[0] == "ok"]
        check(len(alone[index]) >= (1 if "fileLying" in names else 2),
              ("alone-frames", names, len(alone[index])))
        columns = expected_frames(names, dest)
        if columns is None:
            continue
        out_dt = np.dtype("int%d" % (8 * dest.sample_width)).newbyteorder(
            ">" if dest.endianess == Endianess.BIG else "<")
        got = np.frombuffer(b"".join(alone[index]), out_dt).reshape((-1, len(columns)))
        # up to the end of the shortest stream (later rows are zero padding)
        # every channel must carry exactly its own stream's samples
        n = min([len(got)] + [len(column) for column in columns])
        check(n >= 1024, ("alone-any", names, n))
        for c, column in enumerate(columns):
            check(np.array_equal(got[:n, c].astype("int64"), column[:n].astype("int64")),
                  ("alone-truth", names, c))
    return alone


def run_interleaved(cls, members, schedule):
    handle = TraceIO(IMAGE)
    window = StreamOffset(handle, SECTOR * 92, 256)   # one partition window for all
    exports = {m: build_export(cls, handle, window, *EXPORTS[m]) for m in members}
    got = {m: [] for m in members}
    for m in schedule:
        got[m].append(outcome(next, exports[m]))
    return got, handle.trace


def real_interleaved(alone):
    def verify(label, members, schedule):
        a = run_interleaved(PipelineTranscoder, members, schedule)
        b = run_interleaved(OrigPipelineTranscoder, members, schedule)
        check(a == b, (label, members, schedule))
        for m in members:
            frames = [r[1] for r in a[0][m] if r[0] == "ok"]
            check(frames == alone[m][:len(frames)], (label, "isolation", m, schedule))
            stops = [r for r in a[0][m] if r[0] != "ok"]
            check(all(r[1] == "StopIteration" for r in stops), (label, "stop", m))
            if stops:
                check(len(frames) == len(alone[m]), (label, "complete", m))

    for members, frames in (((0, 4), 3), ((5, 6), 3), ((2, 3), 3), ((0, 5, 7), 2), ((4, 6, 9), 2)):
        base = [m for m in members for _ in range(frames)]
        for schedule in sorted(set(itertools.permutations(base))):
            verify("exhaustive", members, schedule)

    rnd = random.Random(31)
    everything = tuple(range(len(EXPORTS)))
    for trial in range(60):
        members = tuple(sorted(rnd.sample(everything, rnd.randrange(2, 6))))
        schedule = [rnd.choice(members) for _ in range(rnd.randrange(5, 80))]
        verify("random", members, schedule)


def main():
    synthetic()
    alone = real_alone()
    real_interleaved(alone)
    print(f"{CHECKS} checks, {len(FAILURES)} mismatches")
    return 1 if FAILURES else 0


if __name__ == "__main__":
    sys.exit(main())
