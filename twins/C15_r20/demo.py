"""Equivalence demo for r20: smpl_extract/formats/wav.py WavFormatChunkStruct
(the `fmt ` chunk body that is built inside the length-prefixed chunk of the
length-prefixed RiffStruct).

The two Rebuild expressions, written with construct's `this` expression
objects,
    this.sample_rate * this.channel_cnt * this.bits_per_sample//8
    this.channel_cnt * this.bits_per_sample//8
became plain lambdas over the build context that use item access, which is
what a `this.name` path does when it is evaluated.

The demo re-creates the ORIGINAL struct verbatim (and, on top of it, the
original WavRiffChunkStruct / WavRiffBodyStruct / RiffStruct using the live,
untouched other structs) and compares with the live definitions:
  * the two rebuild callables themselves (dug out of the construct trees) on
    a grid of contexts: ordinary values, 0, negative, huge, bool, float, None,
    str, list, numpy ints, missing keys, non-mapping contexts, and a context
    that records the order of its item look-ups,
  * field names / types / sizeof of the struct,
  * build of the fmt struct from WavFormatChunkContainer / Container / dict
    objects (in-range, overflowing, missing and superfluous fields): bytes or
    exception type and text; checked against struct.pack as well,
  * parse of well-formed, short and random byte strings,
  * bytes built for whole RIFF files whose data comes from lists, generators
    that stop early and real transcoders over complete and truncated sector
    streams; the length prefixes are checked against an independent encoder,
  * WavSampleBuilder / export_wav (generalized/wav.py) output for samples
    whose streams are cut short, written to a fresh temporary directory.
Exit 0 when everything agrees, 1 otherwise.
"""
from io import BytesIO
import itertools
import os
import random
import shutil
import struct
import sys
import tempfile

import numpy as np

from construct.core import Const
from construct.core import GreedyRange
from construct.core import Int16ul
from construct.core import Int32ul
from construct.core import Prefixed
from construct.core import Rebuild
from construct.core import Struct
from construct.core import Switch
from construct.expr import this
from construct.lib.containers import Container

from smpl_extract.data_streams import DataStream
from smpl_extract.data_streams import Endianess
from smpl_extract.data_streams import StreamEncoding
from smpl_extract.formats import wav as live
from smpl_extract.formats.wav import WavDataChunkStruct
from smpl_extract.formats.wav import WavFormatChunkContainer
from smpl_extract.formats.wav import WavRiffChunkType
from smpl_extract.formats.wav import WavSampleChunkContainer
from smpl_extract.formats.wav import WavSampleChunkStruct
from smpl_extract.generalized import wav as gen_wav
from smpl_extract.generalized.sample import Sample
from smpl_extract.midi import MidiNote
from smpl_extract.transcoder import make_transcoder
from smpl_extract.util.fat import FileStream


# --------------------------------------------------------------------------
# ORIGINAL definition (verbatim copy)
# --------------------------------------------------------------------------
WavFormatChunkStruct_orig = Struct(
    "audio_format"      / Int16ul,
    "channel_cnt"       / Int16ul,
    "sample_rate"       / Int32ul,
    "byte_rate"         / Rebuild(
        Int32ul,
        this.sample_rate * this.channel_cnt * this.bits_per_sample//8
    ),
    "block_align"       / Rebuild(
        Int16ul,
        this.channel_cnt * this.bits_per_sample//8
    ),
    "bits_per_sample"   / Int16ul
)
# the structs above it, as in the module, around the original fmt struct
WavRiffChunkStruct_orig = Struct(
    "riff_id"   / WavRiffChunkType,
    "data"      / Prefixed(Int32ul,
        Switch(this.riff_id, {
            WavRiffChunkType.FMT:  WavFormatChunkStruct_orig,
            WavRiffChunkType.SMPL: WavSampleChunkStruct,
            WavRiffChunkType.DATA: WavDataChunkStruct
        })
    )
)
WavRiffBodyStruct_orig = Struct(
    "fourcc"    / Const(b"WAVE"),
    "chunks"    / GreedyRange(WavRiffChunkStruct_orig)
)
RiffStruct_orig = Struct(
    "fourcc"    / Const(b"RIFF"),
    "data"      / Prefixed(Int32ul, WavRiffBodyStruct_orig),
)


# --------------------------------------------------------------------------
failures = 0
checks = 0


def check(cond, what):
    global failures, checks
    checks += 1
    if not cond:
        failures += 1
        if failures <= 20:
            print("MISMATCH:", what)


def outcome(f):
    try:
        res = f()
    except BaseException as e:  # noqa
        return ("exc", type(e).__name__, str(e))
    return ("ok", type(res).__name__, res)


def plain(obj):
    if isinstance(obj, dict):
        return {k: plain(v) for k, v in obj.items() if k != "_io"}
    if isinstance(obj, (list, tuple)):
        return [plain(x) for x in obj]
    if callable(obj) and not isinstance(obj, type):
        return plain(obj())
    if isinstance(obj, (int, str, bytes, float, type(None))):
        return (type(obj).__name__, str(obj), obj)
    return (type(obj).__name__, str(obj))


# --------------------------------------------------------------------------
# Part 1: the rebuild callables
# --------------------------------------------------------------------------
class RecordingContext(dict):
    """A mapping that records which items are looked up, in which order."""
    def __init__(self, *args, **kwargs):
        super().__init__(*args, **kwargs)
        self.lookups = []

    def __getitem__(self, key):
        self.lookups.append(key)
        return super().__getitem__(key)


class NoisyNumber:
    """Operand that records the arithmetic performed on it."""
    def __init__(self, name, value, log):
        self.name, self.value, self.log = name, value, log

    def _v(self, other):
        return other.value if isinstance(other, NoisyNumber) else other

    def __mul__(self, other):
        self.log.append((self.name, "*", getattr(other, "name", other)))
        return NoisyNumber(f"({self.name}*)", self.value * self._v(other),
                           self.log)

    def __rmul__(self, other):
        self.log.append((getattr(other, "name", other), "r*", self.name))
        return NoisyNumber(f"(*{self.name})", self._v(other) * self.value,
                           self.log)

    def __floordiv__(self, other):
        self.log.append((self.name, "//", other))
        return self.value // other


def affordable(*values):
    """False for combinations that would multiply a sequence by a large
    number (gigabytes of memory); those are left out of the grids."""
    has_sequence = any(
        isinstance(v, (str, bytes, list, tuple)) for v in values)
    if not has_sequence:
        return True
    for v in values:
        if isinstance(v, (str, bytes, list, tuple, type(None))):
            continue
        try:
            if not abs(v) <= 64:
                return False
        except TypeError:
            pass
    return True


def rebuild_func(struct_, name):
    field = [x for x in struct_.subcons if x.name == name][0]
    rebuild = field.subcon
    assert isinstance(rebuild, Rebuild), rebuild
    return rebuild.func


VALUES = [0, 1, 2, 3, 6, 8, 12, 16, 24, 32, 255, 256, 8000, 22050, 44100,
          48000, 96000, 0xFFFF, 0x10000, 0xFFFFFFFF, 0x100000000, 10**20,
          -1, -8, -44100, True, False, 1.0, 2.5, -0.0, float("inf"),
          float("nan"), None, "ab", b"x", [1, 2], (3,), 1 + 2j,
          np.int16(3), np.int32(48000), np.int64(2**40), np.uint8(200),
          np.uint16(65535), np.float64(44100.0)]


def test_callables(rng: random.Random):
    for name in ("byte_rate", "block_align"):
        fa = rebuild_func(WavFormatChunkStruct_orig, name)
        fb = rebuild_func(live.WavFormatChunkStruct, name)
        check(callable(fa) and callable(fb), f"{name}: callables found")

        combos = []
        small = [0, 1, 2, 8, 16, 24, 44100, 48000, -1, True, 2.5, None, "ab",
                 [1, 2], np.int16(3), np.uint16(65535), 10**20]
        combos += list(itertools.product(small, repeat=3))
        combos += [tuple(rng.choice(VALUES) for _ in range(3))
                   for _ in range(4000)]
        with np.errstate(all="ignore"):
            for sr, cc, bps in combos:
                if not affordable(sr, cc, bps):
                    continue
                values = dict(sample_rate=sr, channel_cnt=cc,
                              bits_per_sample=bps)
                for make in (Container, dict):
                    ra = outcome(lambda: fa(make(values)))
                    rb = outcome(lambda: fb(make(values)))
                    # nan != nan: compare through repr
                    check(repr(ra) == repr(rb),
                          f"{name} {values}: {ra} != {rb}")

        # missing keys, in every combination, and the order of the look-ups
        keys = ("sample_rate", "channel_cnt", "bits_per_sample", "_", "other")
        for r in range(len(keys) + 1):
            for present in itertools.combinations(keys, r):
                ctx_a = RecordingContext((k, 5) for k in present)
                ctx_b = RecordingContext((k, 5) for k in present)
                ra = outcome(lambda: fa(ctx_a))
                rb = outcome(lambda: fb(ctx_b))
                check(ra == rb, f"{name} present={present}: {ra} != {rb}")
                check(ctx_a.lookups == ctx_b.lookups,
                      f"{name} present={present}: look-up order "
                      f"{ctx_a.lookups} != {ctx_b.lookups}")
                ra = outcome(lambda: fa(Container((k, 5) for k in present)))
                rb = outcome(lambda: fb(Container((k, 5) for k in present)))
                check(ra == rb, f"{name} Container present={present}")

        # order of the arithmetic
        def noisy():
            log = []
            ctx = RecordingContext(
                sample_rate=NoisyNumber("sr", 44100, log),
                channel_cnt=NoisyNumber("cc", 2, log),
                bits_per_sample=NoisyNumber("bps", 16, log))
            return ctx, log
        ctx_a, log_a = noisy()
        ctx_b, log_b = noisy()
        ra = outcome(lambda: fa(ctx_a))
        rb = outcome(lambda: fb(ctx_b))
        check(ra == rb and ra[0] == "ok", f"{name} noisy: {ra} != {rb}")
        check(log_a == log_b and ctx_a.lookups == ctx_b.lookups,
              f"{name} noisy: {log_a}/{ctx_a.lookups} != "
              f"{log_b}/{ctx_b.lookups}")

        # contexts that are not mappings
        for ctx in (None, 5, "text", [1, 2, 3], object()):
            ra = outcome(lambda: fa(ctx))
            rb = outcome(lambda: fb(ctx))
            check(ra == rb, f"{name} ctx={ctx!r}: {ra} != {rb}")


# --------------------------------------------------------------------------
# Part 2: the fmt struct
# --------------------------------------------------------------------------
def ref_fmt(fmt):
    audio_format = fmt["audio_format"]
    channel_cnt = fmt["channel_cnt"]
    sample_rate = fmt["sample_rate"]
    bits_per_sample = fmt["bits_per_sample"]
    return struct.pack(
        "<HHIIHH", audio_format, channel_cnt, sample_rate,
        sample_rate * channel_cnt * bits_per_sample // 8,
        channel_cnt * bits_per_sample // 8, bits_per_sample
    )


def test_fmt_struct(rng: random.Random):
    a = WavFormatChunkStruct_orig
    b = live.WavFormatChunkStruct

    check([(x.name, type(x.subcon).__name__,
            type(getattr(x.subcon, "subcon", None)).__name__)
           for x in a.subcons]
          == [(x.name, type(x.subcon).__name__,
               type(getattr(x.subcon, "subcon", None)).__name__)
              for x in b.subcons], "field list")
    check(outcome(a.sizeof) == outcome(b.sizeof) == ("ok", "int", 16),
          "sizeof")
    for x, y in zip(a.subcons, b.subcons):
        check(outcome(x.sizeof) == outcome(y.sizeof), f"sizeof {x.name}")
        check(x.flagbuildnone == y.flagbuildnone, f"flagbuildnone {x.name}")

    # build: grid of realistic and unrealistic values
    formats = [0, 1, 3, 0xFFFE, 0xFFFF, 0x10000, -1]
    channels = [0, 1, 2, 3, 6, 255, 0xFFFF, 0x10000, -1, True, 2.0, None,
                "2", np.uint16(2)]
    rates = [0, 1, 8000, 11025, 22050, 44100, 48000, 96000, 192000,
             0xFFFFFFFF, 0x100000000, -1, 44100.0, None, np.int32(44100)]
    bits = [0, 1, 7, 8, 12, 16, 24, 32, 64, 0xFFFF, 0x10000, -8, 16.0, None,
            np.uint8(16)]
    cases = list(itertools.product([1], channels, rates, bits))
    cases += list(itertools.product(formats, [1, 2], [44100], [8, 16]))
    cases += [(rng.choice(formats), rng.choice(channels), rng.choice(rates),
               rng.choice(bits)) for _ in range(1500)]
    seen = set()
    with np.errstate(all="ignore"):
        for af, cc, sr, bps in cases:
            if not affordable(cc, sr, bps):
                continue
            kwargs = dict(audio_format=af, channel_cnt=cc, sample_rate=sr,
                          bits_per_sample=bps)
            for make in (lambda: WavFormatChunkContainer(**kwargs),
                         lambda: Container(**kwargs),
                         lambda: dict(kwargs)):
                ra = outcome(lambda: a.build(make()))
                rb = outcome(lambda: b.build(make()))
                seen.add(ra[0] if ra[0] == "ok" else ra[1])
                check(ra == rb, f"fmt build {kwargs}: {ra} != {rb}")
                if ra[0] == "ok" and all(
                        type(v) is int for v in kwargs.values()):
                    check(rb[2] == ref_fmt(kwargs),
                          f"fmt build {kwargs}: differs from struct.pack")
    check({"ok", "FormatFieldError", "TypeError"} <= seen,
          f"fmt build outcome kinds: {seen}")

    # fields missing / superfluous (byte_rate and block_align given by the
    # caller are ignored by Rebuild)
    base = dict(audio_format=1, channel_cnt=2, sample_rate=48000,
                bits_per_sample=16)
    for r in range(len(base) + 1):
        for present in itertools.combinations(base, r):
            obj = {k: base[k] for k in present}
            for extra in ({}, {"byte_rate": 7, "block_align": 9},
                          {"byte_rate": None}, {"_": 3}, {"unrelated": "x"}):
                for make in (dict, Container):
                    ra = outcome(lambda: a.build(make({**obj, **extra})))
                    rb = outcome(lambda: b.build(make({**obj, **extra})))
                    check(ra == rb,
                          f"fmt build present={present} extra={extra}: "
                          f"{ra} != {rb}")
    for obj in (None, 5, [], "x"):
        ra = outcome(lambda: a.build(obj))
        rb = outcome(lambda: b.build(obj))
        check(ra == rb, f"fmt build obj={obj!r}: {ra} != {rb}")
    # embedded in an outer struct that supplies a parent context
    outer_a = Struct("sample_rate" / Int16ul, "fmt" / a)
    outer_b = Struct("sample_rate" / Int16ul, "fmt" / b)
    for fmt in (base, {k: v for k, v in base.items() if k != "sample_rate"}):
        o = dict(sample_rate=7, fmt=fmt)
        ra = outcome(lambda: outer_a.build(o))
        rb = outcome(lambda: outer_b.build(o))
        check(ra == rb, f"nested fmt build: {ra} != {rb}")

    # parse
    good = a.build(base)
    raws = [good, good + b"tail", good[:-1], good[:8], good[:1], b"",
            b"\xff" * 16, b"\0" * 16]
    raws += [bytes(rng.getrandbits(8) for _ in range(rng.randint(0, 24)))
             for _ in range(300)]
    for raw in raws:
        ra = outcome(lambda: plain(a.parse(raw)))
        rb = outcome(lambda: plain(b.parse(raw)))
        check(ra == rb, f"fmt parse {raw!r}: {ra} != {rb}")
        sa, sb = BytesIO(raw), BytesIO(raw)
        ra = outcome(lambda: plain(a.parse_stream(sa)))
        rb = outcome(lambda: plain(b.parse_stream(sb)))
        check(ra == rb and sa.tell() == sb.tell(),
              f"fmt parse_stream {raw!r}")
    # round trip keeps the rebuilt fields
    parsed = b.parse(good)
    check((parsed.byte_rate, parsed.block_align) == (192000, 4),
          f"round trip: {parsed}")


# --------------------------------------------------------------------------
# Part 3: whole RIFF files
# --------------------------------------------------------------------------
def ref_riff(chunks):
    body = b"WAVE"
    for cid, payload in chunks:
        body += cid + struct.pack("<I", len(payload)) + payload
    return b"RIFF" + struct.pack("<I", len(body)) + body


def random_fmt(rng):
    return dict(
        audio_format=1,
        channel_cnt=rng.choice([1, 2]),
        sample_rate=rng.choice([0, 8000, 22050, 44100, 48000]),
        bits_per_sample=rng.choice([8, 16])
    )


def early_stop_generator(parts, stop_after):
    for i, part in enumerate(parts):
        if i >= stop_after:
            return
        yield part


def make_stream_transcoder(seed, truncated):
    local = random.Random(seed)
    sector_size = local.choice([4, 16, 64, 512])
    num_parent_sectors = local.randint(1, 16)
    full = bytes(
        local.getrandbits(8) for _ in range(sector_size * num_parent_sectors)
    )
    cut = local.randint(0, len(full))
    data = full[:cut] if truncated else full
    num_streams = local.choice([1, 2])
    width = local.choice([1, 2])
    src_endian = local.choice([Endianess.LITTLE, Endianess.BIG])
    streams = []
    for _ in range(num_streams):
        n = local.randint(1, 10)
        sector_list = [
            local.randint(0, num_parent_sectors - 1) for _ in range(n)
        ]
        streams.append(DataStream(
            FileStream(BytesIO(data), sector_size, sector_list),
            StreamEncoding(src_endian, width, 1)
        ))
    dest = StreamEncoding(Endianess.LITTLE, width, num_streams)
    return streams, dest


def test_riff(rng: random.Random):
    for case in range(300):
        fmt = random_fmt(rng)
        with_smpl = rng.random() < 0.4
        parts = [
            bytes(rng.getrandbits(8) for _ in range(rng.randint(0, 40)))
            for _ in range(rng.randint(0, 6))
        ]
        mode = rng.choice(["list", "gen", "early", "transcoder", "cut"])
        seed = rng.getrandbits(32)
        stop_after = rng.randint(0, len(parts))

        def data_source():
            if mode == "list":
                return list(parts)
            if mode == "gen":
                return (p for p in parts)
            if mode == "early":
                return early_stop_generator(parts, stop_after)
            streams, dest = make_stream_transcoder(seed, mode == "cut")
            return make_transcoder(streams, dest)

        def obj():
            chunks = [Container(riff_id=WavRiffChunkType.FMT,
                                data=WavFormatChunkContainer(**fmt))]
            if with_smpl:
                chunks.append(Container(
                    riff_id=WavRiffChunkType.SMPL,
                    data=WavSampleChunkContainer(sample_period=22675)))
            chunks.append(Container(riff_id=WavRiffChunkType.DATA,
                                    data=data_source()))
            return Container(data=Container(chunks=chunks))

        ra = outcome(lambda: RiffStruct_orig.build(obj()))
        rb = outcome(lambda: live.RiffStruct.build(obj()))
        check(ra == rb, f"riff build case {case} ({mode}): differ")
        if rb[0] != "ok":
            continue
        raw = rb[2]
        if mode in ("list", "gen", "early"):
            used = parts if mode != "early" else parts[:stop_after]
            expected = [(b"fmt ", ref_fmt(fmt))]
            if with_smpl:
                expected.append((b"smpl", WavSampleChunkStruct.build(
                    WavSampleChunkContainer(sample_period=22675))))
            expected.append((b"data", b"".join(used)))
            check(raw == ref_riff(expected),
                  f"riff build case {case} ({mode}): differs from reference")
        check(struct.unpack("<I", raw[4:8])[0] == len(raw) - 8,
              f"riff case {case}: outer length prefix")
        check(raw[12:20] == b"fmt " + struct.pack("<I", 16),
              f"riff case {case}: fmt chunk prefix")

        variants = [raw, raw[:rng.randint(0, len(raw))], raw[:-1], raw[:30],
                    raw[:12], raw + b"\0\0"]
        pos = rng.randint(8, max(8, len(raw) - 1))
        variants.append(raw[:pos] + b"\xff" + raw[pos + 1:])
        for i, v in enumerate(variants):
            pa = outcome(lambda: plain(RiffStruct_orig.parse(v)))
            pb = outcome(lambda: plain(live.RiffStruct.parse(v)))
            check(pa == pb, f"riff parse case {case} variant {i}")

    # a fmt chunk that cannot be built must fail the same way, and leave the
    # same bytes behind in the output stream
    for bad in (dict(audio_format=1, channel_cnt=2, sample_rate=48000),
                dict(audio_format=1, channel_cnt=2, sample_rate=2**31,
                     bits_per_sample=16),
                dict(audio_format=1, channel_cnt=None, sample_rate=1,
                     bits_per_sample=16)):
        def obj():
            return Container(data=Container(chunks=[
                Container(riff_id=WavRiffChunkType.FMT, data=dict(bad)),
                Container(riff_id=WavRiffChunkType.DATA, data=[b"abcd"])]))
        sa, sb = BytesIO(), BytesIO()
        ra = outcome(lambda: RiffStruct_orig.build_stream(obj(), sa))
        rb = outcome(lambda: live.RiffStruct.build_stream(obj(), sb))
        check(ra == rb and ra[0] == "exc", f"riff bad fmt {bad}: {ra} {rb}")
        check(sa.getvalue() == sb.getvalue(), f"riff bad fmt {bad}: stream")


def test_builder(rng: random.Random, tmpdir: str):
    orig_builder = gen_wav.WavSampleAdapter(RiffStruct_orig)
    exported = 0
    for case in range(200):
        seed = rng.getrandbits(32)
        truncated = rng.random() < 0.6
        with_smpl = rng.random() < 0.5
        rate = rng.choice([0, 8000, 22050, 44100, 48000, 0xFFFFFFFF, 2**33])

        def sample():
            streams, dest = make_stream_transcoder(seed, truncated)
            return Sample(
                name="s",
                data_streams=streams,
                num_channels=dest.num_interleaved_channels,
                sample_rate=rate,
                midi_note=MidiNote.from_string("C4") if with_smpl else None,
            )

        ra = outcome(lambda: orig_builder.build(sample()))
        rb = outcome(lambda: gen_wav.WavSampleBuilder.build(sample()))
        check(ra == rb, f"builder case {case}: output differs {ra[:2]} {rb[:2]}")
        path = os.path.join(tmpdir, f"case{case}.wav")
        rc = outcome(lambda: gen_wav.export_wav(sample(), path))
        if rc[0] == "ok" and ra[0] == "ok":
            exported += 1
            with open(path, "rb") as f:
                check(f.read() == ra[2], f"builder case {case}: file differs")
        else:
            check(rc[0] == ra[0] and rc[1:] == ra[1:],
                  f"builder case {case}: export outcome {rc} vs {ra[:2]}")
            # what was written before the failure
            path_orig = os.path.join(tmpdir, f"case{case}.orig.wav")
            with open(path_orig, "wb") as f:
                outcome(lambda: orig_builder.build_stream(sample(), f))
            with open(path, "rb") as f1, open(path_orig, "rb") as f2:
                check(f1.read() == f2.read(),
                      f"builder case {case}: partial file differs")
    check(exported > 50, f"only {exported} files exported")


def main():
    rng = random.Random(0xC15D20)
    tmpdir = tempfile.mkdtemp(prefix="r20demo_")
    try:
        test_callables(rng)
        test_fmt_struct(rng)
        test_riff(rng)
        test_builder(rng, tmpdir)
    finally:
        shutil.rmtree(tmpdir, ignore_errors=True)
    print(f"{checks} checks, {failures} mismatches")
    return 0 if failures == 0 else 1


if __name__ == "__main__":
    sys.exit(main())
