"""Equivalence demo for r12: structural.Traversable.children (wrapping `if`
turned into an early-return guard, context dict passed inline, the freshly
built list returned instead of re-reading the cache attribute) and
structural.ExportManager.make_output_path (temporaries inlined) versus inline
copies of the ORIGINAL implementations.

Random directory trees of fake sample entries are walked with
Traversable.export_samples into a recording ExportManager (export_wav is
replaced by a recorder, nothing is written to disk) with the real renaming
and stereo-pairing routines installed; every call of the realization
callbacks / routines is logged so call order and call counts are compared too.
Exit 0 when all inputs agree, 1 otherwise.
"""
import contextlib
import io
import random
import sys

from smpl_extract import structural
from smpl_extract.base import ElementTypes
from smpl_extract.data_streams import DataStream
from smpl_extract.data_streams import StreamEncoding
from smpl_extract.generalized.sample import Sample
from smpl_extract.structural import ExportManager
from smpl_extract.structural import Image
from smpl_extract.structural import SampleElement
from smpl_extract.structural import Traversable


# --------------------------------------------------------------------------
# ORIGINAL implementations (verbatim bodies)
# --------------------------------------------------------------------------
def original_children(self):
    if self._children is None:
        context_additions = {
            "_elem_parent": self,
            "_elem_routines": self._routines
        }
        children = self._f_realize_children(context_additions)
        for routine in self._routines.values():
            children = routine(children)  # type: ignore
        self._children = children
    return self._children  # type: ignore


def original_make_output_path(self, sample):
    components = sample.export_path()
    result = "/".join(components)
    return result


@contextlib.contextmanager
def originals(active):
    saved = (Traversable.__dict__["children"],
             ExportManager.__dict__["make_output_path"])
    if active:
        Traversable.children = property(original_children)
        ExportManager.make_output_path = original_make_output_path
    try:
        yield
    finally:
        Traversable.children, ExportManager.make_output_path = saved


# --------------------------------------------------------------------------
# Fixtures
# --------------------------------------------------------------------------
class Boom(Exception):
    pass


class FakeSample(SampleElement):
    type_name = "Fake sample"

    def __init__(self, name, path, parent, fail=False):
        # LeafElement is a dataclass without own fields -> plain attributes
        self.name = name
        self._path = path
        self._parent = parent
        self._safe_name = None
        self._export_name = None
        self.fail = fail

    def to_generalized(self):
        if self.fail:
            raise Boom("to_generalized " + self.name)
        return Sample(
            name=self.name,
            _parent=self._parent,
            _path=self._path,
            _safe_name=self.safe_name,
            _export_name=self.export_name,
            data_streams=[DataStream(
                io.BytesIO("/".join(self._path).encode()),
                StreamEncoding(sample_width=1),
            )],
        )


class OtherLeaf(FakeSample):
    type_id = ElementTypes.ProgramEntry


def build(image, spec, log, rnd_fail):
    """spec: nested description ("dir", name, [children]) / ("smp", name) /
    ("prg", name).  Children are realized lazily through the callbacks, which
    log their invocations and check the context they are given."""

    def make_realizer(owner_ref, label, items, path):
        def realize(ctx):
            owner = owner_ref[0]
            log.append(("realize", label, sorted(ctx.keys()),
                        ctx["_elem_parent"] is owner,
                        ctx["_elem_routines"] is owner._routines))
            mode = rnd_fail.get(label)
            if mode == "raise_once":
                rnd_fail[label] = None
                raise Boom("realize " + label)
            out = []
            for item in items:
                kind, name = item[0], item[1]
                child_path = path + [name]
                if kind == "dir":
                    ref = [None]
                    child = Traversable(
                        make_realizer(ref, label + "/" + name, item[2],
                                      child_path),
                        routines=ctx["_elem_routines"],
                        path=child_path,
                        parent=ctx["_elem_parent"],
                        type_name="Dir",
                    )
                    child.name = name
                    ref[0] = child
                elif kind == "smp":
                    child = FakeSample(name, child_path, ctx["_elem_parent"],
                                       fail=rnd_fail.get(name) == "gen")
                else:
                    child = OtherLeaf(name, child_path, ctx["_elem_parent"])
                out.append(child)
            return out
        return realize

    ref = [image]
    image._f_realize_children = make_realizer(ref, "", spec, [])


class RecordingManager(ExportManager):
    pass


def run_tree(active, spec, routine_mode, fail_plan, twice):
    log = []
    exports = []

    def fake_export_wav(sample, total_path):
        exports.append((
            total_path.replace("\\", "/"),
            sample.name, sample.export_name, sample.num_channels,
            int(sample.channel_config),
            [d.stream.getvalue() for d in sample.data_streams],
        ))

    saved_export = structural.export_wav
    saved_exists, saved_makedirs = structural.os.path.exists, structural.os.makedirs
    structural.export_wav = fake_export_wav
    structural.os.path.exists = lambda p: True
    structural.os.makedirs = lambda p: log.append(("makedirs", p))
    out = io.StringIO()
    try:
        with originals(active), contextlib.redirect_stdout(out):
            image = Image(lambda ctx: [])
            image.name = "image"

            def logged(tag, fn):
                def routine(elements):
                    log.append((tag, None if elements is None
                                else [e.name for e in elements]))
                    return fn(elements)
                return routine

            routines = {}
            if routine_mode in ("real", "real+none"):
                routines["make_safe_names"] = logged(
                    "safe", image.make_safe_names_routine)
                routines["make_export_names"] = logged(
                    "export", image.make_export_names_routine)
            if routine_mode == "reverse":
                routines["rev"] = logged("rev", lambda e: list(reversed(e)))
                routines["dup"] = logged("dup", lambda e: e + e[:1])
            if routine_mode == "raise":
                state = {"n": 0}

                def sometimes(elements):
                    state["n"] += 1
                    if state["n"] == 1:
                        raise Boom("routine")
                    return elements
                routines["boom"] = logged("boom", sometimes)
            if routine_mode == "real+none":
                # a routine that forgets to return the list: nothing is cached
                routines["none"] = logged("none", lambda e: None)
            if routine_mode == "set_later":
                image.set_routines({"late": logged("late", lambda e: e[::-1])})
            else:
                image.set_routines(routines)

            build(image, spec, log, dict(fail_plan))
            manager = RecordingManager(
                "out",
                {"combine_stereo": image.combine_stereo_routine},
            )

            results = []
            for _ in range(2 if twice else 1):
                try:
                    r = image.export_samples(manager)
                    results.append(("ok", r))
                except Exception as e:
                    results.append(("exc", type(e).__name__, str(e)))
                # the cache: same list object on repeated access
                try:
                    c1 = image.children
                    c2 = image.children
                    results.append((
                        "children", c1 is c2, c1 is image._children,
                        None if c1 is None else
                        [(type(c).__name__, c.name, c.safe_name,
                          c.export_name) for c in c1],
                    ))
                    info = image.get_info().to_string()
                    results.append(("info", info))
                except Exception as e:
                    results.append(("exc2", type(e).__name__, str(e)))
                results.append(("state", list(manager.level),
                                len(manager.samples)))
    finally:
        structural.export_wav = saved_export
        structural.os.path.exists = saved_exists
        structural.os.makedirs = saved_makedirs
    return results, log, exports, out.getvalue()


def test_make_output_path():
    bad = 0

    class P:
        def __init__(self, v):
            self.v = v

        def export_path(self):
            if isinstance(self.v, Exception):
                raise self.v
            return self.v

    inputs = [[], ["a"], ["a", "b"], ["", ""], ["a/b", "c"], ("x", "y"),
              "abc", [1, 2], None, Boom("x"), iter(["g", "h"]), ["PIANO"]]
    for v in inputs:
        res = []
        for active in (True, False):
            with originals(active):
                m = ExportManager("out")
                try:
                    vv = iter(["g", "h"]) if hasattr(v, "__next__") else v
                    res.append(("ok", m.make_output_path(P(vv))))
                except Exception as e:
                    res.append(("exc", type(e).__name__, str(e)))
        if res[0] != res[1]:
            bad += 1
            print("MISMATCH make_output_path", v, res)
    return bad, len(inputs)


def random_spec(rnd, depth):
    stems = ["PIANO", "STR", "A", "B -L"]
    sfx = ["", " -L", " -R", " L", " R", "-L", "-R"]
    items = []
    for _ in range(rnd.randint(0, 6)):
        roll = rnd.random()
        if roll < 0.2 and depth < 3:
            items.append(("dir", rnd.choice(["VOL", "PERF", "D -L", "PIANO"]),
                          random_spec(rnd, depth + 1)))
        elif roll < 0.3:
            items.append(("prg", rnd.choice(stems)))
        else:
            items.append(("smp", rnd.choice(stems) + rnd.choice(sfx)))
    return items


def main():
    rnd = random.Random(1212)
    failures = 0
    checked = 0

    bad, n = test_make_output_path()
    failures += bad
    checked += n

    fixed = [
        [],
        [("smp", "PIANO -L"), ("smp", "PIANO -R")],
        [("smp", "PIANO -R"), ("smp", "X"), ("smp", "PIANO -L")],
        [("dir", "VOL", [("smp", "A L"), ("smp", "A R"), ("smp", "A L")]),
         ("smp", "A L")],
        [("dir", "V1", [("dir", "V2", [("smp", "S-L"), ("smp", "S-R")])]),
         ("dir", "V1", [("smp", "S-L")]), ("prg", "P")],
    ]
    specs = fixed + [random_spec(rnd, 0) for _ in range(700)]
    modes = ["none", "real", "reverse", "raise", "real+none", "set_later"]

    for idx, spec in enumerate(specs):
        for mode in (modes if idx < len(fixed) else [rnd.choice(modes),
                                                      "real"]):
            fail_plan = {}
            roll = rnd.random()
            if roll < 0.15:
                fail_plan[""] = "raise_once"
            elif roll < 0.3:
                fail_plan["/VOL"] = "raise_once"
            elif roll < 0.4:
                fail_plan["PIANO -L"] = "gen"
            twice = rnd.random() < 0.7
            a = run_tree(True, spec, mode, fail_plan, twice)
            b = run_tree(False, spec, mode, fail_plan, twice)
            checked += 1
            if a != b:
                failures += 1
                if failures <= 3:
                    print("MISMATCH", mode, fail_plan, twice, spec)
                    for x, y in zip(a, b):
                        if x != y:
                            print("  original:", x)
                            print("  current :", y)

    print("checked %d scenarios, %d mismatches" % (checked, failures))
    return 1 if failures else 0


if __name__ == "__main__":
    sys.exit(main())
