"""Equivalence demo for r22 (util/sector.py SectorStream._read: // and % merged
into one divmod, if/else clamp of the first chunk replaced by min(), and
`remaining_size = size; ...; remaining_size -= first` folded into one
assignment after the first chunk).

The ORIGINAL SectorStream._read is pasted below and grafted onto twin
subclasses of SectorStream, FileStream (sector chain) and MdfStream (2352-byte
raw sectors), so everything else (read/seek/tell of StreamWrapper,
_read_sector, the address rules) is shared.  Live and original views sit on
twin logging parents and are driven through identical histories; they must
agree on every return value, exception type and text, on the view state
(position, true_size, end_of_file) and on the ordered log of seek/read/tell
calls made on the parent - i.e. the same sectors are fetched in the same
order with the same offsets and lengths.  Where the view is well formed the
bytes are also compared with a plain model of the logical content.

Covered: every (position, size) pair over small streams for sector lengths
1..7 (reads of 0 bytes, inside one sector, ending exactly on a boundary,
starting on a boundary, spanning 1..k boundaries, at and across the end),
exhaustive 3-operation histories over a tiny stream, long random histories
over random sector sizes / chain permutations / nestings up to depth 4,
direct _read() calls with sizes <= 0 and sizes beyond the end, a parent that
is shorter than the view claims (SectorReadError text), chains shorter than
the claimed size (SectorReadError from the chain lookup), and sector length 0
(ZeroDivisionError text).  Exit 0 = all agree, 1 = mismatch.
"""
import itertools
import random
import sys
from io import BytesIO, SEEK_CUR, SEEK_END, SEEK_SET

from smpl_extract.alcohol.mdf import MDF_SECTOR_BODY_SIZE
from smpl_extract.alcohol.mdf import MDF_SECTOR_HEADER_SIZE
from smpl_extract.alcohol.mdf import MDF_SECTOR_SIZE
from smpl_extract.alcohol.mdf import MdfStream
from smpl_extract.util.fat import FileStream
from smpl_extract.util.sector import SectorStream
from smpl_extract.util.stream import SectorReadError
from smpl_extract.util.stream import StreamOffset
from smpl_extract.util.stream import StreamReversed


def orig_read(self, size: int)->bytes:
    """Original SectorStream._read, verbatim."""

    if size <= 0:
        return bytes()

    remaining_size = size

    initial_sector_index    = self.position // self.sector_length
    initial_sector_offset   = self.position % self.sector_length

    # read partial initial sector
    if initial_sector_offset + size <= self.sector_length:
        initial_read_size = size
    else:
        initial_read_size = self.sector_length - initial_sector_offset
    result = self._read_sector(
        initial_sector_index,
        initial_sector_offset,
        initial_read_size
    )
    remaining_size -= initial_read_size

    # read full size middle sectors
    i = 1
    while remaining_size > self.sector_length:
        result += self._read_sector(
            initial_sector_index + i,
            0,
            self.sector_length
        )
        remaining_size -= self.sector_length
        i += 1

    # read partial final sector
    final_sector_index = initial_sector_index + i
    if remaining_size > 0:
        result += self._read_sector(
            final_sector_index,
            0,
            remaining_size
        )

    if len(result) != size:
        raise SectorReadError(f"Wanted {size}, read {len(result)}.")

    return result


class OrigSectorStream(SectorStream):
    _read = orig_read


class OrigFileStream(FileStream):
    _read = orig_read


class OrigMdfStream(MdfStream):
    _read = orig_read


class Parent(BytesIO):
    """BytesIO that logs every call."""

    def __init__(self, data):
        super().__init__(data)
        self.log = []

    def tell(self):
        r = super().tell()
        self.log.append(("tell", r))
        return r

    def seek(self, *a):
        r = super().seek(*a)
        self.log.append(("seek", a, r))
        return r

    def read(self, *a):
        r = super().read(*a)
        self.log.append(("read", a, r))
        return r


FAILURES = []


def fail(msg):
    FAILURES.append(msg)
    if len(FAILURES) <= 20:
        print("MISMATCH:", msg)


def outcome(fn):
    try:
        return ("ok", fn())
    except Exception as e:
        return ("exc", type(e), str(e))


def state(v):
    """State of every layer of the view stack, outermost first."""
    layers = []
    while not isinstance(v, Parent):
        layers.append((
            v.position, v.true_size, v.end_of_file, v.buffer_length,
            getattr(v, "sector_length", None)
        ))
        v = v.substream
    layers.append(BytesIO.tell(v))
    return layers


def root_log(v):
    while not isinstance(v, Parent):
        v = v.substream
    return v.log


def step(live, orig, op, logical, tag):
    """Apply one operation to both views; False when they diverge."""
    before = orig.position
    if op[0] == "seek":
        a = outcome(lambda: live.seek(*op[1]))
        b = outcome(lambda: orig.seek(*op[1]))
    elif op[0] == "tell":
        a = outcome(live.tell)
        b = outcome(orig.tell)
    elif op[0] == "_read":
        a = outcome(lambda: live._read(op[1]))
        b = outcome(lambda: orig._read(op[1]))
    else:
        a = outcome(lambda: live.read(op[1]))
        b = outcome(lambda: orig.read(op[1]))
    if a != b:
        fail(f"{tag}: {op} at {before}: {a} vs {b}")
        return False
    if op[0] == "read" and a[0] == "ok" and type(a[1]) is not type(b[1]):
        fail(f"{tag}: result type")
    if state(live) != state(orig):
        fail(f"{tag}: state after {op}: {state(live)} vs {state(orig)}")
        return False
    if root_log(live) != root_log(orig):
        fail(f"{tag}: parent log after {op} at {before}")
        return False
    if logical is not None and a[0] == "ok":
        if op[0] == "read":
            want = logical[before:] if (op[1] is None or op[1] < 0) else logical[before:before + op[1]]
            if a[1] != want:
                fail(f"{tag}: read {op[1]} at {before} -> {a[1]!r}, want {want!r}")
            if live.position != before + len(want):
                fail(f"{tag}: cursor after read")
        if not (0 <= live.position <= len(logical)):
            fail(f"{tag}: cursor outside the view")
    return True


def drive(live, orig, ops, logical, tag):
    for op in ops:
        if not step(live, orig, op, logical, tag):
            return


def random_ops(rng, n, count):
    ops = []
    for _ in range(count):
        k = rng.random()
        if k < 0.55:
            ops.append(("read", rng.choice(
                [0, 1, 2, 3, n, n + 2, None, -1, rng.randrange(0, n + 3), rng.randrange(0, n + 3)])))
        elif k < 0.92:
            ops.append(("seek", (rng.randrange(-n - 2, n + 3), rng.choice([SEEK_SET, SEEK_CUR, SEEK_END]))))
        else:
            ops.append(("tell",))
    return ops


def raw_image(bodies):
    out = b""
    for k, body in enumerate(bodies):
        out += bytes([0xE0 + (k % 16)]) * MDF_SECTOR_HEADER_SIZE
        out += body
        out += bytes([0xD0 + (k % 16)]) * (MDF_SECTOR_SIZE - MDF_SECTOR_HEADER_SIZE - MDF_SECTOR_BODY_SIZE)
    return out


def main():
    rng = random.Random(2208)

    # --- 1. every (position, size) over small plain sector streams
    for L in range(1, 8):
        for nsect in (1, 2, 3, 5):
            n = L * nsect
            data = bytes(range(10, 10 + n))
            for pos in range(0, n + 1):
                for size in range(0, n + 3):
                    live = SectorStream(Parent(data + b"XX"), n, L)
                    orig = OrigSectorStream(Parent(data + b"XX"), n, L)
                    drive(live, orig, [("seek", (pos, SEEK_SET)), ("read", size), ("tell",), ("read", 1)],
                          data, f"plain L={L} n={n}")

    # --- 2. every (position, size) over chained files, all permutations of 4 sectors
    for L in (1, 2, 3):
        store = bytes(range(100, 100 + L * 6))
        for chain in list(itertools.permutations(range(4), 3)) + [(5, 0, 5, 2), (3,), (1, 1, 1)]:
            logical = b"".join(store[s * L:(s + 1) * L] for s in chain)
            n = len(logical)
            for pos in range(0, n + 1):
                for size in (0, 1, 2, L, L + 1, 2 * L, 2 * L + 1, n, n + 1):
                    live = FileStream(Parent(store), L, list(chain))
                    orig = OrigFileStream(Parent(store), L, list(chain))
                    drive(live, orig, [("seek", (pos, SEEK_SET)), ("read", size), ("read", size)],
                          logical, f"chain L={L} {chain}")

    # --- 3. exhaustive 3-step histories over a tiny stream (2 sectors of 2)
    alphabet = (
        [("read", s) for s in (0, 1, 2, 3, 4, 5, None, -1)]
        + [("seek", (o, w)) for w in (SEEK_SET, SEEK_CUR, SEEK_END) for o in (-5, -1, 0, 1, 2, 4, 6)]
        + [("tell",)]
    )
    tiny = b"pqrs"
    for ops in itertools.product(alphabet, repeat=3):
        live = SectorStream(Parent(tiny), 4, 2)
        orig = OrigSectorStream(Parent(tiny), 4, 2)
        drive(live, orig, ops, tiny, "tiny")
    for ops in itertools.product(alphabet[::2], repeat=3):
        live = FileStream(Parent(b"ABCDEFGH"), 2, [3, 1])
        orig = OrigFileStream(Parent(b"ABCDEFGH"), 2, [3, 1])
        drive(live, orig, ops, b"GHCD", "tiny chain")

    # --- 4. raw-sector view: reads around the 2048-byte boundaries
    bodies = [bytes(rng.randrange(256) for _ in range(MDF_SECTOR_BODY_SIZE)) for _ in range(4)]
    image = raw_image(bodies) + b"partial sector"
    logical = b"".join(bodies)
    B = MDF_SECTOR_BODY_SIZE
    for pos in (0, 1, B - 1, B, B + 1, 2 * B - 3, 3 * B, 4 * B - 1, 4 * B):
        for size in (0, 1, 2, 3, B - 1, B, B + 1, 2 * B, 2 * B + 1, 3 * B + 5, 4 * B, 4 * B + 9):
            live = MdfStream(Parent(image))
            orig = OrigMdfStream(Parent(image))
            drive(live, orig, [("seek", (pos, SEEK_SET)), ("read", size), ("tell",), ("read", 7)],
                  logical, "mdf")
    live = MdfStream(Parent(image), buffer_length=B + 17)
    orig = OrigMdfStream(Parent(image), buffer_length=B + 17)
    drive(live, orig, random_ops(rng, 4 * B, 300), logical, "mdf random")
    drive(live, orig, [("seek", (5, SEEK_SET)), ("read", None)], logical, "mdf readall")

    # --- 5. long random histories over random shapes and nestings up to depth 4
    for trial in range(400):
        L = rng.randrange(1, 9)
        nsect = rng.randrange(1, 9)
        store = bytes(rng.randrange(256) for _ in range(L * nsect + rng.randrange(0, 4)))
        kind = rng.choice(["plain", "chain", "nested", "reversed", "deep"])
        if kind == "plain":
            n = L * nsect
            live = SectorStream(Parent(store), n, L, buffer_length=rng.choice([1, 3, 0x1000]))
            orig = OrigSectorStream(Parent(store), n, L, buffer_length=live.buffer_length)
            logical = store[:n]
        else:
            chain = [rng.randrange(nsect) for _ in range(rng.randrange(1, 7))]
            base = b"".join(store[s * L:(s + 1) * L] for s in chain)
            live = FileStream(Parent(store), L, list(chain))
            orig = OrigFileStream(Parent(store), L, list(chain))
            logical = base
            if kind in ("nested", "deep"):
                off = rng.randrange(0, len(base))
                size = rng.randrange(1, len(base) - off + 1)
                live = StreamOffset(live, size, off)
                orig = StreamOffset(orig, size, off)
                logical = base[off:off + size]
            if kind == "deep":
                # a sector stream over the window over the chained file, then a window again
                L2 = rng.randrange(1, 5)
                n2 = (len(logical) // L2) * L2
                if n2 > 0:
                    live = SectorStream(live, n2, L2)
                    orig = OrigSectorStream(orig, n2, L2)
                    logical = logical[:n2]
                    off = rng.randrange(0, n2)
                    size = rng.randrange(1, n2 - off + 1)
                    live = StreamOffset(live, size, off)
                    orig = StreamOffset(orig, size, off)
                    logical = logical[off:off + size]
            if kind == "reversed":
                width = rng.choice([1, 2, 4])
                n = (len(base) // width) * width
                if n == 0:
                    continue
                live = StreamReversed(live, n, sample_width=width)
                orig = StreamReversed(orig, n, sample_width=width)
                samples = [base[i:i + width] for i in range(0, n, width)]
                logical = b"".join(reversed(samples))
        n = len(logical)
        ops = random_ops(rng, n, rng.randrange(10, 80))
        # misaligned requests on the reversed view raise (identically in both)
        # and leave the cursor alone; accepted ones must match the model
        drive(live, orig, ops, logical, f"rand{trial} {kind}")

    # --- 6. direct _read calls: sizes <= 0, sizes beyond the view, short parents
    for L in (1, 2, 3, 4):
        data = bytes(range(50, 50 + 4 * L))
        for pos in range(0, 4 * L + 1):
            for size in (-3, -1, 0, 1, L, L + 1, 3 * L, 4 * L, 4 * L + 1, 6 * L + 2):
                live = SectorStream(Parent(data), 4 * L, L, position=pos)
                orig = OrigSectorStream(Parent(data), 4 * L, L, position=pos)
                drive(live, orig, [("_read", size), ("_read", size)], None, f"direct L={L}")
                live = SectorStream(Parent(data[:2 * L + 1]), 4 * L, L, position=pos)
                orig = OrigSectorStream(Parent(data[:2 * L + 1]), 4 * L, L, position=pos)
                drive(live, orig, [("_read", size), ("read", size)], None, f"short parent L={L}")
                live = FileStream(Parent(data), L, [2, 0], position=pos)
                orig = OrigFileStream(Parent(data), L, [2, 0], position=pos)
                drive(live, orig, [("_read", size), ("read", size)], None, f"short chain L={L}")

    # --- 7. sector length 0: both raise the same ZeroDivisionError, parent untouched
    for pos in (0, 3):
        live = SectorStream(Parent(b"abcdef"), 6, 0, position=pos)
        orig = OrigSectorStream(Parent(b"abcdef"), 6, 0, position=pos)
        drive(live, orig, [("_read", 2), ("read", 2), ("_read", 0), ("read", 0)], None, "L=0")
    live = FileStream(Parent(b"abcdef"), 0, [1, 2])
    orig = OrigFileStream(Parent(b"abcdef"), 0, [1, 2])
    drive(live, orig, [("_read", 1), ("read", 1), ("read", 0)], None, "chain L=0")

    if FAILURES:
        print(f"{len(FAILURES)} mismatches")
        return 1
    print("r22 demo: live SectorStream._read and original agree on all cases")
    return 0


if __name__ == "__main__":
    sys.exit(main())
