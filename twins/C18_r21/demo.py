"""r21 evidence: smpl_extract/akai/akai_string.py, _fast_akai_to_ascii (and
its public wrapper char_akai_to_ascii, and AkaiString._decode on top of it)
behave exactly like the original loop-with-append implementation pasted
below: every single byte value, every pair of bytes, sampled names over the
AKAI alphabet up to length 12, names with one invalid byte at each position,
list / tuple / bytearray / generator inputs (with a count of how many items
were pulled from the iterator before an error), non-integer elements, and the
ASCII -> AKAI -> ASCII round trip.
Exit 0 = all agree, 1 = difference.
"""
import random
import sys

import construct

import smpl_extract.akai.akai_string as live
from smpl_extract.akai.data_types import CHAR_MAP_A
from smpl_extract.akai.data_types import CHAR_MAP_MINUS
from smpl_extract.akai.data_types import CHAR_MAP_NINE
from smpl_extract.akai.data_types import CHAR_MAP_PERIOD
from smpl_extract.akai.data_types import CHAR_MAP_PLUS
from smpl_extract.akai.data_types import CHAR_MAP_POUND
from smpl_extract.akai.data_types import CHAR_MAP_SPACE
from smpl_extract.akai.data_types import CHAR_MAP_Z
from smpl_extract.akai.data_types import CHAR_MAP_ZERO
from smpl_extract.akai.data_types import CharFormat
from smpl_extract.akai.data_types import InvalidCharacter


# ---------------------------------------------------------------- ORIGINAL --
def orig_fast_akai_to_ascii_byte(byte_in):
    if CHAR_MAP_ZERO[CharFormat.AKAI] <= byte_in <= CHAR_MAP_NINE[CharFormat.AKAI]:
        return byte_in + CHAR_MAP_ZERO[CharFormat.ASCII] - CHAR_MAP_ZERO[CharFormat.AKAI]

    if CHAR_MAP_A[CharFormat.AKAI] <= byte_in <= CHAR_MAP_Z[CharFormat.AKAI]:
        return byte_in + CHAR_MAP_A[CharFormat.ASCII] - CHAR_MAP_A[CharFormat.AKAI]

    symbol_map = {
        CHAR_MAP_SPACE[CharFormat.AKAI]:   CHAR_MAP_SPACE[CharFormat.ASCII],
        CHAR_MAP_POUND[CharFormat.AKAI]:   CHAR_MAP_POUND[CharFormat.ASCII],
        CHAR_MAP_PLUS[CharFormat.AKAI]:    CHAR_MAP_PLUS[CharFormat.ASCII],
        CHAR_MAP_MINUS[CharFormat.AKAI]:   CHAR_MAP_MINUS[CharFormat.ASCII],
        CHAR_MAP_PERIOD[CharFormat.AKAI]:  CHAR_MAP_PERIOD[CharFormat.ASCII],
    }
    resulting_symbol = symbol_map.get(byte_in)

    if resulting_symbol is None:
        raise InvalidCharacter

    return resulting_symbol


def orig_fast_akai_to_ascii(bytes_in):
    out_str = list()
    for byte in bytes_in:
        out_str.append(chr(orig_fast_akai_to_ascii_byte(byte)))
    return "".join(out_str)


def orig_char_akai_to_ascii(bytes_in):
    return orig_fast_akai_to_ascii(bytes_in)


def orig_decode(obj):
    try:
        result = orig_char_akai_to_ascii(obj)
    except (InvalidCharacter):
        raise construct.core.ConstructError
    return result
# ------------------------------------------------------------ END ORIGINAL --


failures = []
checks = 0


def outcome(fn, *args):
    try:
        value = fn(*args)
    except BaseException as exc:  # noqa
        return ("raise", type(exc), exc.args)
    return ("ok", type(value), value)


def compare(label, new_fn, old_fn, make_arg):
    """make_arg() is called once per side so iterators are fresh."""
    global checks
    checks += 1
    got = outcome(new_fn, make_arg())
    want = outcome(old_fn, make_arg())
    if got != want:
        failures.append((label, got, want))


class Counting:
    """Iterable that records how many items were handed out."""
    def __init__(self, items):
        self.items = list(items)
        self.pulled = 0

    def __iter__(self):
        for item in self.items:
            self.pulled += 1
            yield item


def compare_pulled(label, items):
    global checks
    checks += 1
    a = Counting(items)
    b = Counting(items)
    got = outcome(live._fast_akai_to_ascii, a)
    want = outcome(orig_fast_akai_to_ascii, b)
    if got != want or a.pulled != b.pulled:
        failures.append((label, got, a.pulled, want, b.pulled))


PAIRS = (
    ("_fast_akai_to_ascii", live._fast_akai_to_ascii, orig_fast_akai_to_ascii),
    ("char_akai_to_ascii", live.char_akai_to_ascii, orig_char_akai_to_ascii),
    ("AkaiString._decode",
     lambda obj: live.AkaiString(construct.GreedyBytes)._decode(obj, None, None),
     orig_decode),
)

# 1. every single byte, as bytes and as a list; empty input
for name, new_fn, old_fn in PAIRS:
    compare(name + " empty bytes", new_fn, old_fn, lambda: b"")
    compare(name + " empty list", new_fn, old_fn, lambda: [])
    for value in range(256):
        compare("%s bytes %d" % (name, value), new_fn, old_fn,
                lambda value=value: bytes([value]))
        compare("%s list %d" % (name, value), new_fn, old_fn,
                lambda value=value: [value])

# 2. integers outside the byte range, bools, floats and non-numbers as elements
ODD = [-1, -41, 256, 300, 10**20, True, False, 3.0, 3.5, 40.0, 41.0,
       float("nan"), None, "A", b"A", (1,), [1]]
for name, new_fn, old_fn in PAIRS:
    for element in ODD:
        compare("%s odd %r" % (name, element), new_fn, old_fn,
                lambda element=element: [1, element, 2])
        compare("%s odd-first %r" % (name, element), new_fn, old_fn,
                lambda element=element: [element])
    compare(name + " None", new_fn, old_fn, lambda: None)
    compare(name + " int", new_fn, old_fn, lambda: 5)
    compare(name + " str", new_fn, old_fn, lambda: "AB")

# 3. every pair of byte values around the valid / invalid border, full pairs
for first in range(0, 48):
    for second in range(0, 48):
        compare("pair %d %d" % (first, second),
                live.char_akai_to_ascii, orig_char_akai_to_ascii,
                lambda first=first, second=second: bytes([first, second]))

# 4. sampled names over the AKAI alphabet up to length 12, several containers
rng = random.Random(0x5EED21)
for length in range(0, 13):
    for _ in range(150):
        codes = [rng.randrange(0, 41) for _ in range(length)]
        for name, new_fn, old_fn in PAIRS:
            compare("%s name %r" % (name, codes), new_fn, old_fn,
                    lambda codes=codes: bytes(codes))
        compare("name list %r" % (codes,), live.char_akai_to_ascii,
                orig_char_akai_to_ascii, lambda codes=codes: list(codes))
        compare("name tuple %r" % (codes,), live.char_akai_to_ascii,
                orig_char_akai_to_ascii, lambda codes=codes: tuple(codes))
        compare("name bytearray %r" % (codes,), live.char_akai_to_ascii,
                orig_char_akai_to_ascii, lambda codes=codes: bytearray(codes))
        compare("name generator %r" % (codes,), live.char_akai_to_ascii,
                orig_char_akai_to_ascii,
                lambda codes=codes: (code for code in codes))
        compare_pulled("pulled %r" % (codes,), codes)

# 5. one invalid byte at every position of a 12-character name
for position in range(12):
    for bad in (41, 42, 0x7F, 0xFF, -1, None):
        codes = [rng.randrange(0, 41) for _ in range(12)]
        codes[position] = bad
        compare_pulled("bad %r at %d" % (bad, position), codes)
        compare("decode bad %r at %d" % (bad, position),
                PAIRS[2][1], PAIRS[2][2], lambda codes=codes: list(codes))

# 6. round trip ASCII -> AKAI -> ASCII on sampled names
ALPHABET = "0123456789 ABCDEFGHIJKLMNOPQRSTUVWXYZ#+-."
for length in range(0, 13):
    for _ in range(100):
        text = "".join(rng.choice(ALPHABET) for _ in range(length))
        checks += 1
        encoded = live.char_ascii_to_akai(text)
        if live.char_akai_to_ascii(encoded) != text:
            failures.append(("round trip", text))
        if orig_char_akai_to_ascii(encoded) != text:
            failures.append(("round trip orig", text))

# 7. the padded-string construct end to end
padded = live.AkaiPaddedString(12)
for _ in range(300):
    codes = bytes(rng.randrange(0, 44) for _ in range(12))
    checks += 1
    got = outcome(padded.parse, codes)
    stripped = codes.rstrip(b"\x0a")
    want = outcome(orig_decode, stripped)
    if got[0] != want[0] or (got[0] == "ok" and got != want):
        failures.append(("padded", codes, got, want))

# 8. the result is a plain str
checks += 1
if type(live._fast_akai_to_ascii(b"\x0b\x0c")) is not str:
    failures.append(("type",))

if failures:
    print("r21 demo: %d of %d checks differ" % (len(failures), checks))
    for failure in failures[:20]:
        print("  ", failure)
    sys.exit(1)
print("r21 demo: %d checks agree" % checks)
sys.exit(0)
