"""Equivalence demo for PartitionAdapter._decode_element (smpl_extract/akai/partition.py).

Part 1 compares the method in the tree with an inline copy of the ORIGINAL on
many ChildInfo / container combinations (names with and without the trailing
colon, empty, non-string and None names, empty / None paths and routines),
including the order in which the container's attributes are read.
Part 2 parses small synthetic AKAI images (1..3 partitions, trailing garbage,
truncation) end to end and compares with precomputed expected values.
Exit 0 when everything agrees.
"""
import io
import struct
import sys

from construct.core import Pass

from smpl_extract.akai.data_types import AKAI_PARTITION_MAGIC
from smpl_extract.akai.data_types import AKAI_SAT_ENTRY_CNT
from smpl_extract.akai.data_types import AKAI_SECTOR_SIZE
from smpl_extract.akai.data_types import AKAI_VOLUME_ENTRY_CNT
from smpl_extract.akai.image import AkaiImageParser
from smpl_extract.akai.partition import Partition
from smpl_extract.akai.partition import PartitionAdapter
from smpl_extract.util.constructs import ChildInfo


class OriginalPartitionAdapter(PartitionAdapter):
    # verbatim copy of the original method
    def _decode_element(self, obj, child_info, context, path):
        del path  # unused
        partition_container = obj

        partition_name = child_info.name
        parent = child_info.parent
        element_path = child_info.next_path
        routines = child_info.routines

        if len(partition_name) > 0 and partition_name[-1] != ":":
            partition_name = partition_name + ":"

        partition = Partition(
            partition_container.sat,
            self.wrap_child_realization(
                partition_container.volumes,
                context
            ),
            partition_name,
            parent,
            element_path,
            routines=routines
        )

        return partition


class RecordingContainer:
    """stands in for the parsed partition container, logs attribute reads"""

    def __init__(self, present=("sat", "volumes")):
        self.log = []
        self._present = present
        self._sat = lambda: "the-sat"
        self._volumes = lambda: ["vol-1", "vol-2"]

    def __getattr__(self, item):
        if item.startswith("_") or item == "log":
            raise AttributeError(item)
        self.log.append(item)
        if item not in self._present:
            raise AttributeError(item)
        return {"sat": self._sat, "volumes": self._volumes}[item]


class FakeParent:
    path = ["img"]
    export_name = "img"
    parent = None


failures = 0
checked = 0


def describe(adapter_cls, child_info, present):
    adapter = adapter_cls(Pass)
    container = RecordingContainer(present)
    context = {"existing": 1}
    try:
        part = adapter._decode_element(container, child_info, context, "(path)")
    except Exception as exc:  # noqa: BLE001
        return ("exc", type(exc), str(exc), tuple(container.log), dict(context))
    realized = part._f_realize_children({"_elem_parent": "P", "extra": 2})
    return (
        "ok",
        type(part),
        part.name,
        part._path, id(part._path) == id(child_info.next_path) or not child_info.next_path,
        part._parent is child_info.parent,
        part._routines, (part._routines is child_info.routines) or not child_info.routines,
        part._f_sat is container._sat,
        part._sat,
        part._children,
        part.sat,
        realized,
        dict(context),
        tuple(container.log),
        part.type_name,
        part.safe_name,
        part.export_name,
        part.export_path(),
    )


def check(child_info, present=("sat", "volumes")):
    global failures, checked
    checked += 1
    expected = describe(OriginalPartitionAdapter, child_info, present)
    actual = describe(PartitionAdapter, child_info, present)
    if expected != actual:
        failures += 1
        if failures <= 10:
            print("MISMATCH", child_info, present, expected, actual, sep="\n  ")


parent = FakeParent()
routine = {"sanitize": lambda x: x}
names = [
    "A", "B", "Z", "A:", ":", "", "::", "AB", "A:B", "A: ", " ", "a", "é", "x" * 40,
    None, 5, b"A", b"A:", b"", ["A"], [":"], [], ("A",), (":",), (),
]
paths = [["A"], [], None, ["img", "A"], ("t",)]
for name in names:
    for next_path in paths:
        for par in (parent, None):
            for routines in (routine, {}, None, []):
                check(ChildInfo(par, ["img"], next_path, routines, name))
    for present in ((), ("sat",), ("volumes",)):
        check(ChildInfo(parent, [], ["A"], routine, name), present)


# ---------------------------------------------------------------- part 2
def make_partition(n_sectors, corrupt_magic=False):
    check_sum_x = n_sectors // 128 - 1
    header = struct.pack("<H", n_sectors) + b"\x00\x00"
    header += (b"\x00" * len(AKAI_PARTITION_MAGIC)) if corrupt_magic else AKAI_PARTITION_MAGIC
    header += bytes([0x55 if check_sum_x % 2 == 0 else 0xD5, (check_sum_x // 2 + 0xBA) & 0xFF])
    header += b"\x2F\x00"
    volumes = b"\x00" * (16 * AKAI_VOLUME_ENTRY_CNT)
    sat = b"\x00\x00" * AKAI_SAT_ENTRY_CNT
    body = header + volumes + sat
    total = n_sectors * AKAI_SECTOR_SIZE
    assert len(body) <= total
    return body + b"\x00" * (total - len(body))


def summarize(data):
    image = AkaiImageParser(io.BytesIO(data))
    image.set_routines({})
    try:
        parts = image.partitions
    except Exception as exc:  # noqa: BLE001
        return ("exc", type(exc).__name__)
    out = []
    for part in parts:
        out.append((part.name, part.path, part.parent is image, part.volumes, part.export_path()))
    return ("ok", out)


one = make_partition(8)
two = make_partition(4)
bad = make_partition(8, corrupt_magic=True)
expected_e2e = [
    (b"", ("ok", [])),
    (b"\x00" * 100, ("ok", [])),
    (one, ("ok", [("A:", ["A"], True, [], ["A:"])])),
    (one + two, ("ok", [("A:", ["A"], True, [], ["A:"]), ("B:", ["B"], True, [], ["B:"])])),
    (one + two + one, ("ok", [
        ("A:", ["A"], True, [], ["A:"]),
        ("B:", ["B"], True, [], ["B:"]),
        ("C:", ["C"], True, [], ["C:"]),
    ])),
    (one + bad + two, ("ok", [("A:", ["A"], True, [], ["A:"])])),
    (one + b"\xff" * 50, ("ok", [("A:", ["A"], True, [], ["A:"])])),
    (bad, ("ok", [])),
    (one[:3000], ("ok", [])),
]
for data, expected in expected_e2e:
    checked += 1
    actual = summarize(data)
    if actual != expected:
        failures += 1
        print("E2E MISMATCH", len(data), expected, actual, sep="\n  ")

print(f"checked {checked} cases, {failures} mismatches")
sys.exit(1 if failures else 0)
