"""Equivalence demo for r20 (smpl_extract/util/stream.py, StreamWrapper.seek -
the seek of every nested byte window of an AKAI export: the partition
StreamOffset, the sector-chained Segment, the sized file window and the
sample-data StreamOffset that export rewinds before transcoding).

An inline copy of the ORIGINAL seek is compared with the live method:
  A. on StreamWrapper, StreamOffset, StreamReversed, SectorStream and
     FileStream instances over random bytes, for every mix of offset (negative,
     huge, float, non-number), whence (0, 1, 2, other ints, bools, floats,
     None, strings, numpy integers, the default) and window length (positive,
     zero, negative, None): same return value or same exception, same
     position / true_size afterwards, same seek/tell/read calls on the parent,
     and the same bytes from a read that follows;
  B. with whence objects that record (and script the answers of) every ==
     comparison made with them, including answers that are not booleans and
     comparisons that raise: same comparisons in the same order;
  C. whole AKAI images from an independent writer exported to WAV with the
     live method and with the original patched in: same stdout, same files,
     same bytes.
Exit 0 = all agree."""
import contextlib
import hashlib
import io
import os
import random
import shutil
import struct
import sys
import tempfile
from io import SEEK_CUR
from io import SEEK_END
from io import SEEK_SET

import numpy as np

from smpl_extract.util.fat import FileStream
from smpl_extract.util.sector import SectorStream
from smpl_extract.util.stream import StreamOffset
from smpl_extract.util.stream import StreamReversed
from smpl_extract.util.stream import StreamWrapper


# ---- inline copy of the ORIGINAL implementation -------------------------
def orig_seek(self, offset: int, whence: int = SEEK_CUR):
    starting_position = 0
    if whence == SEEK_CUR:
        starting_position = self.position
    elif whence == SEEK_END:
        starting_position = self.end_of_file
    
    new_position = starting_position + offset
    if new_position > self.end_of_file:
        new_position = self.end_of_file
    elif new_position < 0:
        new_position = 0

    self.true_size = 0
    self._seek(new_position)
    self.position = new_position
    return new_position
# -------------------------------------------------------------------------

# ---- independent AKAI S1000/S3000 image writer (logical model -> bytes) ----
import struct as _struct

SECTOR = 0x2000
SAT_CNT = 11386
HEADER_SECTORS = 3
MAGIC = b"".join(((3333 * i) & 0xFFFF).to_bytes(2, "little") for i in range(1, 98))


def akai_name(text):
    out = bytearray()
    for ch in text.upper().ljust(12)[:12]:
        if "0" <= ch <= "9":
            out.append(ord(ch) - ord("0"))
        elif "A" <= ch <= "Z":
            out.append(ord(ch) - ord("A") + 0x0B)
        else:
            out.append({" ": 0x0A, "#": 0x25, "+": 0x26, "-": 0x27, ".": 0x28}[ch])
    return bytes(out)


def sample_file(name, type_byte, rate, pcm, play_start, play_end, loops=(), loop_type=2):
    """140 byte header followed by the 16 bit words."""
    head = bytearray()
    head += bytes([type_byte, 0, 60])
    head += akai_name(name)
    head += bytes(4)
    head += bytes([loop_type, 0, 0])
    head += bytes(4)
    head += _struct.pack("<III", len(pcm) // 2, play_start, play_end)
    table = list(loops) + [(0, 0, 0, 0)] * (8 - len(loops))
    for at, fine, coarse, duration in table:
        head += _struct.pack("<IHIH", at, fine, coarse, duration)
    head += bytes(4)
    head += _struct.pack("<H", rate)
    assert len(head) == 140, len(head)
    return bytes(head) + pcm


def build_partition(rnd, volumes, layout="random", dir_style="chain", spare=6):
    """volumes: list of (name, type 1|3, [(file name, file type byte, content bytes)])"""
    needed = HEADER_SECTORS
    for _name, _type, files in volumes:
        needed += 2 + (24 * (len(files) + 1) + SECTOR - 1) // SECTOR
        for _fname, _ftype, content in files:
            needed += max(1, (len(content) + SECTOR - 1) // SECTOR)
    total = needed + spare
    sat = [0] * SAT_CNT
    for s in range(HEADER_SECTORS):
        sat[s] = 0x4000
    sectors = {}
    free = list(range(HEADER_SECTORS, total))

    def take(count, how):
        nonlocal free
        if how == "contiguous":
            for at in range(len(free) - count + 1):
                run = free[at:at + count]
                if run[-1] - run[0] == count - 1:
                    break
            else:
                raise AssertionError("no contiguous run")
            chosen = run
        elif how == "ascending":
            chosen = sorted(rnd.sample(free, count))
        elif how == "descending":
            chosen = sorted(rnd.sample(free, count), reverse=True)
        else:
            chosen = rnd.sample(free, count)
        free = [s for s in free if s not in chosen]
        return chosen

    def store(chain, payload):
        for n, s in enumerate(chain):
            sectors[s] = payload[n * SECTOR:(n + 1) * SECTOR].ljust(SECTOR, b"\x00")

    # directories first (a reserved run needs a non reserved sector behind it)
    dir_chains = []
    for _name, _type, files in volumes:
        count = (24 * (len(files) + 1) + SECTOR - 1) // SECTOR
        if dir_style == "reserved":
            chain = take(count + 1, "contiguous")
            guard = chain.pop()
            free.append(guard)
            free.sort()
            for s in chain:
                sat[s] = 0x4000
            # keep the guard sector out of later reserved runs: leave it free
            free.remove(guard)
        else:
            chain = take(count, "contiguous" if dir_style == "chain" else "random")
            for a, b in zip(chain, chain[1:]):
                sat[a] = b
            sat[chain[-1]] = 0xC000
        dir_chains.append(chain)

    volume_table = bytearray()
    for (name, vtype, files), dir_chain in zip(volumes, dir_chains):
        table = bytearray()
        for fname, ftype, content in files:
            count = max(1, (len(content) + SECTOR - 1) // SECTOR)
            how = layout if layout != "mixed" else rnd.choice(
                ["contiguous", "ascending", "descending", "random"])
            chain = take(count, how)
            for a, b in zip(chain, chain[1:]):
                sat[a] = b
            sat[chain[-1]] = 0xC000
            store(chain, content)
            table += akai_name(fname) + bytes(4) + bytes([ftype])
            table += len(content).to_bytes(3, "little")
            table += _struct.pack("<H", chain[0]) + bytes(2)
        end = bytearray(24)
        end[8:10] = (0xD747).to_bytes(2, "little")
        table += end
        store(dir_chain, bytes(table))
        volume_table += akai_name(name) + _struct.pack("<HH", vtype, dir_chain[0])
    volume_table += bytes(16 * (100 - len(volumes)))

    head = _struct.pack("<H", total) + b"\x00\x00" + MAGIC
    check = total // 128 - 1
    head += bytes([0x55 if check % 2 == 0 else 0xD5, (check // 2 + 0xBA) & 0xFF]) + b"\x2F\x00"
    head += bytes(volume_table)
    head += b"".join(_struct.pack("<H", x) for x in sat)
    assert len(head) == HEADER_SECTORS * SECTOR - 2, len(head)
    body = bytearray(head.ljust(HEADER_SECTORS * SECTOR, b"\x00"))
    for s in range(HEADER_SECTORS, total):
        body += sectors.get(s, bytes(SECTOR))
    return bytes(body)
# ---------------------------------------------------------------------------

# ---- shared demo plumbing --------------------------------------------------
failures = 0
checks = 0


def check(label, a, b):
    global failures, checks
    checks += 1
    if a != b:
        failures += 1
        if failures <= 10:
            print("MISMATCH", label, "\n   live:", repr(a)[:600], "\n   orig:", repr(b)[:600])


def describe_exc(e):
    cause = e.__cause__
    return (
        type(e).__module__ + "." + type(e).__qualname__,
        str(e),
        None if cause is None else (type(cause).__qualname__, str(cause)),
        e.__suppress_context__,
    )


def outcome(f):
    try:
        return ("ok", f())
    except BaseException as e:  # noqa - demo compares every exception
        return ("raise", describe_exc(e))


def snapshot_dir(base):
    found = {}
    for root, dirs, files in os.walk(base):
        dirs.sort()
        rel = os.path.relpath(root, base)
        found[rel + "/"] = None
        for name in sorted(files):
            with open(os.path.join(root, name), "rb") as fh:
                found[os.path.join(rel, name)] = hashlib.sha256(fh.read()).hexdigest()
    return found


def export_image(image_bytes, scratch, tag):
    from smpl_extract.actions import export_samples_to_wav
    from smpl_extract.akai.image import AkaiImageParser
    dest = os.path.join(scratch, tag)
    os.makedirs(dest)
    captured = io.StringIO()
    with contextlib.redirect_stdout(captured):
        result = outcome(lambda: export_samples_to_wav(
            AkaiImageParser(io.BytesIO(image_bytes)), dest))
    return (result, captured.getvalue(), snapshot_dir(dest))


def make_images(rnd):
    """A spread of logical models x allocation layouts x directory styles."""
    def pcm(words):
        return bytes(rnd.getrandbits(8) for _ in range(2 * words))

    images = []
    lengths = [1, 2, 100, 4096 - 70, 4096 - 69, 4096 - 71, 2 * 4096 - 70,
               3 * 4096 - 70, 5000, 9000, 13000]
    for layout in ("contiguous", "ascending", "descending", "random", "mixed"):
        for dir_style in ("chain", "reserved", "scattered"):
            parts = []
            for p in range(rnd.choice([1, 2, 3])):
                volumes = []
                for v in range(rnd.choice([1, 2, 3])):
                    files = []
                    for f in range(rnd.choice([0, 1, 3, 5])):
                        words = rnd.choice(lengths)
                        start = rnd.choice([0, 0, 1, 7, words // 3])
                        end = rnd.choice([words, words, words - 1, max(start, words - 5)])
                        s3000 = rnd.random() < 0.5
                        files.append((
                            "S%d%d%d" % (p, v, f),
                            0xF3 if s3000 else 0x73,
                            sample_file(
                                "S%d" % f, 3 if s3000 else 1,
                                rnd.choice([0, 8000, 22050, 44100, 48000]),
                                pcm(words), start, end
                            )
                        ))
                    if rnd.random() < 0.5:
                        words = rnd.choice(lengths)
                        for side in "LR":
                            files.append((
                                "PAIR -" + side, 0xF3,
                                sample_file("PAIR -" + side, 3, 44100, pcm(words), 0, words)
                            ))
                    volumes.append(("VOL %d%d" % (p, v), rnd.choice([1, 3]), files))
                parts.append(build_partition(rnd, volumes, layout=layout, dir_style=dir_style))
            images.append(((layout, dir_style), b"".join(parts)))
    return images
# ---------------------------------------------------------------------------


class LoggingBytesIO(io.BytesIO):
    def __init__(self, data, log):
        super().__init__(data)
        self.log = log

    def tell(self):
        r = super().tell()
        self.log.append(("tell", r))
        return r

    def seek(self, *a):
        r = super().seek(*a)
        self.log.append(("seek", a, r))
        return r

    def read(self, *a):
        r = super().read(*a)
        self.log.append(("read", a, len(r)))
        return r




DEFAULT = object()


def make_stream(kind, data, log, size, position, extra):
    parent = LoggingBytesIO(data, log)
    if kind == "wrapper":
        return StreamWrapper(parent, size, position=position)
    if kind == "offset":
        return StreamOffset(parent, size, extra, position=position)
    if kind == "reversed":
        return StreamReversed(parent, size, sample_width=max(1, extra % 4), position=position)
    if kind == "sector":
        return SectorStream(parent, size, max(1, extra), position=position)
    if kind == "file":
        sector = max(1, extra)
        count = max(0, (size if isinstance(size, int) else 0)) // sector
        stream = FileStream(parent, sector, list(range(count))[::-1], position=position)
        return stream
    if kind == "nested":
        inner = StreamOffset(parent, len(data), 0)
        return StreamOffset(StreamWrapper(inner, len(data)), size, extra, position=position)
    raise AssertionError(kind)


def run_session(seek, kind, data, size, position, extra, steps):
    log = []
    stream = make_stream(kind, data, log, size, position, extra)
    seen = []
    for offset, whence, follow in steps:
        del log[:]
        if whence is DEFAULT:
            r = outcome(lambda: seek(stream, offset))
        else:
            r = outcome(lambda: seek(stream, offset, whence))
        state = (repr(stream.position), repr(stream.true_size), repr(stream.end_of_file))
        after = None
        if follow is not None:
            after = outcome(lambda: StreamWrapper.read(stream, follow))
        seen.append((r, state, after, repr(stream.position), list(log)))
    return seen


def part_a():
    rnd = random.Random(2001)
    live_seek = StreamWrapper.__dict__["seek"]
    ok = 0
    raised = 0
    whences = [SEEK_SET, SEEK_CUR, SEEK_END, SEEK_SET, SEEK_CUR, SEEK_END, DEFAULT, 3, -1, 10 ** 9,
               True, False, 1.0, 2.0, 0.0, 1.5, None, "1", "cur", b"\x01", (1,), [2],
               np.int64(1), np.int16(2), np.uint8(0), np.float32(1.0), np.bool_(True), 1 + 0j]
    for case in range(2500):
        kind = rnd.choice(["wrapper", "offset", "offset", "reversed", "sector", "file", "nested"])
        data = bytes(rnd.getrandbits(8) for _ in range(rnd.choice([0, 1, 16, 100, 1000])))
        size = rnd.choice([len(data), len(data), max(0, len(data) - 3), len(data) + 7, 0, -5, 1])
        if kind in ("wrapper", "offset", "nested") and rnd.random() < 0.05:
            size = None
        position = rnd.choice([0, 0, 1, 5, len(data)])
        extra = rnd.choice([0, 1, 2, 3, 8, 16, 50])
        steps = []
        for _ in range(rnd.choice([1, 3, 8])):
            offset = rnd.choice([0, 0, 1, 2, 5, -1, -7, 10 ** 12, -10 ** 12, len(data), len(data) - 1,
                                 rnd.randrange(-20, 1100), 2.0, 0.5, True, None, "3", np.int32(4)])
            whence = rnd.choice(whences)
            follow = rnd.choice([None, None, 0, 1, 4, 64])
            steps.append((offset, whence, follow))
        args = (kind, data, size, position, extra, steps)
        live = run_session(live_seek, *args)
        orig = run_session(orig_seek, *args)
        check(("session", case, kind, size, steps), live, orig)
        ok += sum(1 for s in live if s[0][0] == "ok")
        raised += sum(1 for s in live if s[0][0] == "raise")
    print("seek calls that returned:", ok, "| that raised:", raised)
    check("part A is not vacuous", ok > 5000 and raised > 300, True)


class Probe:
    """A whence that records, and scripts the result of, every == made with it."""

    def __init__(self, answers, journal):
        self.answers = list(answers)
        self.journal = journal

    def __eq__(self, other):
        self.journal.append(("eq", other))
        answer = self.answers.pop(0) if self.answers else False
        if isinstance(answer, BaseException):
            raise answer
        return answer

    __hash__ = None


class Truthy:
    def __init__(self, value, journal):
        self.value = value
        self.journal = journal

    def __bool__(self):
        self.journal.append(("bool", repr(self.value)))
        if isinstance(self.value, BaseException):
            raise self.value
        return self.value


def part_b():
    rnd = random.Random(2002)
    live_seek = StreamWrapper.__dict__["seek"]
    compared = 0
    for case in range(1500):
        data = bytes(range(64))
        size = rnd.choice([64, 40, 0])
        position = rnd.choice([0, 7, 40])
        offset = rnd.choice([0, 3, -2, 100])
        plan = [rnd.choice(["T", "F", "F", "1", "0", "obj-t", "obj-f", "obj-raise", "raise", "NotImplemented", "none", "arr"])
                for _ in range(2)]

        def run(seek):
            journal = []
            answers = []
            for p in plan:
                answers.append({
                    "T": True, "F": False, "1": 1, "0": 0, "none": None,
                    "obj-t": Truthy(True, journal), "obj-f": Truthy(False, journal),
                    "obj-raise": Truthy(OverflowError("bool"), journal),
                    "raise": ZeroDivisionError("eq"), "NotImplemented": NotImplemented,
                    "arr": np.array([1, 2]),
                }[p])
            log = []
            stream = StreamOffset(LoggingBytesIO(data, log), size, 8, position=position)
            del log[:]
            r = outcome(lambda: seek(stream, offset, Probe(answers, journal)))
            return r, journal, stream.position, stream.true_size, log

        live = run(live_seek)
        check(("probe", case, plan), live, run(orig_seek))
        compared += len(live[1])
    print("recorded comparisons / truth tests:", compared)
    check("part B is not vacuous", compared > 2000, True)
    # subclasses of int compare like their value in both spellings
    class Whence(int):
        pass
    for value in (0, 1, 2, 3):
        stream_a = StreamWrapper(io.BytesIO(bytes(30)), 30, position=11)
        stream_b = StreamWrapper(io.BytesIO(bytes(30)), 30, position=11)
        check(("int subclass", value), live_seek(stream_a, 4, Whence(value)), orig_seek(stream_b, 4, Whence(value)))


def part_c(scratch):
    rnd = random.Random(2003)
    exported = 0
    calls = [0]

    def counting(self, offset, whence=SEEK_CUR):
        calls[0] += 1
        return orig_seek(self, offset, whence)

    for n, (label, image) in enumerate(make_images(rnd)):
        live = export_image(image, scratch, "live%d" % n)
        saved = StreamWrapper.__dict__["seek"]
        StreamWrapper.seek = counting
        try:
            orig = export_image(image, scratch, "orig%d" % n)
        finally:
            StreamWrapper.seek = saved
        check(("export", label), live, orig)
        exported += sum(1 for digest in live[2].values() if digest)
    print("wav files exported per run:", exported, "| original seek calls:", calls[0])
    check("exports are not vacuous", exported > 40, True)
    check("the original method really ran", calls[0] > 1000, True)


def main():
    scratch = tempfile.mkdtemp(prefix="r20_demo_")
    try:
        with np.errstate(all="ignore"):
            part_a()
            part_b()
        part_c(scratch)
    finally:
        shutil.rmtree(scratch, ignore_errors=True)
    print("checks:", checks, "failures:", failures)
    return 1 if failures or not checks else 0


if __name__ == "__main__":
    sys.exit(main())
