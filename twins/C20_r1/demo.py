"""Equivalence demo for r1: LoopEntryAdapter._decode (smpl_extract/akai/sample.py).

Compares the adapter in the tree against an inline copy of the ORIGINAL
implementation, both on hand-made containers and through full parses of
LoopDataConstruct / SampleHeaderConstruct byte images.
"""
import io
import random
import struct
import sys

from construct.lib.containers import Container

from smpl_extract.akai.sample import LoopDataConstruct
from smpl_extract.akai.sample import LoopEntry
from smpl_extract.akai.sample import LoopEntryAdapter
from smpl_extract.akai.sample import SampleHeaderConstruct


def original_decode(loop_data):
    # verbatim copy of the original body of LoopEntryAdapter._decode
    loop_at = loop_data.loop_start
    loop_length = loop_data.loop_length_coarse

    loop_duration = loop_data.loop_duration
    repeat_forever = (loop_duration >= 9999)

    loop_start = (loop_at - 1) - loop_length
    if loop_start < 0:
        loop_start = 0
    loop_end = loop_at

    result = LoopEntry(
        loop_start,
        loop_end,
        loop_duration,
        repeat_forever
    )
    return result


failures = 0


def check(label, got, want):
    global failures
    same = (got == want) and all(
        type(getattr(got, f)) is type(getattr(want, f))
        for f in ("loop_start", "loop_end", "loop_duration", "repeat_forever")
    )
    if not same:
        failures += 1
        if failures < 20:
            print("MISMATCH", label, got, want)


rng = random.Random(20)
EDGE32 = [0, 1, 2, 3, 0x7FFFFFFF, 0x80000000, 0xFFFFFFFE, 0xFFFFFFFF, 9998, 9999, 10000]
EDGE16 = [0, 1, 9998, 9999, 10000, 0x7FFF, 0x8000, 0xFFFF]

adapter = LoopEntryAdapter(LoopDataConstruct)

# 1. direct calls of _decode on containers
cases = []
for a in EDGE32:
    for b in EDGE32:
        for d in EDGE16:
            cases.append((a, rng.randrange(0x10000), b, d))
for _ in range(20000):
    a = rng.choice([rng.randrange(0, 16), rng.randrange(0, 1 << 32)])
    b = rng.choice([rng.randrange(0, 16), a, max(a - 1, 0), a + 1, rng.randrange(0, 1 << 32)])
    b = b & 0xFFFFFFFF
    cases.append((a, rng.randrange(0x10000), b, rng.choice(EDGE16 + [rng.randrange(0x10000)])))

for (a, f, b, d) in cases:
    c = Container(loop_start=a, loop_length_fine=f, loop_length_coarse=b, loop_duration=d)
    check(("direct", a, f, b, d), adapter._decode(c, {}, "p"), original_decode(c))

# 2. through the byte parser
for (a, f, b, d) in cases[::7]:
    raw = struct.pack("<IHIH", a, f, b, d)
    got = adapter.parse(raw)
    want = original_decode(LoopDataConstruct.parse(raw))
    check(("parse", a, f, b, d), got, want)

# 3. through the full sample header (8 loop entries each)
for n in range(300):
    loops = [cases[rng.randrange(len(cases))] for _ in range(8)]
    start = rng.randrange(0, 50)
    end = start + rng.randrange(0, 50)
    hdr = bytes([rng.choice([1, 3]), rng.randrange(256), rng.randrange(21, 128)])
    hdr += bytes(rng.choice(list(range(0, 0x29))) for _ in range(12))
    hdr += bytes(rng.randrange(256) for _ in range(4))
    hdr += bytes([rng.randrange(0, 4)])
    hdr += struct.pack("<bb", rng.randrange(-128, 128), rng.randrange(-128, 128))
    hdr += bytes(rng.randrange(256) for _ in range(4))
    hdr += struct.pack("<III", rng.randrange(1 << 32), start, end)
    for l in loops:
        hdr += struct.pack("<IHIH", *l)
    hdr += bytes(rng.randrange(256) for _ in range(4))
    hdr += struct.pack("<H", rng.choice([0, 22050, 44100, rng.randrange(0x10000)]))
    hdr += bytes(rng.randrange(256) for _ in range(2 * end + 4))
    try:
        parsed = SampleHeaderConstruct.parse_stream(io.BytesIO(hdr))
    except Exception as e:  # invalid note byte etc. - independent of the edit
        print("unexpected parse error", type(e), e)
        failures += 1
        continue
    for i, l in enumerate(loops):
        want = original_decode(LoopDataConstruct.parse(struct.pack("<IHIH", *l)))
        check(("header", n, i), parsed.loop_data_table[i], want)

print("cases:", len(cases), "failures:", failures)
sys.exit(1 if failures else 0)
