"""Equivalence demo for r19: WavLoopStruct (smpl_extract/formats/wav.py) - the
24-byte loop record repeated `sample_loop_cnt` times inside the smpl chunk.

An inline copy of the ORIGINAL declaration is compared with the tree's:
 1. declaration shape (field names, order, wrapper and integer classes, enum
    mappings, flags, sizeof == 24);
 2. WavLoopStruct.build / parse for a sweep of corner values of all six
    fields (0, 1, 2**31, 2**32-1, overflow, negative, None, strings), every
    loop type given as enum member / int / name, missing keys, extra keys,
    dataclass containers and plain dicts -> same bytes / same parsed values /
    same exception (type and message);
 3. the smpl chunk around it: the original WavSampleChunkStruct declaration
    (verbatim) on top of the original loop struct against the tree's, for
    0..40 loops, and get_smpl_chunk_data() output for generalized samples
    with loop tables full of corner values; smpl size == 36 + 24 x count;
 4. whole files: export_wav against an adapter around the original chain.
Exit 0 when everything agrees, 1 otherwise.
"""
import io
import itertools
import os
import shutil
import struct
import sys
import tempfile

from construct.core import Byte
from construct.core import Const
from construct.core import Enum as EnumConstruct
from construct.core import ExprAdapter
from construct.core import GreedyRange
from construct.core import Int32ul
from construct.core import Prefixed
from construct.core import Rebuild
from construct.core import Struct
from construct.core import Switch
from construct.expr import len_
from construct.expr import this

from smpl_extract.data_streams import DataStream
from smpl_extract.data_streams import Endianess
from smpl_extract.data_streams import StreamEncoding
from smpl_extract.formats import wav as fw
from smpl_extract.formats.wav import SmpteFormat
from smpl_extract.formats.wav import WavDataChunkStruct
from smpl_extract.formats.wav import WavFormatChunkStruct
from smpl_extract.formats.wav import WavLoopContainer
from smpl_extract.formats.wav import WavLoopType
from smpl_extract.formats.wav import WavRiffChunkType
from smpl_extract.formats.wav import WavSampleChunkContainer
from smpl_extract.generalized import wav as gw
from smpl_extract.generalized.sample import LoopRegion
from smpl_extract.generalized.sample import LoopType
from smpl_extract.generalized.sample import Sample
from smpl_extract.midi import MidiNote


# ---- verbatim copy of the original declaration ---------------------------
OrigWavLoopStruct = Struct(
    "cue_id"        / Int32ul,
    "loop_type"     / EnumConstruct(
                        Int32ul,
                        WavLoopType
                    ),
    "start_byte"    / Int32ul,
    "end_byte"      / Int32ul,
    "fraction"      / Int32ul,
    "play_cnt"      / Int32ul
)
# ---- unchanged declarations, re-created on top of the original loop ------
OrigWavSampleChunkStruct = Struct(
    "manufacturer"      / Int32ul,
    "product"           / Int32ul,
    "sample_period"     / Int32ul,
    "midi_note"         / ExprAdapter(
                            Int32ul,
                            lambda x,y: MidiNote.from_midi_byte(x),
                            lambda x,y: x.to_midi_byte()  # type: ignore
                        ),
    "pitch_fraction"    / Int32ul,
    "smpte_format"      / EnumConstruct(
                            Int32ul,
                            SmpteFormat
                        ),
    "smpte_offset"      / Int32ul,
    "sample_loop_cnt"   / Rebuild(
        Int32ul,
        len_(this.sample_loops)
    ),
    "sampler_data_size" / Rebuild(
        Int32ul,
        len_(this.sampler_data)
    ),
    "sample_loops"      / OrigWavLoopStruct[this.sample_loop_cnt],
    "sampler_data"      / Byte[this.sampler_data_size],
)
OrigWavRiffChunkStruct = Struct(
    "riff_id"   / WavRiffChunkType,
    "data"      / Prefixed(Int32ul,
        Switch(this.riff_id, {
            WavRiffChunkType.FMT:  WavFormatChunkStruct,
            WavRiffChunkType.SMPL: OrigWavSampleChunkStruct,
            WavRiffChunkType.DATA: WavDataChunkStruct
        })
    )
)
OrigRiffStruct = Struct(
    "fourcc"    / Const(b"RIFF"),
    "data"      / Prefixed(Int32ul, Struct(
        "fourcc"    / Const(b"WAVE"),
        "chunks"    / GreedyRange(OrigWavRiffChunkStruct)
    )),
)
# -------------------------------------------------------------------------

failures = []
checks = 0


def check(cond, msg):
    global checks
    checks += 1
    if not cond:
        failures.append(msg)
        if len(failures) <= 20:
            print("MISMATCH:", msg[:300])


def outcome(f):
    try:
        return ("ok", f())
    except Exception as e:  # noqa: BLE001
        return ("exc", type(e).__name__, str(e))


def plain(obj):
    if isinstance(obj, dict):
        return [(k, plain(v)) for k, v in obj.items() if k != "_io"]
    if isinstance(obj, (list, tuple)):
        return [plain(x) for x in obj]
    if isinstance(obj, MidiNote):
        return ("note", obj.to_midi_byte())
    if isinstance(obj, int) and not isinstance(obj, bool):
        return (type(obj).__name__, str(obj), int(obj))
    return (type(obj).__name__, str(obj))


# ---- 1. shape -------------------------------------------------------------
def shape(st):
    out = [type(st).__name__, st.name, st.flagbuildnone, st.docs,
           len(st.subcons), list(st._subcons.keys())]
    for sc in st.subcons:
        inner = sc.subcon
        item = [type(sc).__name__, sc.name, sc.docs, sc.parsed,
                sc.flagbuildnone, type(inner).__name__]
        if isinstance(inner, EnumConstruct):
            item += [inner.subcon is Int32ul, dict(inner.encmapping),
                     dict(inner.decmapping), dict(inner.ksymapping)]
        else:
            item.append(inner is Int32ul)
        out.append(item)
    return out


check(shape(fw.WavLoopStruct) == shape(OrigWavLoopStruct), "shape differs")
check([sc.name for sc in fw.WavLoopStruct.subcons]
      == ["cue_id", "loop_type", "start_byte", "end_byte", "fraction",
          "play_cnt"], "field names/order")
check(fw.WavLoopStruct.sizeof() == OrigWavLoopStruct.sizeof() == 24, "sizeof")
check(isinstance(fw.WavLoopStruct.subcons, list), "subcons is a list")


# ---- 2. the loop struct itself --------------------------------------------
CORNER = [0, 1, 2, 0x7FFFFFFF, 0x80000000, 0xFFFFFFFF]
BAD = [-1, 2**32, None, "7", 1.5, b"ab"]
TYPES = list(WavLoopType) + [0, 1, 2, 3, "FORWARD", "ALTERNATING", "REVERSE",
                             "UNKNOWN"]
BAD_TYPES = [4, -1, "forward", None, 2**32, 1.0]


def compare_loop(label, make):
    a = outcome(lambda: fw.WavLoopStruct.build(make()))
    b = outcome(lambda: OrigWavLoopStruct.build(make()))
    check(a == b, "loop build %s: %r vs %r" % (label, a, b))
    if a[0] == "ok" and a == b:
        raw = a[1]
        check(len(raw) == 24, "loop record is not 24 bytes: " + label)
        p = outcome(lambda: plain(fw.WavLoopStruct.parse(raw)))
        q = outcome(lambda: plain(OrigWavLoopStruct.parse(raw)))
        check(p == q, "loop parse %s: %r vs %r" % (label, p, q))
    return a


for cue, ltype, start, end in itertools.product(CORNER, TYPES, CORNER, CORNER):
    res = compare_loop(
        "corner", lambda: WavLoopContainer(
            cue_id=cue, loop_type=ltype, start_byte=start, end_byte=end,
            fraction=(start ^ end) & 0xFFFFFFFF, play_cnt=cue))
    if res[0] == "ok":
        want_type = int(WavLoopType[ltype]) if isinstance(ltype, str) \
            else int(ltype)
        check(res[1] == struct.pack(
            "<6I", cue, want_type, start, end, (start ^ end) & 0xFFFFFFFF,
            cue), "loop bytes")
FIELDS = ("cue_id", "loop_type", "start_byte", "end_byte", "fraction",
          "play_cnt")
for name in FIELDS:
    for val in (BAD_TYPES if name == "loop_type" else BAD) + CORNER:
        def make(name=name, val=val):
            d = dict(cue_id=1, loop_type=WavLoopType.FORWARD, start_byte=2,
                     end_byte=3, fraction=4, play_cnt=5)
            d[name] = val
            return d
        compare_loop("%s=%r" % (name, val), make)

    def make_missing(name=name):
        d = dict(cue_id=1, loop_type=WavLoopType.FORWARD, start_byte=2,
                 end_byte=3, fraction=4, play_cnt=5)
        del d[name]
        return d
    compare_loop("missing " + name, make_missing)
compare_loop("default container", lambda: WavLoopContainer())
compare_loop("extra key", lambda: dict(
    cue_id=1, loop_type=1, start_byte=2, end_byte=3, fraction=4, play_cnt=5,
    other=6))
compare_loop("None", lambda: None)
compare_loop("list", lambda: [1, 2, 3, 4, 5, 6])
for raw in (b"", b"\x00" * 23, b"\x00" * 24, b"\xff" * 24, b"\x05" * 30,
            struct.pack("<6I", 1, 3, 0, 0, 0, 0),
            struct.pack("<6I", 1, 9, 0, 0, 0, 0)):
    p = outcome(lambda: plain(fw.WavLoopStruct.parse(raw)))
    q = outcome(lambda: plain(OrigWavLoopStruct.parse(raw)))
    check(p == q, "parse of %r: %r vs %r" % (raw, p, q))


# ---- 3. the smpl chunk around it ------------------------------------------
def compare_smpl(label, make):
    a = outcome(lambda: fw.WavSampleChunkStruct.build(make()))
    b = outcome(lambda: OrigWavSampleChunkStruct.build(make()))
    check(a == b, "smpl build %s" % label)
    if a[0] == "ok" and a == b:
        raw = a[1]
        cnt = struct.unpack("<I", raw[28:32])[0]
        extra = struct.unpack("<I", raw[32:36])[0]
        check(len(raw) == 36 + 24 * cnt + extra, "smpl size: " + label)
        p = outcome(lambda: plain(fw.WavSampleChunkStruct.parse(raw)))
        q = outcome(lambda: plain(OrigWavSampleChunkStruct.parse(raw)))
        check(p == q, "smpl parse %s" % label)
        for cut in (35, 36, 40, len(raw) - 1):
            p = outcome(lambda: plain(
                fw.WavSampleChunkStruct.parse(raw[:max(cut, 0)])))
            q = outcome(lambda: plain(
                OrigWavSampleChunkStruct.parse(raw[:max(cut, 0)])))
            check(p == q, "smpl parse truncated %s" % label)


for num_loops in list(range(12)) + [40]:
    for sampler_data in (b"", b"\x01\x02\x03"):
        compare_smpl("n=%d" % num_loops, lambda: WavSampleChunkContainer(
            sample_period=22676, midi_note=MidiNote.from_midi_byte(60),
            pitch_fraction=5, sampler_data=sampler_data,
            sample_loops=[
                WavLoopContainer(
                    cue_id=i, loop_type=list(WavLoopType)[i % 4],
                    start_byte=CORNER[i % 6], end_byte=CORNER[(i + 3) % 6],
                    play_cnt=CORNER[(i + 1) % 6])
                for i in range(num_loops)]))
compare_smpl("bad loop inside", lambda: WavSampleChunkContainer(
    sample_loops=[WavLoopContainer(), WavLoopContainer(start_byte=-1)]))
compare_smpl("loops is None", lambda: WavSampleChunkContainer(
    sample_loops=None))

SAMPLE_CORNER = [0, 1, 2, 44100, 0x7FFFFFFF, 0xFFFFFFFF, 2**32, -1]
n_samples = 0
for start, end, play_cnt, forever, duration, ltype in itertools.product(
        SAMPLE_CORNER, SAMPLE_CORNER, (None, 0, 3, 2**32), (True, False),
        (None, 0.0, 0.25, 1e9), list(LoopType) + [7]):
    if (start + end + (play_cnt or 0)) % 3:      # thin out the sweep
        continue
    n_samples += 1

    def make_sample(extra_loops=n_samples % 4):
        loops = [LoopRegion(
            start_sample=start, end_sample=end, loop_type=ltype,
            repeat_forever=forever, play_cnt=play_cnt, duration=duration)]
        loops += [LoopRegion(start_sample=k, end_sample=10 * k + 10)
                  for k in range(extra_loops)]
        return Sample(sample_rate=(0, 44100, 8000)[n_samples % 3],
                      loop_regions=loops)
    compare_smpl("generalized sample",
                 lambda: gw.get_smpl_chunk_data(make_sample()))


# ---- 4. whole files --------------------------------------------------------
def pcm(n, seed):
    return bytes((seed * 31 + i * 7) % 256 for i in range(n))


def make_file_sample(channels, num_loops, num_frames):
    return Sample(
        name="s", sample_rate=44100, num_channels=channels,
        data_streams=[DataStream(
            io.BytesIO(pcm(2 * channels * num_frames, 3)),
            StreamEncoding(Endianess.LITTLE, 2, channels, True))],
        loop_regions=[
            LoopRegion(start_sample=CORNER[i % 6], end_sample=CORNER[-1 - i % 6],
                       loop_type=list(LoopType)[i % 3],
                       repeat_forever=bool(i % 2), duration=0.01 * i)
            for i in range(num_loops)],
        midi_note=MidiNote.from_midi_byte(48 + num_loops))


OrigBuilder = gw.WavSampleAdapter(OrigRiffStruct)
tmp_dir = tempfile.mkdtemp(prefix="r19_demo_")
try:
    n = 0
    for channels, num_loops, num_frames in itertools.product(
            (1, 2), (0, 1, 2, 3, 8, 33), (0, 10, 3000)):
        n += 1
        path = os.path.join(tmp_dir, "f%d.wav" % n)
        a = outcome(lambda: gw.export_wav(
            make_file_sample(channels, num_loops, num_frames), path))
        raw = open(path, "rb").read()
        sink = io.BytesIO()
        b = outcome(lambda: OrigBuilder.build_stream(
            make_file_sample(channels, num_loops, num_frames), sink))
        check(a[0] == b[0] == "ok", "export failed for file %d: %r" % (n, a))
        check(raw == sink.getvalue(), "bytes differ for file %d" % n)
        # independent walk
        check(struct.unpack("<I", raw[4:8])[0] == len(raw) - 8, "riff size")
        pos, seen = 12, []
        while pos < len(raw):
            cid, size = struct.unpack("<4sI", raw[pos:pos + 8])
            seen.append((cid, size, pos + 8))
            pos += 8 + size
        check(pos == len(raw) and [c[0] for c in seen]
              == [b"fmt ", b"smpl", b"data"], "chunk walk of file %d" % n)
        if len(seen) == 3:
            off = seen[1][2]
            cnt = struct.unpack("<I", raw[off + 28:off + 32])[0]
            check(cnt <= num_loops, "loop count of file %d" % n)
            check(seen[1][1] == 36 + 24 * cnt, "smpl size of file %d" % n)
            check(seen[2][1] % (2 * channels) == 0, "frame alignment %d" % n)
finally:
    shutil.rmtree(tmp_dir, ignore_errors=True)

print("%d checks, %d failures" % (checks, len(failures)))
sys.exit(1 if failures else 0)
