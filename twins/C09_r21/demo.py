"""Equivalence demo for r21: smpl_extract/roland/s7xx/image.py, the declaration
IdAreaStruct - the layout that is_roland_s7xx_image (through
IdAreaAdapterParser) parses at offset 0 to decide whether an image is a Roland
S-7xx image, and that RolandS7xxImageStruct embeds.

The refactoring builds the five ASCII text members with a small factory
`_ascii_field(name, length)` that returns
`Renamed(PaddedString(length, encoding="ascii"), newname=name)` (what
`"name" / PaddedString(...)` evaluates to) and the five trailing Int16ul
counters by iterating a module-level tuple of their names.  Order, sizes,
paddings and names of the members are unchanged.

The ORIGINAL declaration is pasted below.  Checks:
  * both declarations have the same shape (classes, names, lengths, encodings,
    docs, flags) and the same sizeof();
  * many byte strings (valid ID areas, random bytes, non-ASCII bytes, truncated
    inputs of every length 0..sizeof+3) parsed with both: same Container or same
    exception type / message / path, same stream position afterwards and the
    same sequence of read() sizes on the stream;
  * build() of random value sets gives the same bytes with both (or the same
    exception);
  * IdAreaAdapter over both declarations and is_roland_s7xx_image on streams
    positioned anywhere: same answer, position restored;
  * end to end: generated Roland images delivered raw, as 2352-byte sectors,
    MDX-wrapped and through cue sheets in a fresh temp directory are recognised
    as Roland and list the same.
"""
import contextlib
import dataclasses
import io
import os
import random
import shutil
import struct
import sys
import tempfile

from construct.core import Int16ul
from construct.core import Int32ul
from construct.core import PaddedString
from construct.core import Padding
from construct.core import Struct

from smpl_extract import actions
from smpl_extract.alcohol.mdx import MdxHeaderConstruct
from smpl_extract.roland.s7xx.data_types import FAT_AREA_ID
from smpl_extract.roland.s7xx.data_types import FAT_AREA_OFFSET
from smpl_extract.roland.s7xx.data_types import FAT_AREA_SIZE
from smpl_extract.roland.s7xx.data_types import ID_AREA_SIZE
from smpl_extract.roland.s7xx.image import IdArea
from smpl_extract.roland.s7xx.image import IdAreaAdapter
from smpl_extract.roland.s7xx.image import IdAreaAdapterParser
from smpl_extract.roland.s7xx.image import IdAreaStruct
from smpl_extract.roland.s7xx.image import is_roland_s7xx_image


# ---- the ORIGINAL declaration, verbatim ----------------------------------------
OriginalIdAreaStruct = Struct(
    "revision" / Int32ul,
    "s7xx_str" / PaddedString(10, encoding="ascii"),
    Padding(2),
    "empty_str" / PaddedString(15, encoding="ascii"),
    Padding(1),
    "version_str" / PaddedString(31, encoding="ascii"),
    Padding(1),
    "copyright_str" / PaddedString(31, encoding="ascii"),
    Padding(1),
    Padding(160),
    "disk_name" / PaddedString(16, encoding="ascii"),
    "disk_capacity" / Int32ul,
    "num_volumes" / Int16ul,
    "num_performances" / Int16ul,
    "num_patches" / Int16ul,
    "num_partials" / Int16ul,
    "num_samples" / Int16ul,
    # 226 Bytes Remaining
)
# --------------------------------------------------------------------------------


failures = []
checks = 0


def check(label, a, b):
    global checks
    checks += 1
    if a != b:
        failures.append((label, a, b))


def outcome(fn):
    try:
        return ("ok", fn())
    except Exception as e:  # noqa: BLE001 - compared, not hidden
        return ("exc", type(e).__name__, str(e), getattr(e, "path", None))


def shape(con, depth=0):
    out = [(
        depth,
        type(con).__name__,
        getattr(con, "name", None),
        getattr(con, "docs", None),
        getattr(con, "parsed", None),
        getattr(con, "length", None),
        getattr(con, "encoding", None),
        getattr(con, "fmtstr", None),
        getattr(con, "pattern", None),
        con.flagbuildnone,
        outcome(con.sizeof),
    )]
    if depth > 4:
        return out
    if hasattr(con, "subcons"):
        for sub in con.subcons:
            out += shape(sub, depth + 1)
    elif hasattr(con, "subcon"):
        out += shape(con.subcon, depth + 1)
    return out


class LoggingStream(io.BytesIO):
    """BytesIO that records every read / seek / tell made on it."""

    def __init__(self, data):
        super().__init__(data)
        self.log = []

    def read(self, size=-1):
        out = super().read(size)
        self.log.append(("read", size, len(out)))
        return out

    def seek(self, offset, whence=0):
        out = super().seek(offset, whence)
        self.log.append(("seek", offset, whence, out))
        return out

    def tell(self):
        out = super().tell()
        self.log.append(("tell", out))
        return out


S7XX = ["S770 MR25A", "S750\tMR25A", "s760 mr25a", "  S700  MR25A", "S77 MR25A", "X770 MR25A", ""]
VERSIONS = [
    "S-770 Hard Disk Ver. 2.25", "S-750 MO Disk Ver 1.02a", "SP-700 CD-ROM Disk Ver.3",
    "s-760 hard disk ver 1", "S-770 Disk", "", "Ver. 2.25",
]
COPYRIGHTS = ["Copyright Roland", "copyright  roland corp", "Copyleft", ""]
NAMES = ["MYDISK", "", "A B C", "0123456789ABCDEF", "x"]


def random_values(rng):
    return dict(
        revision=rng.randint(0, 2**32 - 1),
        s7xx_str=rng.choice(S7XX),
        empty_str=rng.choice(["", "abc", "0123456789ABCDE"]),
        version_str=rng.choice(VERSIONS),
        copyright_str=rng.choice(COPYRIGHTS),
        disk_name=rng.choice(NAMES),
        disk_capacity=rng.randint(0, 2**32 - 1),
        num_volumes=rng.randint(0, 0xFFFF),
        num_performances=rng.randint(0, 0xFFFF),
        num_patches=rng.randint(0, 0xFFFF),
        num_partials=rng.randint(0, 0xFFFF),
        num_samples=rng.randint(0, 0xFFFF),
    )


def parse_both(label, data, position=0):
    results = []
    for con in (IdAreaStruct, OriginalIdAreaStruct):
        stream = LoggingStream(data)
        io.BytesIO.seek(stream, position)
        out = outcome(lambda: con.parse_stream(stream))
        if out[0] == "ok":
            # `_io` is the stream object itself (one per run): compared by identity below
            items = [(k, v) for k, v in out[1].items() if k != "_io"]
            out = ("ok", items, repr(out[1]), out[1].get("_io") is stream)
        results.append((out, io.BytesIO.tell(stream), stream.log))
    check(label, results[0], results[1])
    return results[0][0][0]


def header(sector_id):
    return b"\x00" + b"\xFF" * 10 + b"\x00" + struct.pack(">I", sector_id)[1:] + b"\x01"


def mdf_wrap(payload):
    out = bytearray()
    for i in range(0, len(payload), 2048):
        out += header(i // 2048) + payload[i:i + 2048].ljust(2048, b"\0") + bytes(288)
    return bytes(out)


def mdx_wrap(payload):
    return MdxHeaderConstruct.build(dict(
        copyright=b"\xA9" + b" " * 25,
        eof=MdxHeaderConstruct.sizeof() + len(payload),
    )) + payload


def make_roland_image(rng, extra):
    values = random_values(rng)
    values.update(
        s7xx_str=rng.choice(S7XX[:3]), version_str=rng.choice(VERSIONS[:3]),
        copyright_str="Copyright Roland", num_volumes=0, num_performances=0,
    )
    img = bytearray(0x110000 + extra)
    ida = OriginalIdAreaStruct.build(values)
    img[:len(ida)] = ida
    fat = bytearray(FAT_AREA_SIZE)
    struct.pack_into("<HH", fat, 0, FAT_AREA_ID, 77)
    struct.pack_into("<HH", fat, FAT_AREA_SIZE - 4, 0xFFFF, 0xFFFF)
    img[FAT_AREA_OFFSET:FAT_AREA_OFFSET + FAT_AREA_SIZE] = fat
    return bytes(img)


def ls_text(image, path=""):
    buf = io.StringIO()
    with contextlib.redirect_stdout(buf):
        actions.ls_action(image, path)
    return buf.getvalue()


def digest(image):
    plain_fields = [f.name for f in dataclasses.fields(IdArea)]
    return (
        type(image).__name__,
        [(name, getattr(image, name)) for name in plain_fields],
        len(image.volumes),
        ls_text(image),
    )


def main():
    rng = random.Random(0x521)

    check("shape", shape(IdAreaStruct), shape(OriginalIdAreaStruct))
    check("sizeof", outcome(IdAreaStruct.sizeof), outcome(OriginalIdAreaStruct.sizeof))
    check("sizeof value", IdAreaStruct.sizeof(), 286)
    check("member names", [s.name for s in IdAreaStruct.subcons], [s.name for s in OriginalIdAreaStruct.subcons])
    size = OriginalIdAreaStruct.sizeof()

    # -- build: same bytes / same exception -----------------------------------------
    built = []
    for n in range(1500):
        values = random_values(rng)
        roll = rng.random()
        if roll < 0.1:
            values.pop(rng.choice(sorted(values)))
        elif roll < 0.2:
            values[rng.choice(sorted(values))] = rng.choice([None, -1, 2**40, "x" * 40, "é", b"raw", 1.5])
        a = outcome(lambda: IdAreaStruct.build(values))
        b = outcome(lambda: OriginalIdAreaStruct.build(values))
        check(("build", n), a, b)
        if b[0] == "ok":
            built.append(b[1])
    check("builds happened", len(built) > 1000, True)

    # -- parse: valid areas, damaged areas, random bytes, every truncation ----------
    tally = {"ok": 0, "exc": 0}
    for n, data in enumerate(built):
        data = bytearray(data + bytes(rng.randrange(0, 300)))
        roll = rng.random()
        if roll < 0.25:
            for _ in range(rng.randrange(1, 6)):
                data[rng.randrange(len(data))] = rng.randrange(256)
        elif roll < 0.35:
            data[rng.randrange(4, 126)] = rng.randrange(0x80, 0x100)      # non-ASCII text
        tally[parse_both(("parse built", n), bytes(data))] += 1
    for n in range(600):
        data = bytes(rng.randrange(rng.choice([0x80, 0x100])) for _ in range(rng.choice([size, size + 7, 512])))
        tally[parse_both(("parse random", n), data)] += 1
    sample = built[0] + b"tail"
    for length in range(0, size + 4):
        tally[parse_both(("parse truncated", length), sample[:length])] += 1
    for n in range(200):
        position = rng.randrange(0, 64)
        tally[parse_both(("parse at offset", n), bytes(position) + rng.choice(built), position)] += 1
    check("both outcomes exercised", (tally["ok"] > 500, tally["exc"] > 300), (True, True))

    # -- the adapter and the signature test -----------------------------------------
    original_adapter = IdAreaAdapter(OriginalIdAreaStruct)
    verdicts = {True: 0, False: 0}
    for n in range(1200):
        data = bytearray(rng.choice(built) + bytes(rng.choice([0, 1, 226, 2048])))
        if rng.random() < 0.15:
            data[rng.randrange(len(data))] = rng.randrange(256)
        if rng.random() < 0.05:
            data = data[:rng.randrange(0, size)]
        data = bytes(data)
        a = outcome(lambda: IdAreaAdapterParser.parse(data))
        b = outcome(lambda: original_adapter.parse(data))
        check(("adapter", n), a, b)
        start = rng.randrange(0, len(data) + 1)
        stream = LoggingStream(data)
        io.BytesIO.seek(stream, start)
        verdict = is_roland_s7xx_image(stream)
        check(("signature verdict", n), verdict, b[0] == "ok")
        check(("signature restores position", n), io.BytesIO.tell(stream), start)
        reference = LoggingStream(data)
        io.BytesIO.seek(reference, start)
        reference.tell()
        reference.seek(0, 0)
        outcome(lambda: OriginalIdAreaStruct.parse_stream(reference))
        reference.seek(start, 0)
        check(("signature stream calls", n), stream.log, reference.log)
        verdicts[verdict] += 1
    check("both verdicts exercised", (verdicts[True] > 50, verdicts[False] > 50), (True, True))

    # -- end to end --------------------------------------------------------------
    workdir = tempfile.mkdtemp(prefix="r21_demo_")
    try:
        for n, extra in enumerate([0, 777, 2048]):
            payload = make_roland_image(rng, extra)
            check(("signature", n), is_roland_s7xx_image(io.BytesIO(payload)), True)
            blobs = {"raw": payload, "mdf": mdf_wrap(payload), "mdx": mdx_wrap(payload)}
            paths = {}
            for kind, blob in blobs.items():
                paths[kind] = os.path.join(workdir, f"img{n}.{kind}")
                with open(paths[kind], "wb") as f:
                    f.write(blob)
            for kind in ("raw", "mdf"):
                cue = os.path.join(workdir, f"img{n}.{kind}.cue")
                with open(cue, "w", encoding="ascii") as f:
                    f.write(f"FILE \"img{n}.{kind}\" BINARY\n  TRACK 01 MODE1/2352\n    INDEX 01 00:00:00\n")
                paths["cue->" + kind] = cue

            listings = {}
            for kind, path in paths.items():
                image = actions.determine_image_type(path)
                check(("e2e type", n, kind), type(image).__name__, "RolandS7xxImage")
                listings[kind] = repr(digest(image))
            expected = original_adapter.parse(payload)
            check(
                ("e2e fields as original declaration", n),
                [(f.name, getattr(image, f.name)) for f in dataclasses.fields(IdArea)],
                [(f.name, getattr(expected, f.name)) for f in dataclasses.fields(IdArea)],
            )
            check(("e2e same everywhere", n), len(set(listings.values())), 1)
    finally:
        shutil.rmtree(workdir, ignore_errors=True)

    print(f"{checks} checks, {len(failures)} disagreements")
    for f in failures[:10]:
        print("  MISMATCH", repr(f)[:600])
    return 1 if failures else 0


if __name__ == "__main__":
    sys.exit(main())
