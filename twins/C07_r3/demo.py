"""Equivalence demo for r3: FatAreaAdapter._decode
(smpl_extract/roland/s7xx/fat.py).

Compares the live _decode against an inline copy of the ORIGINAL
implementation.  The number of FAT entries is a module constant; for the
exhaustive part it is temporarily shrunk (in the live module and in the
inline copy alike) so that every small table can be enumerated, and the real
0x10000-entry size is used for the random part.
Exit 0 when everything agrees, 1 otherwise.
"""
import itertools
import random
import sys
from types import SimpleNamespace
from typing import cast

from construct.core import ConstructError

import smpl_extract.roland.s7xx.fat as live
from smpl_extract.roland.s7xx.data_types import FAT_AREA_ID
from smpl_extract.roland.s7xx.data_types import FAT_ERROR_FLAG
from smpl_extract.roland.s7xx.data_types import FAT_FREE_FLAG
from smpl_extract.roland.s7xx.data_types import FAT_IS_END_F
from smpl_extract.roland.s7xx.data_types import FAT_RESERVED_FLAG
from smpl_extract.roland.s7xx.data_types import FAT_VERSION_1_FLAG
from smpl_extract.roland.s7xx.data_types import FAT_VERSION_2_FLAG
from smpl_extract.roland.s7xx.fat import FatArea
from smpl_extract.roland.s7xx.fat import FatAreaContainer
from smpl_extract.roland.s7xx.fat import FatAreaParser
from smpl_extract.roland.s7xx.fat import RolandFileAllocationTable
from smpl_extract.util.fat import SectorLink
from smpl_extract.util.fat import add_to_sector_links

REAL_NUM_ENTRIES = live.FAT_NUM_ENTRIES
FAT_NUM_ENTRIES = REAL_NUM_ENTRIES      # rebound together with live.FAT_NUM_ENTRIES


def set_num_entries(n):
    global FAT_NUM_ENTRIES
    FAT_NUM_ENTRIES = n
    live.FAT_NUM_ENTRIES = n


def original_decode(self, obj, context, path):
    container = cast(FatAreaContainer, obj)

    fat_id = container.metadata.fat_id
    if fat_id != FAT_AREA_ID:
        raise ConstructError((
            "Bad FAT identifier. "
            f"Expected {FAT_AREA_ID}, found {fat_id}"
        ))

    num_remaining_clusters = container.metadata.num_unused_clusters

    version_flag_1 = container.metadata.version_flag_1
    version_flag_2 = container.metadata.version_flag_2

    version_map = {
        FAT_VERSION_1_FLAG: 1,
        FAT_VERSION_2_FLAG: 2
    }

    version = 1

    for version_flag in (version_flag_1, version_flag_2):
        if version_flag != FAT_VERSION_1_FLAG:
            if version_flag not in version_map.keys():
                raise ConstructError((
                    f"Unknown FAT version {version_flag}."
                ))
            version = version_map[version_flag]
            break

    fat_entries = container.fat_entries

    sector_links = [SectorLink()] * FAT_NUM_ENTRIES
    dirty_flags = [False] * FAT_NUM_ENTRIES
    dirty_flags[0:2] = [True, True]
    for i in range(2, FAT_NUM_ENTRIES - 9):

        if dirty_flags[i]:
            continue

        subpath_links = []
        subpath_visited = set()
        subpath_index = i
        while True:
            if subpath_index >= FAT_NUM_ENTRIES:
                break

            if subpath_index in subpath_visited:
                raise ConstructError("Encountered a loop in FAT.")
            subpath_visited.add(subpath_index)

            value = fat_entries[subpath_index]
            dirty_flags[subpath_index] = True

            if value == FAT_ERROR_FLAG:
                raise ConstructError("Encountered ERROR_FLAG in FAT.")

            if value in (FAT_RESERVED_FLAG, FAT_FREE_FLAG):
                if len(subpath_links) > 0:
                    if value == FAT_RESERVED_FLAG:
                        err_type = "RESERVE_FLAG"
                    else:
                        err_type = "FREE_FLAG"
                    raise ConstructError(f"Unexpected {err_type} in FAT.")
                else:
                    break

            subpath_links.append(subpath_index)

            if FAT_IS_END_F(value):
                add_to_sector_links(subpath_links, sector_links)
                break

            subpath_index = value
            continue

    fat = RolandFileAllocationTable(
        container.fat_data_stream,
        FAT_NUM_ENTRIES,
        sector_links
    )

    result = FatArea(
        version,
        num_remaining_clusters,
        fat
    )
    return result


def describe(area):
    links = area.fat.sector_links
    first_seen = {}
    sharing = []
    for idx, link in enumerate(links):
        sharing.append(first_seen.setdefault(id(link), idx))
    return (
        type(area), area.version, area.num_remaining_clusters,
        type(area.fat), id(area.fat.parent_stream), area.fat.size,
        [(l.next, l.end) for l in links],
        sharing,
    )


def outcome(fn, *args):
    try:
        return ("ok", describe(fn(*args)))
    except Exception as e:  # noqa: BLE001
        return ("exc", type(e), e.args, str(e))


STREAM = object()
checked = 0
mismatches = 0
kinds = {}


def make_container(entries, fat_id=FAT_AREA_ID, unused=7,
                   v1=FAT_VERSION_1_FLAG, v2=FAT_VERSION_1_FLAG):
    return SimpleNamespace(
        fat_entries=entries,
        metadata=SimpleNamespace(
            fat_id=fat_id, num_unused_clusters=unused,
            version_flag_1=v1, version_flag_2=v2,
        ),
        stream_size=0,
        fat_data_stream=STREAM,
    )


def compare(entries, **meta):
    global checked, mismatches
    new = outcome(FatAreaParser._decode, make_container(list(entries), **meta), None, None)
    old = outcome(original_decode, FatAreaParser, make_container(list(entries), **meta), None, None)
    checked += 1
    kinds[old[0] if old[0] == "ok" else old[3]] = kinds.get(old[0] if old[0] == "ok" else old[3], 0) + 1
    if new != old:
        mismatches += 1
        if mismatches <= 10:
            print("MISMATCH N=%d entries=%r meta=%r\n  new=%r\n  old=%r"
                  % (FAT_NUM_ENTRIES, entries[:40], meta, new, old))


rng = random.Random(0xC07)

# --- exhaustive head of a 14-entry table (chains start at 2, 3, 4) ------------
N = 14
set_num_entries(N)
head_alphabet = [FAT_FREE_FLAG, FAT_RESERVED_FLAG, FAT_ERROR_FLAG, 0xFFF8, 0xFFFF,
                 2, 3, 4, 5, 7, N, 0xFFF6]
tails = [
    [0xFFF8] * (N - 7),                       # every tail entry ends a chain
    [2] * (N - 7),                            # every tail entry links back: loops
    list(range(8, N)) + [0xFFFF],             # 7 -> 8 -> ... -> 13 -> end
    [FAT_FREE_FLAG] * (N - 7),                # chains run into free entries
]
for tail in tails:
    for head in itertools.product(head_alphabet, repeat=5):
        compare([0xFFFA, 0x0123] + list(head) + tail)

# --- random small tables, full alphabet, several table sizes ------------------
for _ in range(200000):
    n = rng.randrange(11, 26)
    if n != FAT_NUM_ENTRIES:
        set_num_entries(n)
    alpha = ([FAT_FREE_FLAG, FAT_RESERVED_FLAG, FAT_ERROR_FLAG, 0xFFF8, 0xFFFF,
              0xFFF6, n, n + 1] + list(range(2, n)) * 2)
    compare([rng.choice(alpha) for _ in range(n)])

# --- header / version handling (untouched code, checked anyway) ---------------
set_num_entries(12)
for fat_id in (FAT_AREA_ID, 0, 0xFFFB):
    for v1 in (FAT_VERSION_1_FLAG, FAT_VERSION_2_FLAG, 0x1234):
        for v2 in (FAT_VERSION_1_FLAG, FAT_VERSION_2_FLAG, 0x1234):
            for entries in ([0] * 12, [0, 0, 3, 0xFFFF] + [0] * 8, [0, 0, 3, 0] + [0] * 8):
                compare(entries, fat_id=fat_id, v1=v1, v2=v2, unused=fat_id ^ v1)

# --- real size (0x10000 entries) with injected cycles/cross-links/merges ------
set_num_entries(REAL_NUM_ENTRIES)
n = REAL_NUM_ENTRIES
for trial in range(40):
    entries = [0] * n
    p_bad = rng.choice([0.0, 0.0, 0.00002, 0.0002])
    used = rng.randrange(100, 0xFFF0)
    for i in range(2, used):
        r = rng.random()
        if r < 0.05:
            entries[i] = rng.choice([0xFFF8, 0xFFFF, 0xFFFC])
        elif r < 0.05 + p_bad:
            entries[i] = rng.choice([FAT_FREE_FLAG, FAT_RESERVED_FLAG, FAT_ERROR_FLAG,
                                     rng.randrange(2, n), i])
        else:
            entries[i] = i + 1
    entries[used - 1] = 0xFFFF
    compare(entries)

for k in sorted(kinds):
    print("  %-45s %d" % (k[:45], kinds[k]))
print("checked %d cases, %d mismatches" % (checked, mismatches))
sys.exit(1 if mismatches else 0)
