"""Equivalence demo for r16 (how sibling names are made pairwise distinct
before `ls` prints them and parse_path looks children up by them:
structural.Image.sanitize_names_general, run by Traversable.children through
make_safe_names_routine / make_export_names_routine).

The method as currently in the tree is compared with an inline copy of the
ORIGINAL implementation:
  * on ~6000 generated sibling lists (exhaustive short lists over a small
    pool of colliding names such as "A", "A (2)", "A (3)", "A L", "A (2) L",
    "", " " plus pseudo-random longer lists, files and directories mixed)
    with f_sanitize = identity / make_safe_name / make_export_name /
    a constant / case folding: same sequence of f_sanitize calls
    (name, is_file), same sequence of f_set calls (element, name), same
    returned list object, same order of attribute reads on the elements;
  * with f_sanitize returning None / ints / tuples / unhashable lists /
    raising, f_set raising midway, elements lacking `name` or `type_id`,
    elements given as tuple / generator / empty list: same outcome or the
    same exception type and message after the same calls;
  * a subclass whose _add_count_to_name always returns a taken name, which
    reaches the CouldNotDetermineName branch: same message;
  * end to end: ls_action on a synthetic Image tree with duplicated and
    near-duplicated raw names and on an AKAI image with duplicated volume
    names, for printed names, variations and unrelated paths, with the
    original method patched onto Image versus the tree's method: same
    stdout, and the printed sibling names are pairwise distinct.
Exit 0 when all agree, else 1.
"""
import contextlib
from dataclasses import dataclass
import io
import itertools
import os
import random
import shutil
import sys
import tempfile
from typing import Dict
from typing import List

import smpl_extract.actions as actions
from smpl_extract.akai.data_types import AKAI_PARTITION_MAGIC
from smpl_extract.akai.data_types import AKAI_SAT_ENTRY_CNT
from smpl_extract.akai.data_types import AKAI_SECTOR_SIZE
from smpl_extract.akai.data_types import AKAI_VOLUME_ENTRY_CNT
from smpl_extract.akai.data_types import FILE_TABLE_END_FLAG
from smpl_extract.base import ElementTypes
from smpl_extract.elements import LeafElement
from smpl_extract.structural import CouldNotDetermineName
from smpl_extract.structural import Image
from smpl_extract.structural import Traversable


# ---- ORIGINAL implementation (verbatim) -----------------------------------
def orig_sanitize_names_general(self, elements, f_sanitize, f_set):
    candidate_names: Dict[str, List] = {}
    for element in elements:
        is_file = element.type_id != ElementTypes.DirectoryEntry
        candidate_name = f_sanitize(element.name, is_file)

        if candidate_name not in candidate_names.keys():
            candidate_names[candidate_name] = []
        candidate_names[candidate_name].append(element)

    assigned_names = set()  # as in the tree after the numbering fix
    for name, subelements in candidate_names.items():
        if len(subelements) == 1:
            element = subelements[0]
            f_set(element, name)
            continue

        i = 0
        for element in subelements:
            i += 1
            if i > 1:
                next_name = self._add_count_to_name(name, i)
                j = 0
                while (next_name in candidate_names.keys() or next_name in assigned_names):
                    i += 1
                    j += 1
                    next_name = self._add_count_to_name(name, i)
                    if j > len(candidate_names.keys()):
                        # This should never(?) happen
                        raise CouldNotDetermineName(
                            "Unable to determine proper (sanitized) "
                            f"name for {element.name}. Too many name "
                            "collisions."
                        )
            else:
                next_name = name
            f_set(element, next_name)
            assigned_names.add(next_name)

    result = elements
    return result


new_sanitize_names_general = Image.sanitize_names_general


@contextlib.contextmanager
def original_world():
    saved = Image.sanitize_names_general
    Image.sanitize_names_general = orig_sanitize_names_general
    try:
        yield
    finally:
        Image.sanitize_names_general = saved


class BareImage(Image):
    name = "Bare"
    type_name = "Bare Image"

    def __init__(self):
        pass


class StubbornImage(BareImage):
    """Counter names that are always taken already."""
    def _add_count_to_name(self, name, count):
        return "TAKEN"


class Boom(Exception):
    pass


class Probe:
    """Element stand-in that records the order of attribute reads."""
    def __init__(self, index, name, type_id, log, missing=()):
        self._index = index
        self._name = name
        self._type_id = type_id
        self._log = log
        self._missing = missing

    @property
    def name(self):
        self._log.append(("read-name", self._index))
        if "name" in self._missing:
            raise AttributeError("name")
        return self._name

    @property
    def type_id(self):
        self._log.append(("read-type", self._index))
        if "type_id" in self._missing:
            raise AttributeError("type_id")
        return self._type_id

    def __repr__(self):
        return f"<probe {self._index}>"


def run_case(func, owner, spec, sanitize_kind, set_fail_at=None,
             container="list", missing_at=None):
    """spec: list of (name, is_dir)."""
    log = []
    probes = [
        Probe(
            n, name,
            ElementTypes.DirectoryEntry if is_dir else ElementTypes.SampleEntry,
            log,
            missing=missing_at[1] if missing_at and missing_at[0] == n else (),
        )
        for n, (name, is_dir) in enumerate(spec)
    ]
    if container == "tuple":
        elements = tuple(probes)
    elif container == "generator":
        elements = (p for p in probes)
    else:
        elements = probes

    def f_sanitize(name, is_file):
        log.append(("sanitize", name, is_file))
        if sanitize_kind == "identity":
            return name
        if sanitize_kind == "safe":
            return owner.make_safe_name(name, is_file)
        if sanitize_kind == "export":
            return owner.make_export_name(name, is_file)
        if sanitize_kind == "constant":
            return "SAME"
        if sanitize_kind == "upper":
            return name.upper()
        if sanitize_kind == "none":
            return None
        if sanitize_kind == "length":
            return len(name)
        if sanitize_kind == "tuple":
            return (name[:1], is_file)
        if sanitize_kind == "unhashable":
            return [name] if name.startswith("A (") else name
        if sanitize_kind == "raise":
            if name.endswith("L"):
                raise Boom(name)
            return name
        raise AssertionError(sanitize_kind)

    set_calls = []

    def f_set(element, name):
        log.append(("set", element._index, name))
        set_calls.append(name)
        if set_fail_at is not None and len(set_calls) > set_fail_at:
            raise Boom(f"set {element._index}")

    try:
        returned = func(owner, elements, f_sanitize, f_set)
        outcome = ("ok", returned is elements)
    except BaseException as exc:  # noqa: B902
        outcome = ("exc", type(exc).__name__, str(exc))
    return outcome, log


POOL = ["A", "A (2)", "A (3)", "A (4)", "A L", "A (2) L", "A -R", "B", "",
        " ", "a", "A  (2)", "(2)", "A (2) (2)"]


def generated_specs():
    small = ["A", "A (2)", "A (3)", "A L", "A (2) L", ""]
    for length in range(0, 5):
        for combo in itertools.product(small, repeat=length):
            yield [(name, False) for name in combo]
    rng = random.Random(1610)
    for _ in range(3500):
        length = rng.randint(1, 12)
        pool = rng.sample(POOL, rng.randint(1, len(POOL)))
        yield [(rng.choice(pool), rng.random() < 0.3) for _ in range(length)]
    # long runs of one name next to its own counter names
    for n in (5, 9, 15):
        yield [("A", False)] * n + [(f"A ({k})", False) for k in range(2, n)]
        yield [(f"A ({k})", False) for k in range(2, n)] + [("A", False)] * n
        yield [("X L", False)] * n + [("X (3) L", True), ("X (4) L", False)]


# ---- end to end -----------------------------------------------------------
@dataclass
class FakeLeaf(LeafElement):
    name: str = ""
    type_name: str = "Leaf"
    size: int = 7
    type_id = ElementTypes.SampleEntry


class FakeImage(Image):
    name = "Fake Image"
    type_name = "Fake Image"
    type_id = ElementTypes.DirectoryEntry

    def __init__(self, spec):
        Traversable.__init__(self, lambda ctx: self._make(spec, ctx, self))

    @staticmethod
    def _make(spec, ctx, parent):
        routines = ctx["_elem_routines"]
        made = []
        for entry in spec:
            if isinstance(entry, tuple):
                raw, sub = entry
                node = Traversable(
                    (lambda sub: lambda c: FakeImage._make(sub, c, None))(sub),
                    routines=routines, path=[raw], parent=parent,
                    type_name="Dir",
                )
                node.name = raw
            else:
                node = FakeLeaf(name=entry)
            made.append(node)
        return made


RAW_SPEC = [
    ("VOL", ["KICK", "KICK", "KICK (2)", "KICK", "SNARE L", "SNARE L",
             "SNARE (2) L", "SNARE R"]),
    ("VOL", ["x", "x", "x", "x (2)", "x (3)", "x (5)", "x"]),
    ("VOL (2)", ["a'b", "ab", "a b", "a:b", "a/b"]),
    ("vol", ["", "", " ", "''"]),
    "VOL",
    "LEAF",
    "LEAF",
    "LEAF (2)",
    "LEAF (2)",
]


def printed_names(listing):
    names = []
    # to_string() ends with a newline and print() adds one: drop that last
    # empty line, it is not a (blank-named) row
    rows = listing.splitlines()[2:]
    if listing.endswith("\n\n") and rows and rows[-1] == "":
        rows = rows[:-1]
    for line in rows:
        names.append(line[:20].rstrip() if len(line) >= 20 else line.rstrip())
    return names


def ls_text(image, path):
    buf = io.StringIO()
    with contextlib.redirect_stdout(buf):
        actions.ls_action(image, path)
    return buf.getvalue()


def ls_paths(image_factory):
    top = printed_names(ls_text(image_factory(), ""))
    distinct = len(set(top)) == len(top)
    paths = ["", " ", "/", "\\", "nope", "VOL (9)", "LEAF (3)", "(2)"]
    for name in top:
        paths += [name, " " + name + " ", name + "/", name.lower(),
                  name + "/nope", name[:-1], name + " (2)"]
        children = printed_names(ls_text(image_factory(), name))
        if "Item" in ls_text(image_factory(), name)[:4]:
            distinct = distinct and len(set(children)) == len(children)
            for child in children:
                paths += [name + "/" + child, name + "\\" + child + "\\",
                          name + "/" + child + " (2)"]
    return paths, distinct


def run_ls(image, path):
    buf = io.StringIO()
    try:
        with contextlib.redirect_stdout(buf):
            actions.ls_action(image, path)
        return ("ok", buf.getvalue())
    except BaseException as exc:  # noqa: B902
        return ("exc", type(exc).__name__, str(exc), buf.getvalue())


def akai_name(text):
    out = []
    for ch in text.ljust(12)[:12]:
        if ch.isdigit():
            out.append(ord(ch) - ord("0"))
        elif "A" <= ch <= "Z":
            out.append(0x0B + ord(ch) - ord("A"))
        else:
            out.append({" ": 0x0A, "#": 0x25, "+": 0x26, "-": 0x27,
                        ".": 0x28}[ch])
    return bytes(out)


def make_partition(sectors, volumes=()):
    header = (
        sectors.to_bytes(2, "little") + b"\x00\x00" + AKAI_PARTITION_MAGIC
        + bytes([0x55, 0xBA]) + b"\x2f\x00"
    )
    sat = [0] * AKAI_SAT_ENTRY_CNT
    entries = b""
    bodies = {}
    next_sector = 4
    for n in range(AKAI_VOLUME_ENTRY_CNT):
        if n < len(volumes):
            name, vtype = volumes[n]
            entries += (
                akai_name(name) + vtype.to_bytes(2, "little")
                + next_sector.to_bytes(2, "little")
            )
            sat[next_sector] = 0xC000
            body = bytearray(AKAI_SECTOR_SIZE)
            body[8:10] = FILE_TABLE_END_FLAG.to_bytes(2, "little")
            bodies[next_sector] = bytes(body)
            next_sector += 1
        else:
            entries += bytes([0x0A] * 12) + b"\x00\x00\x00\x00"
    for s in range(4):
        sat[s] = 0x4000
    sat_bytes = b"".join(v.to_bytes(2, "little") for v in sat)
    blob = bytearray(sectors * AKAI_SECTOR_SIZE)
    head = header + entries + sat_bytes
    blob[:len(head)] = head
    for sector, body in bodies.items():
        blob[sector * AKAI_SECTOR_SIZE:(sector + 1) * AKAI_SECTOR_SIZE] = body
    return bytes(blob)


def main():
    failures = 0
    checked = 0
    renamed = 0

    def compare(owner, spec, kind, **kwargs):
        nonlocal failures, checked
        expected = run_case(orig_sanitize_names_general, owner, spec, kind,
                            **kwargs)
        actual = run_case(new_sanitize_names_general, owner, spec, kind,
                          **kwargs)
        checked += 1
        if expected != actual:
            failures += 1
            if failures <= 5:
                print("MISMATCH", type(owner).__name__, spec, kind, kwargs)
                print("  expected", expected)
                print("  actual  ", actual)
        return expected

    bare = BareImage()
    stubborn = StubbornImage()
    kinds = ["identity", "safe", "export", "constant", "upper"]
    for n, spec in enumerate(generated_specs()):
        expected = compare(bare, spec, "identity")
        sets = [entry for entry in expected[1] if entry[0] == "set"]
        if any(entry[2] != spec[entry[1]][0] for entry in sets):
            renamed += 1
        compare(bare, spec, kinds[1 + n % 4])
        if n % 5 == 0:
            for kind in ("none", "length", "tuple", "unhashable", "raise"):
                compare(bare, spec, kind)
            for fail_at in (0, 1, 3):
                compare(bare, spec, "identity", set_fail_at=fail_at)
            compare(bare, spec, "identity", container="tuple")
            compare(bare, spec, "identity", container="generator")
            compare(stubborn, spec + [("TAKEN", False)], "identity")
            compare(stubborn, spec, "constant")
            if spec:
                where = n % len(spec)
                compare(bare, spec, "identity", missing_at=(where, ("name",)))
                compare(bare, spec, "upper",
                        missing_at=(where, ("type_id",)))
    if renamed < 500:
        print("too few cases needed a counter:", renamed)
        failures += 1
    probe = run_case(
        orig_sanitize_names_general, stubborn,
        [("TAKEN", False), ("A", False), ("A", False)], "identity")
    if probe[0][:2] != ("exc", "CouldNotDetermineName"):
        print("the collision-limit branch was not reached:", probe[0])
        failures += 1

    # end to end on the synthetic tree
    with original_world():
        paths, distinct = ls_paths(lambda: FakeImage(RAW_SPEC))
    if not distinct:
        print("printed sibling names are not pairwise distinct")
        failures += 1
    saw_found = saw_not_found = 0
    for path in paths:
        with original_world():
            expected = run_ls(FakeImage(RAW_SPEC), path)
        actual = run_ls(FakeImage(RAW_SPEC), path)
        checked += 1
        if "was not found" in expected[-1]:
            saw_not_found += 1
        elif expected[0] == "ok":
            saw_found += 1
        if expected != actual:
            failures += 1
            if failures <= 5:
                print("MISMATCH ls", repr(path))
                print("  expected", expected)
                print("  actual  ", actual)
    if saw_found < 20 or saw_not_found < 20:
        print("synthetic tree paths:", saw_found, "found,", saw_not_found,
              "not found - too few")
        failures += 1

    # end to end on an AKAI image file with duplicated volume names
    root = tempfile.mkdtemp()
    try:
        vols = (("VOL", 1), ("VOL", 3), ("VOL  2", 1), ("VOL", 3),
                ("LONE", 1))
        target = os.path.join(root, "akai.img")
        with open(target, "wb") as handle:
            handle.write(make_partition(10, vols) + make_partition(4, vols[:2]))
        for path in ["", "A", "a:", "B:/", "A/VOL", "A/VOL (2)/", "A/VOL (3)",
                     "A/VOL (4)", "A/VOL  2", "a/lone", "B/VOL (2)",
                     "B/VOL (3)", "C", "A/VOL (2)/x"]:
            with original_world():
                expected = run_ls(target, path)
            actual = run_ls(target, path)
            checked += 1
            if expected != actual:
                failures += 1
                print("MISMATCH akai ls", repr(path), expected, actual)
    finally:
        shutil.rmtree(root, ignore_errors=True)

    print(f"checked {checked} cases, {failures} mismatches")
    return 1 if failures else 0


if __name__ == "__main__":
    sys.exit(main())
