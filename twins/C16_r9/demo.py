"""Equivalence demo for r9: PerformanceEntry.files
(smpl_extract/roland/s7xx/performance_entry.py).

The live `files` property is compared with an inline copy of the ORIGINAL
implementation (installed on a subclass).  The two sub-adapters used by the
property (ProgramFileAdapter / SampleFileListAdapter) are replaced by logging
stubs in the module namespace, the patch list comes from a scripted
`_f_patch_entries` callable and the naming routines are scripted as well.
The same random scenario (patch lists, decoder results including tuples,
generators, non-iterables and exceptions, routines that copy / mutate /
return None / return [] / raise) and the same access script (`files`,
`children`, `patch_entries`, in random order, repeated) is replayed on a live
entry and on a reference entry; the complete event logs, returned values,
cache states and exceptions must agree.
"""
import random
import sys

from construct.core import Pass
from construct.lib.containers import Container

import smpl_extract.roland.s7xx.performance_entry as pe_mod
from smpl_extract.roland.s7xx.performance_entry import PerformanceEntry


class Boom(Exception):
    pass


# --------------------------------------------------------------------------
# logging stubs that replace the two adapters in the module namespace
# --------------------------------------------------------------------------
WORLD = None  # the currently replayed world (set by run_world)


class World:
    def __init__(self, scenario):
        self.scenario = scenario
        self.log = []
        self.entry = None
        self.tags = {}

    def tag(self, obj):
        """Stable, world-independent name for an object."""
        if obj is None or isinstance(obj, (int, str, bool)):
            return repr(obj)
        if obj is self.entry:
            return "<entry>"
        if isinstance(obj, Item):
            return obj.tag
        if isinstance(obj, (list, tuple)):
            return (type(obj).__name__, tuple(self.tag(x) for x in obj))
        if isinstance(obj, dict):
            return (
                type(obj).__name__,
                tuple((k, self.tag(v)) for k, v in obj.items())
            )
        if callable(obj):
            return "<callable %s>" % getattr(obj, "__name__", "?")
        return "<%s>" % type(obj).__name__


class Item:
    def __init__(self, tag):
        self.tag = tag

    def __repr__(self):
        return "Item(%s)" % self.tag


def describe_context(world, context):
    inner = context.get("_")
    return (
        type(context).__name__,
        tuple(context.keys()),
        type(inner).__name__,
        tuple(inner.keys()) if inner is not None else None,
        inner["_elem_parent"] is world.entry,
        inner["_elem_routines"] is world.entry._routines,
        context.get("scribble"),
    )


class _StubBase:
    kind = "?"

    def __init__(self, subcon):
        self.world = WORLD
        self.world.log.append(("construct", self.kind, subcon is Pass))
        self.calls = 0
        self.context_ids = set()

    def _decode(self, patch, context, path):
        world = self.world
        world.log.append((
            "decode", self.kind, world.tag(patch),
            describe_context(world, context), path
        ))
        # the decoders may leave marks in the shared context
        context["scribble"] = (context.get("scribble") or 0) + 1
        # keep the context alive so identities cannot be recycled
        if not any(context is c for c in world.contexts):
            world.contexts.append(context)
        behaviour = world.scenario["decode"][self.kind].get(patch.tag, "ok")
        return self.result(patch, behaviour)


class StubProgramAdapter(_StubBase):
    kind = "program"

    def result(self, patch, behaviour):
        if behaviour == "raise":
            raise Boom("program " + patch.tag)
        if behaviour == "none":
            return None
        return Item("prog:" + patch.tag)


class StubSampleListAdapter(_StubBase):
    kind = "samples"

    def result(self, patch, behaviour):
        tag = patch.tag
        if behaviour == "raise":
            raise Boom("samples " + tag)
        if behaviour == "empty":
            return []
        if behaviour == "tuple":
            return (Item("smp:%s:a" % tag), Item("smp:%s:b" % tag))
        if behaviour == "generator":
            world = self.world

            def gen():
                world.log.append(("gen-start", tag))
                yield Item("smp:%s:g1" % tag)
                world.log.append(("gen-mid", tag))
                yield Item("smp:%s:g2" % tag)
                world.log.append(("gen-end", tag))
            return gen()
        if behaviour == "bad-generator":
            world = self.world

            def gen():
                yield Item("smp:%s:g1" % tag)
                world.log.append(("gen-raise", tag))
                raise Boom("generator " + tag)
            return gen()
        if behaviour == "not-iterable":
            return 42
        if behaviour == "none":
            return None
        if behaviour == "string":
            return "xy"
        return [Item("smp:%s:1" % tag), Item("smp:%s:2" % tag),
                Item("smp:%s:3" % tag)][:1 + len(tag) % 3]


pe_mod.ProgramFileAdapter = StubProgramAdapter
pe_mod.SampleFileListAdapter = StubSampleListAdapter
# names used by the inline ORIGINAL below
ProgramFileAdapter = StubProgramAdapter
SampleFileListAdapter = StubSampleListAdapter


# --------------------------------------------------------------------------
# inline copy of the ORIGINAL implementation
# --------------------------------------------------------------------------
class OrigPerformanceEntry(PerformanceEntry):

    @property
    def files(self):
        if self._files is None:
            sc_program = ProgramFileAdapter(Pass)
            sc_samples = SampleFileListAdapter(Pass)
            patches = list(self.patch_entries)
            context = Container(_=Container(
                _elem_parent=self,
                _elem_routines=self._routines
            ))
            path = ""

            programs = []
            samples = []
            for patch in patches:
                program = sc_program._decode(
                    patch,
                    context,  # type: ignore
                    path
                )

                samples_result = sc_samples._decode(
                    patch,
                    context,  # type: ignore
                    path
                )

                programs.append(program)
                samples += samples_result

            files = programs + samples

            for routine in self._routines.values():
                files = routine(files)  # type: ignore
            self._files = files

        return self._files


# --------------------------------------------------------------------------
# scenario generation
# --------------------------------------------------------------------------
SAMPLE_BEHAVIOURS = [
    "ok", "ok", "ok", "ok", "empty", "tuple", "generator", "bad-generator",
    "not-iterable", "none", "string", "raise",
]
PROGRAM_BEHAVIOURS = ["ok", "ok", "ok", "ok", "ok", "none", "raise"]
ROUTINE_KINDS = [
    "identity", "copy", "reverse-copy", "mutate", "drop-first", "none",
    "empty", "raise", "raise-once", "tuple",
]
PATCH_SOURCES = ["list", "list", "list", "tuple", "generator", "empty",
                 "none", "raise", "raise-once"]


def make_scenario(rng, hostile):
    n = rng.randrange(0, 6)
    patch_tags = ["p%d" % i for i in range(n)]
    decode = {"program": {}, "samples": {}}
    for t in patch_tags:
        if hostile:
            decode["program"][t] = rng.choice(PROGRAM_BEHAVIOURS)
            decode["samples"][t] = rng.choice(SAMPLE_BEHAVIOURS)
        else:
            decode["program"][t] = "ok"
            decode["samples"][t] = rng.choice(
                ["ok", "ok", "empty", "tuple", "generator"]
            )
    if hostile:
        routines = [rng.choice(ROUTINE_KINDS) for _ in range(rng.randrange(0, 4))]
        source = rng.choice(PATCH_SOURCES)
    else:
        routines = [
            rng.choice(["identity", "copy", "reverse-copy", "mutate"])
            for _ in range(rng.randrange(0, 4))
        ]
        source = rng.choice(["list", "tuple", "generator", "empty"])
    script = [
        rng.choice(["files", "files", "children", "patch_entries", "peek"])
        for _ in range(rng.randrange(1, 7))
    ]
    return {
        "patch_tags": patch_tags,
        "decode": decode,
        "routines": routines,
        "source": source,
        "script": script,
        "drop_routines_at": rng.choice([None, None, None, 1, 2]),
    }


def make_routine(world, index, kind):
    state = {"calls": 0}

    def routine(files):
        state["calls"] += 1
        world.log.append(("routine", index, kind, world.tag(files)))
        if kind == "identity":
            return files
        if kind == "copy":
            return list(files)
        if kind == "reverse-copy":
            return list(reversed(files))
        if kind == "mutate":
            files.append(Item("added-by-%d-%d" % (index, state["calls"])))
            return files
        if kind == "drop-first":
            return files[1:]
        if kind == "none":
            return None
        if kind == "empty":
            return []
        if kind == "tuple":
            return tuple(files)
        if kind == "raise":
            raise Boom("routine %d" % index)
        if kind == "raise-once":
            if state["calls"] == 1:
                raise Boom("routine %d once" % index)
            return files
        raise AssertionError(kind)
    routine.__name__ = "routine_%d_%s" % (index, kind)
    return routine


def make_patch_source(world):
    scenario = world.scenario
    state = {"calls": 0}

    def f_patch_entries(added_context):
        state["calls"] += 1
        world.log.append((
            "patch_entries", state["calls"],
            tuple(added_context.keys()),
            added_context["_elem_parent"] is world.entry,
            added_context["_elem_routines"] is world.entry._routines,
            added_context["fat"],
        ))
        patches = [Item(t) for t in scenario["patch_tags"]]
        source = scenario["source"]
        if source == "list":
            return patches
        if source == "tuple":
            return tuple(patches)
        if source == "generator":
            return (p for p in patches)
        if source == "empty":
            return []
        if source == "none":
            return None
        if source == "raise":
            raise Boom("patch entries")
        if source == "raise-once":
            if state["calls"] == 1:
                raise Boom("patch entries once")
            return patches
        raise AssertionError(source)
    return f_patch_entries


def run_world(cls, scenario):
    global WORLD
    world = World(scenario)
    world.contexts = []
    WORLD = world
    routines = {}
    for i, kind in enumerate(scenario["routines"]):
        routines["r%d" % i] = make_routine(world, i, kind)
    entry = cls(
        directory_name="PERF",
        parameter_name="perf",
        _fat="FAT",
        _f_patch_entries=make_patch_source(world),
        _parent=None,
        _path=["PERF"],
        _routines=routines,
    )
    world.entry = entry
    results = []
    for step, op in enumerate(scenario["script"]):
        if scenario["drop_routines_at"] == step:
            entry.set_routines({})
            world.log.append(("set_routines", step))
        try:
            if op == "files":
                value = entry.files
            elif op == "children":
                value = entry.children
            elif op == "patch_entries":
                value = entry.patch_entries
                value = ("patch_entries-type", type(value).__name__)
            else:
                value = ("peek", world.tag(entry._files))
            outcome = ("ok", world.tag(value))
            if op in ("files", "children"):
                # what is handed out must be the cached object itself
                outcome += (value is entry._files,)
        except Exception as exc:  # noqa: BLE001 - everything is compared
            outcome = ("exc", type(exc).__name__, str(exc))
        results.append((op, outcome, world.tag(entry._files)))
    world.log.append(("distinct-contexts", len(world.contexts)))
    return results, world.log


def identity_stability_check():
    """Repeated access hands out the very same list and realises only once."""
    failures = 0
    for cls in (PerformanceEntry,):
        scenario = {
            "patch_tags": ["p0", "p1", "p2"],
            "decode": {"program": {}, "samples": {}},
            "routines": ["copy", "mutate"],
            "source": "list",
            "script": [],
            "drop_routines_at": None,
        }
        global WORLD
        world = World(scenario)
        world.contexts = []
        WORLD = world
        routines = {
            "r0": make_routine(world, 0, "copy"),
            "r1": make_routine(world, 1, "mutate"),
        }
        entry = cls(
            directory_name="P", _f_patch_entries=make_patch_source(world),
            _path=["P"], _routines=routines, _fat=None
        )
        world.entry = entry
        first = entry.files
        n_events = len(world.log)
        second = entry.files
        third = entry.children
        if not (first is second is third is entry._files):
            print("identity check failed")
            failures += 1
        if len(world.log) != n_events:
            print("re-realisation on second access")
            failures += 1
        expected = [
            "prog:p0", "prog:p1", "prog:p2",
            "smp:p0:1", "smp:p0:2", "smp:p0:3",
            "smp:p1:1", "smp:p1:2", "smp:p1:3",
            "smp:p2:1", "smp:p2:2", "smp:p2:3",
            "added-by-1-1",
        ]
        if [x.tag for x in first] != expected:
            print("unexpected content", [x.tag for x in first])
            failures += 1
    return failures


def main():
    rng = random.Random(20160916)
    failures = 0
    n_cases = 0
    for case in range(6000):
        scenario = make_scenario(rng, hostile=(case % 3 != 0))
        live = run_world(PerformanceEntry, scenario)
        ref = run_world(OrigPerformanceEntry, scenario)
        n_cases += 1
        if live != ref:
            failures += 1
            if failures <= 5:
                print("MISMATCH in case", case, scenario)
                for a, b in zip(live[0] + live[1], ref[0] + ref[1]):
                    if a != b:
                        print("  live:", a)
                        print("  ref: ", b)
                        break
    failures += identity_stability_check()
    print("cases: %d  failures: %d" % (n_cases, failures))
    return 1 if failures else 0


if __name__ == "__main__":
    sys.exit(main())
