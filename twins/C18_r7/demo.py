"""Equivalence demo for r7: MidiNote.from_string (groups unpacked once,
keyword construction, no rebinding of the parameter) and MidiNote.to_string
(if/else statement, '+' concatenation).  Compares against inline copies of the
ORIGINAL method bodies."""
import itertools
import random
import re
import sys

from smpl_extract import midi
from smpl_extract.midi import MIDI_NOTE_STR_REGEX, MidiNote, ScaleDegree


def orig_to_string(self):
    scale_degree_string = str(self.scale_degree)
    is_sharp_string = "#" if self.is_sharp else ""
    octave_string = str(self.octave)
    return "".join([
        scale_degree_string,
        is_sharp_string,
        octave_string
    ])


def orig_from_string(cls, input):
    input = input.upper().strip()
    matches = MIDI_NOTE_STR_REGEX.match(input)
    if matches is None:
        raise re.error("Could not parse note")
    scale_degree = ScaleDegree.from_string(matches.groups()[0])
    is_sharp = len(matches.groups()[1]) > 0
    octave = int(matches.groups()[2])
    result = cls(scale_degree, is_sharp, octave)
    return result


def describe(value):
    if isinstance(value, MidiNote):
        return ("MidiNote", type(value).__name__,
                repr(value.scale_degree), type(value.scale_degree).__name__,
                repr(value.is_sharp), type(value.is_sharp).__name__,
                repr(value.octave), type(value.octave).__name__)
    return (type(value).__name__, repr(value))


def outcome(fn, *args):
    try:
        return ("ok", describe(fn(*args)))
    except BaseException as exc:  # noqa: BLE001
        return ("exc", type(exc).__name__, repr(exc.args))


FAIL = 0
CHECKED = 0


def same(a, b, what):
    global FAIL, CHECKED
    CHECKED += 1
    if a != b:
        FAIL += 1
        if FAIL < 20:
            print("MISMATCH", what, a, b)


class SubNote(MidiNote):
    pass


def main():
    rnd = random.Random(7)

    # ---- to_string over all degrees x sharp x octaves, plus odd field values
    sharps = [False, True, 0, 1, None, "", "x", [], [0]]
    octaves = list(range(-3, 13)) + [None, "4", 2.5, 10 ** 20]
    degrees = list(ScaleDegree) + [0, 3]
    for d, s, o in itertools.product(degrees, sharps, octaves):
        note = MidiNote(d, s, o)
        same(outcome(orig_to_string, note), outcome(MidiNote.to_string, note),
             ("to_string", d, s, o))
        same(outcome(orig_to_string, note), outcome(str, note), ("str", d, s, o))
        same(outcome(orig_to_string, note), outcome(note.itemize),
             ("itemize", d, s, o))
        same(outcome(lambda n: f"MidiNote({orig_to_string(n)})", note),
             outcome(repr, note), ("repr", d, s, o))
    for bad in [MidiNote("A", False, 1), MidiNote(None, False, 1)]:
        same(outcome(orig_to_string, bad), outcome(MidiNote.to_string, bad),
             ("to_string-bad", bad.scale_degree))

    # ---- from_string: the whole 12 x 10 name grid and every sharp/flat combo
    texts = []
    for letter in "ABCDEFGabcdefg":
        for sharp in ("", "#"):
            for octv in "0123456789":
                texts.append(letter + sharp + octv)
    texts += ["", " ", "A", "A#", "#4", "H3", "h3", "A##3", "Ab3", "A-1",
              "  c#4  ", "\tC3\n", "C3 trailing", "C10", "C#10", "xC3", "3C",
              "A٣", "a٣", "C#٩", "ßA3", "A #3", "A# 3",
              "A3#", "G#9zzz", "K3", "c♯4", "C＃4", "Ａ3", "A３",
              "E#2", "B#7", "e#0", "b#9", "\x00A3", "A3\x00"]
    alphabet = "ABCDEFGHabcdefgh#0123456789 \t-b٣"
    for n in range(0, 6):
        for _ in range(400):
            texts.append("".join(rnd.choice(alphabet) for _ in range(n)))
    # every string of length <= 3 over a small alphabet
    small = "AaGgH#09 "
    for n in (1, 2, 3):
        for tup in itertools.product(small, repeat=n):
            texts.append("".join(tup))
    non_strings = [None, 3, b"C3", ["C3"], 4.0]

    for cls in (MidiNote, SubNote):
        for t in texts + non_strings:
            same(outcome(orig_from_string, cls, t), outcome(cls.from_string, t),
                 ("from_string", cls.__name__, t))

    # ---- round trip promised by the property: octaves 0-9, all names
    for d in ScaleDegree:
        for s in (False, True):
            for o in range(10):
                note = MidiNote(d, s, o)
                same(note, MidiNote.from_string(note.to_string()),
                     ("roundtrip", d, s, o))
    # and the number <-> note codecs still agree with the text codec
    for b in range(256):
        note = MidiNote.from_akai_byte(b)
        same(b, note.to_akai_byte(), ("akai-byte", b))
        same(outcome(orig_to_string, note), outcome(note.to_string),
             ("byte-to_string", b))

    print("checked", CHECKED, "failures", FAIL)
    return 1 if FAIL else 0


if __name__ == "__main__":
    sys.exit(main())
