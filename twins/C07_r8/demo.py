"""Equivalence demo for r8: RolandFileAllocationTable.get_file (smpl_extract/roland/s7xx/fat.py).

Compares the module's get_file against an inline copy of the ORIGINAL
implementation over every small link table (exhaustive), every start sector and
a range of cluster offsets (negative, zero, positive, beyond the chain, bools and
ill-typed ones), plus random larger tables.  Compared: exception type/message or
the resulting stream's class, sector list, sector size, size, parent stream,
position, and the bytes read through it.
"""
import io
import itertools
import random
import sys

from smpl_extract.roland.s7xx.data_types import ROLAND_CLUSTER_SIZE
from smpl_extract.roland.s7xx.fat import RolandFile
from smpl_extract.roland.s7xx.fat import RolandFileAllocationTable
from smpl_extract.util.fat import SectorLink


def original_get_file(self, index, cluster_offset=0):
    sector_list = self.get_path(index)
    if cluster_offset > 0:
        sector_list = sector_list[cluster_offset:]
    result = RolandFile(
        self.parent_stream,
        sector_list
    )
    return result


_MISSING = object()


def make_image(num_sectors):
    chunks = []
    for k in range(num_sectors):
        head = bytes([k + 1]) * 16
        chunks.append(head + bytes(ROLAND_CLUSTER_SIZE - 32) + head[::-1])
    return b"".join(chunks)


def observe(fn, read_bytes):
    try:
        f = fn()
    except BaseException as exc:  # noqa
        return ("exc", type(exc).__name__, str(exc))
    out = [
        "ret",
        type(f).__name__,
        type(f.sector_list).__name__,
        list(f.sector_list),
        f.sector_length,
        f.end_of_file,
        f.buffer_length,
        id(f.substream),
        f.tell(),
    ]
    if read_bytes:
        try:
            out.append(f.read(None))
        except BaseException as exc:  # noqa
            out.append(("read-exc", type(exc).__name__, str(exc)))
        out.append(f.tell())
    return out


def main():
    checked = 0
    bad = 0
    image = make_image(6)

    def check(links, size, start, offset, read_bytes):
        nonlocal checked, bad
        stream_a = io.BytesIO(image)
        stream_b = io.BytesIO(image)
        table_a = RolandFileAllocationTable(stream_a, size, list(links))
        table_b = RolandFileAllocationTable(stream_b, size, list(links))
        if offset is _MISSING:
            a = observe(lambda: original_get_file(table_a, start), read_bytes)
            b = observe(lambda: table_b.get_file(start), read_bytes)
        else:
            a = observe(lambda: original_get_file(table_a, start, offset), read_bytes)
            b = observe(lambda: table_b.get_file(start, offset), read_bytes)
            # keyword spelling of the public parameter names
            c = observe(
                lambda: table_b.get_file(index=start, cluster_offset=offset), False
            )
            if c[:9] != b[:9] and not (a[0] == "exc" and c == b):
                a = ("keyword call differs", c)
        # parent stream identity differs between the two tables by design
        if a[0] == "ret" and b[0] == "ret":
            ok = (a[7] == id(stream_a) and b[7] == id(stream_b))
            a = a[:7] + a[8:]
            b = b[:7] + b[8:]
        else:
            ok = True
        checked += 1
        if not ok or a != b or stream_a.tell() != stream_b.tell():
            bad += 1
            if bad < 10:
                print("MISMATCH", [(x.next, x.end) for x in links], size, start,
                      offset, str(a)[:200], str(b)[:200])

    offsets = [_MISSING, -7, -1, 0, 1, 2, 3, 4, 5, 9, True, False]
    odd_offsets = [None, "1", 0.0, 0.5, 1.0, -0.5, float("nan"), 2 ** 70, -2 ** 70]

    # exhaustive small tables (n entries, links in range or one past the end)
    for n in range(0, 4):
        entry_values = [
            SectorLink(next=nxt, end=end)
            for nxt in range(0, n + 1)
            for end in (False, True)
        ]
        for entries in itertools.product(entry_values, repeat=n):
            for size in (0, n, n + 1):
                for start in range(-1, n + 1):
                    for offset in offsets:
                        check(entries, size, start, offset, False)

    # well-formed and damaged chains, with the bytes read back through the stream
    chain_tables = []
    for perm in itertools.permutations(range(5), 5):
        if perm[0] > 1:
            continue
        links = [SectorLink()] * 6
        for a_, b_ in zip(perm, perm[1:]):
            links[a_] = SectorLink(next=b_, end=False)
        links[perm[-1]] = SectorLink(next=0, end=True)
        chain_tables.append((links, perm[0]))
    for links, start in chain_tables:
        for offset in offsets + odd_offsets:
            check(links, 6, start, offset, True)
        # ill-typed offset together with a bad start sector: which error wins
        for offset in odd_offsets:
            check(links, 6, 17, offset, False)
            check(links, 0, start, offset, False)

    rng = random.Random(808)
    for _ in range(3000):
        n = 6
        links = [
            SectorLink(next=rng.randrange(0, n + 1), end=rng.random() < 0.3)
            for _ in range(n)
        ]
        check(links, rng.choice([0, 3, 6, 7]), rng.randrange(-2, n + 2),
              rng.choice(offsets + odd_offsets), True)

    print(f"checked {checked} cases, {bad} mismatches")
    return 1 if bad else 0


if __name__ == "__main__":
    sys.exit(main())
