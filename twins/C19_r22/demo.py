"""Equivalence demo for the FirFilter.reset_state refactoring (fir.pyx).

FirFilter.reset_state is what the flush (FirFilter.get_remaining) calls to
throw the delayed tail away, and what callers use to install a history.  The
edit turns `x_prev = kwargs.get("x_prev", None); x_prev = x_prev or zeros;
self.x_prev = x_prev` into a guard clause with an early return (`history =
kwargs.get("x_prev"); if history: self.x_prev = history; return` /
`self.x_prev = np.zeros(self.m1)`), renames the local and drops the redundant
None default of dict.get.

fir.pyx ships pre-built and Cython is not installed, so the edited text has no
runtime effect on the compiled module.  To still exercise the *edited text*,
the pure-Python `class FirFilter` block is cut out of
smpl_extract/filters/fir.pyx and exec'd; it is compared against
  (a) an inline copy of the ORIGINAL class text, exec'd the same way, and
  (b) the compiled class.

Scenarios: reset_state with every kind of x_prev (missing, None, falsy and
truthy scalars / sequences / arrays, ambiguous arrays, objects whose __bool__
counts its calls or raises), unrelated keywords, positional arguments, broken
instances (m1 missing / negative / not an int), identity of the stored
history, return values; then the flush itself for all delay offsets of random
kernels over every composition of short signals and random splits of longer
ones, with resets in between.

Exit 0 when everything agrees, 1 otherwise.
"""
import os
import random
import sys
import warnings
from typing import Optional

import numpy as np

import smpl_extract.filters.fir as compiled

warnings.simplefilter("ignore")

PYX = os.path.join(os.path.dirname(os.path.abspath(compiled.__file__)), "fir.pyx")

ORIGINAL_CLASS = '''\
class FirFilter:


    def __init__(self, h: np.ndarray, delay_offset: int = 0) -> None:
        self.N = len(h)
        self.h = h
        self.m0 = delay_offset
        self.m1 = self.N - self.m0 - 1
        self.x_prev = np.zeros(self.m1)


    def reset_state(self, **kwargs):
        x_prev = kwargs.get("x_prev", None)
        x_prev = x_prev or np.zeros(self.m1)
        self.x_prev = x_prev


    def convolve_valid(self, x: np.ndarray, h: np.ndarray) -> np.ndarray:
        if np.size(x) < np.size(h):
            return np.asarray([], dtype=x.dtype)
        y = np.convolve(x, h, "valid")
        return y


    def process(self, x: np.ndarray) -> np.ndarray:
        dtype = x.dtype
        x_full = np.concatenate([self.x_prev, x])
        self.x_prev = x[-(self.N - 1):]
        y = self.convolve_valid(x_full, self.h).astype(dtype)
        return y


    def get_remaining(self) -> np.ndarray:
        dtype = self.x_prev.dtype
        x_full = np.concatenate([self.x_prev, np.zeros(self.m0)])
        y = self.convolve_valid(x_full, self.h).astype(dtype)
        self.reset_state()
        return y
'''


def _cut_class(lines, name):
    start = next(i for i, l in enumerate(lines) if l.startswith("class " + name))
    end = len(lines)
    for j in range(start + 1, len(lines)):
        l = lines[j]
        if l.strip() and not l[0].isspace():
            end = j
            break
    return "".join(lines[start:end])


def _load(text, label):
    ns = {"np": np, "Optional": Optional}
    exec(compile(text, label, "exec"), ns)
    return ns["FirFilter"]


def load_text():
    with open(PYX, "r", encoding="utf-8") as fh:
        lines = fh.readlines()
    return _load(_cut_class(lines, "FirFilter"), "<fir.pyx FirFilter text>")


Orig = _load(ORIGINAL_CLASS, "<original fir.pyx FirFilter>")
Text = load_text()
Comp = compiled.FirFilter

failures = []
checks = 0


def describe(v):
    if isinstance(v, np.ndarray):
        return ("nd", str(v.dtype), v.shape, v.tobytes(), v.flags.writeable)
    if isinstance(v, (list, tuple)):
        return (type(v).__name__,) + tuple(describe(e) for e in v)
    if isinstance(v, Probe):
        return ("Probe", repr(v.truth), v.calls)
    return (type(v).__name__, repr(v))


def outcome(fn):
    try:
        return ("ok", describe(fn()))
    except BaseException as exc:  # noqa: BLE001 - compared, not swallowed
        return ("exc", type(exc).__name__, str(exc))


def check(label, *results):
    global checks
    checks += 1
    if any(r != results[0] for r in results[1:]):
        failures.append(label)
        print("MISMATCH", label)
        for r in results:
            print("   ", str(r)[:300])


def state(f):
    d = vars(f)
    return tuple((k, describe(d[k])) for k in sorted(d))


class Probe:
    """Truth value under observation: counts / raises in __bool__."""

    def __init__(self, truth):
        self.truth = truth
        self.calls = 0

    def __bool__(self):
        self.calls += 1
        if isinstance(self.truth, Exception):
            raise self.truth
        return self.truth


class LenOnly:
    def __init__(self, n):
        self.n = n
        self.calls = 0

    def __len__(self):
        self.calls += 1
        return self.n

    def __repr__(self):
        return "LenOnly(%d, calls=%d)" % (self.n, self.calls)


def x_prev_values():
    return [
        None, 0, 1, -1, 0.0, 2.5, float("nan"), "", "abc", b"", b"x", [], [0], [1, 2, 3], (), (0,),
        {}, {"a": 1}, False, True,
        np.zeros(0), np.zeros(1), np.ones(1), np.asarray([0.0, 0.0]), np.asarray([1.0, 2.0, 3.0]),
        np.asarray(0.0), np.asarray(7), np.zeros((0, 3)), np.zeros((1, 1)), np.ones((1, 1)),
        np.asarray([5], dtype=np.int16), np.asarray(["a"]), np.asarray([""]),
        Probe(True), Probe(False), Probe(RuntimeError("no truth")), Probe(KeyboardInterrupt()),
        LenOnly(0), LenOnly(3), object,
    ]


def reset_scenarios(cls):
    out = []
    kernels = [(np.asarray([1.0, 2.0, 3.0]), 0), (np.asarray([1.0, 2.0, 3.0]), 1),
               (np.asarray([1.0, 2.0, 3.0]), 2), (np.asarray([0.5]), 0), (np.arange(8.0), 3)]
    for h, off in kernels:
        n_values = len(x_prev_values())
        for i in range(n_values):
            v = x_prev_values()[i]
            f = cls(h, off)
            f.process(np.asarray([1.0, -2.0, 4.0, 8.0, -16.0]))
            before = f.x_prev
            r = outcome(lambda: f.reset_state(x_prev=v))
            out.append((off, i, r, state(f), f.x_prev is v, f.x_prev is before, describe(v)))
            # a second reset on top, and the flush after an installed history
            r2 = outcome(lambda: f.reset_state())
            out.append((off, i, "again", r2, state(f)))
            r3 = outcome(lambda: f.reset_state(x_prev=v, y_prev=v, anything=1))
            out.append((off, i, "extra kw", r3, state(f), f.x_prev is v))
            r4 = outcome(f.get_remaining)
            out.append((off, i, "flush", r4, state(f)))
        f = cls(h, off)
        out.append(("no kw", outcome(lambda: f.reset_state()), state(f)))
        out.append(("other kw", outcome(lambda: f.reset_state(y_prev=np.ones(3))), state(f)))
        out.append(("positional", outcome(lambda: f.reset_state(np.ones(2)))[:2], state(f)))
        out.append(("positional None", outcome(lambda: f.reset_state(None))[:2], state(f)))
        out.append(("return value", f.reset_state() is None, f.reset_state(x_prev=[1]) is None))
        fresh1, fresh2 = (f.reset_state(), f.x_prev)[1], (f.reset_state(), f.x_prev)[1]
        out.append(("fresh silence each time", fresh1 is fresh2, describe(fresh1)))
    # broken / unusual instances: which error shows up, and only on the silent path
    for m1 in [-1, -5, 2.0, 2.5, None, "3", (2, 2), np.int64(4), True, 0]:
        f = cls(np.asarray([1.0, 2.0, 3.0]))
        f.m1 = m1
        out.append(("m1", repr(m1), outcome(lambda: f.reset_state()), state(f)))
        out.append(("m1 history", repr(m1), outcome(lambda: f.reset_state(x_prev=[9])), state(f)))
        out.append(("m1 falsy", repr(m1), outcome(lambda: f.reset_state(x_prev=[])), state(f)))
    f = cls(np.asarray([1.0, 2.0, 3.0]))
    del f.m1
    out.append(("no m1, history", outcome(lambda: f.reset_state(x_prev=(1, 2))), state(f)))
    out.append(("no m1, silence", outcome(lambda: f.reset_state()), state(f)))
    # constructor paths that end in a reset-like zero history
    for off in [-2, 0, 1, 2, 3, 5]:
        out.append(("ctor", off, outcome(lambda: state(cls(np.asarray([1.0, 2.0, 3.0]), off)))))
    return out


def compositions(n):
    for mask in range(1 << (n - 1)):
        parts, start = [], 0
        for i in range(n - 1):
            if mask >> i & 1:
                parts.append((start, i + 1))
                start = i + 1
        parts.append((start, n))
        yield parts


def stream(cls, h, off, blocks, reset_every=None, history=None):
    f = cls(h, off)
    if history is not None:
        f.reset_state(x_prev=history)
    trace = [state(f)]
    for k, b in enumerate(blocks):
        trace.append(outcome(lambda: f.process(b)))
        trace.append(state(f))
        if reset_every and (k + 1) % reset_every == 0:
            trace.append(outcome(lambda: f.reset_state()))
            trace.append(state(f))
    trace.append(outcome(f.get_remaining))
    trace.append(state(f))
    trace.append(outcome(f.get_remaining))      # flushed twice: second one sees silence
    trace.append(state(f))
    return trace


def main():
    rng = random.Random(2219)
    nprng = np.random.default_rng(2219)

    a, b, c = reset_scenarios(Text), reset_scenarios(Orig), reset_scenarios(Comp)
    check("number of reset scenarios", len(a), len(b), len(c))
    for i, (ra, rb, rc) in enumerate(zip(a, b, c)):
        check("reset scenario %d %r" % (i, ra[:2]), ra, rb, rc)

    # the flush: all delay offsets, every composition of short signals
    for n_taps in range(1, 6):
        h = nprng.standard_normal(n_taps)
        for off in range(0, n_taps):
            for n in range(1, 9):
                sig = nprng.standard_normal(n) * 100
                for parts in compositions(n):
                    blocks = [sig[s:e] for s, e in parts]
                    check("compositions taps=%d off=%d n=%d %r" % (n_taps, off, n, parts),
                          stream(Text, h, off, blocks), stream(Orig, h, off, blocks),
                          stream(Comp, h, off, blocks))

    # random splits of longer signals, integer and float, with resets / histories
    for trial in range(250):
        n_taps = rng.randint(1, 19)
        off = rng.randint(0, n_taps - 1)
        h = nprng.standard_normal(n_taps) if trial % 2 else nprng.integers(-9, 10, size=n_taps)
        n = rng.randint(1, 300)
        if trial % 3 == 0:
            sig = nprng.integers(-32768, 32768, size=n).astype(np.int16)
        elif trial % 3 == 1:
            sig = np.asarray([32767, -32768], dtype=np.int16)[nprng.integers(0, 2, size=n)]
        else:
            sig = nprng.standard_normal(n) * 1e4
        cuts = sorted(set(rng.sample(range(1, n), min(n - 1, rng.randint(0, 10))))) if n > 1 else []
        edges = [0] + cuts + [n]
        blocks = [sig[s:e] for s, e in zip(edges, edges[1:])]
        reset_every = rng.choice([None, 1, 2, 3])
        history = rng.choice([None, "one", "full"])
        if history == "one":
            history = np.asarray([float(rng.randint(1, 9))])
        elif history == "full":
            history = nprng.standard_normal(n_taps - off - 1) + 10.0
            if history.size != 1:          # ambiguous / empty truth value: still compared
                pass
        args = (h, off, blocks, reset_every, history)
        check("random split %d" % trial,
              outcome(lambda: stream(Text, *args)), outcome(lambda: stream(Orig, *args)),
              outcome(lambda: stream(Comp, *args)))

    print("checks:", checks, "failures:", len(failures))
    return 1 if failures else 0


if __name__ == "__main__":
    sys.exit(main())
