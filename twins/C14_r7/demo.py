"""Equivalence demo for r7 (smpl_extract/roland/s7xx/performance_entry.py,
PerformanceEntryAdapter._decode_element - the two "inherit from the parent
context" try/except blocks).

The live method is compared against an inline copy of the ORIGINAL one.

 1. direct: _decode_element is called with a hand-made container and many
    context shapes: with/without "_", "_" lacking "fat" or "_dir_version",
    values None/0/False/objects, pre-existing "fat"/"_dir_version" in the
    outer context, plain dict / construct Container / a logging mapping that
    records the ORDER of every __getitem__/__setitem__, and hostile mappings
    whose __setitem__ or __getitem__ raise KeyError/TypeError/ValueError.
    Compared: returned PerformanceEntry (all fields), context contents
    afterwards, access log, exception type/args.
 2. wrapped realization: the closure stored in _f_patch_entries must see the
    same (mutated) context object.
 3. parsed: PerformanceEntryAdapter(PerformanceEntryConstruct(...)) run on a
    synthetic Roland-style byte image (good and damaged records) with the
    original method swapped in through a subclass.

Exit 0 when everything agrees, 1 otherwise.
"""
import dataclasses
import io
import random
import struct
import sys
from typing import cast

from construct.core import ConstructError
from construct.lib.containers import Container

import smpl_extract.roland.s7xx.performance_entry as pe
from smpl_extract.roland.s7xx.data_types import PERFORMANCE_DIRECTORY_AREA_OFFSET
from smpl_extract.roland.s7xx.data_types import PERFORMANCE_DIRECTORY_ENTRY_SIZE
from smpl_extract.roland.s7xx.data_types import PERFORMANCE_PARAMETER_AREA_OFFSET
from smpl_extract.roland.s7xx.data_types import PERFORMANCE_PARAMETER_ENTRY_SIZE
from smpl_extract.roland.s7xx.performance_entry import PerformanceEntry
from smpl_extract.roland.s7xx.performance_entry import PerformanceEntryAdapter
from smpl_extract.roland.s7xx.performance_entry import PerformanceEntryConstruct
from smpl_extract.roland.s7xx.performance_entry import PerformanceEntryContainer
from smpl_extract.roland.s7xx.performance_entry import PerformanceParamCommon
from smpl_extract.roland.s7xx.performance_entry import PerformanceParamEntryContainer
from smpl_extract.util.constructs import ChildInfo
from smpl_extract.util.dataclass import get_common_field_args


# ---------------------------------------------------------------- original
def orig_decode_element(self, obj, child_info, context, path):
    del path

    container = cast(PerformanceEntryContainer, obj)

    parent = child_info.parent
    name = container.directory.name
    performance_path = child_info.parent_path + [name]

    common_args = get_common_field_args(
        PerformanceParamCommon,
        container.parameter
    )

    try:
        fat = context["_"]["fat"]
        context["fat"] = fat
    except KeyError as e:
        fat = None

    performance = PerformanceEntry(
        **common_args,
        directory_name=container.directory.name,
        parameter_name=container.parameter.name,
        _f_patch_entries=self.wrap_child_realization(
            container.patch_entries,
            context
        ),
        _fat=fat,
        _parent=parent,
        _path=performance_path,
        _routines=child_info.routines
    )

    try:
        dir_version = context["_"]["_dir_version"]
        context["_dir_version"] = dir_version
    except KeyError as e:
        pass

    return performance


class OrigAdapter(PerformanceEntryAdapter):
    _decode_element = orig_decode_element


failures = []
checked = 0


def check(cond, msg):
    global checked
    checked += 1
    if not cond:
        failures.append(msg)


# ---------------------------------------------------------------- mappings
LOG = []


class LoggingDict(dict):
    """dict that records every item access, in order."""

    label = "?"

    def __getitem__(self, key):
        LOG.append((self.label, "get", key))
        return super().__getitem__(key)

    def __setitem__(self, key, value):
        LOG.append((self.label, "set", key, repr(value)))
        super().__setitem__(key, value)

    def keys(self):
        LOG.append((self.label, "keys"))
        return super().keys()


class SetRaises(LoggingDict):
    """__setitem__ raises the configured exception for the configured key."""

    bad_key = None
    exc = KeyError

    def __setitem__(self, key, value):
        if key == self.bad_key:
            LOG.append((self.label, "set-raises", key))
            raise self.exc(key)
        super().__setitem__(key, value)


class GetRaises(LoggingDict):

    bad_key = None
    exc = KeyError

    def __getitem__(self, key):
        if key == self.bad_key:
            LOG.append((self.label, "get-raises", key))
            raise self.exc(key)
        return super().__getitem__(key)


def make_mapping(cls, label, items, bad_key=None, exc=KeyError):
    m = cls(items)
    if cls in (SetRaises, GetRaises, LoggingDict):
        m.label = label
    if cls in (SetRaises, GetRaises):
        m.bad_key = bad_key
        m.exc = exc
    return m


# ---------------------------------------------------------------- fixtures
class FakeDirectory:
    def __init__(self, name):
        self.name = name


def make_container(name="PERF 01", pname="param name", patch_entries=None):
    parameter = PerformanceParamEntryContainer(
        parts_patch_selection=[1, 2, 3],
        midi_channel_data=[0] * 16,
        parts_level=[127] * 4,
        parts_zone_lower=[0],
        parts_zone_upper=[127],
        parts_program_change=1,
        parts_pitch_bend=2,
        parts_modulation=3,
        parts_hold_pedal=4,
        parts_bend_range=5,
        parts_midi_volume=6,
        parts_after_touch_switch=7,
        parts_after_touch_mode=8,
        velocity_curve_type_data=[9],
        name=pname,
        index=11,
        patch_list=[4, 5],
    )
    return PerformanceEntryContainer(
        index=11,
        directory=FakeDirectory(name),
        parameter=parameter,
        patch_entries=patch_entries or (lambda: ["patches"]),
    )


def describe_performance(p):
    if not isinstance(p, PerformanceEntry):
        return ("not-a-performance", repr(p))
    d = {}
    for f in dataclasses.fields(p):
        if f.name == "_f_patch_entries":
            continue
        v = getattr(p, f.name)
        d[f.name] = v if f.name in ("_fat", "_parent") else repr(v)
    return d


SENTINEL_FAT = object()
SENTINEL_PARENT = object()


def context_cases():
    """Yield (description, factory) - factory builds a FRESH context."""
    inner_variants = {
        "none": None,
        "empty": {},
        "fat": {"fat": SENTINEL_FAT},
        "fat-none": {"fat": None},
        "fat-0": {"fat": 0},
        "ver": {"_dir_version": 2},
        "ver-none": {"_dir_version": None},
        "both": {"fat": SENTINEL_FAT, "_dir_version": 1},
        "both-falsy": {"fat": False, "_dir_version": 0},
        "extra": {"fat": SENTINEL_FAT, "_dir_version": 2, "_": {"x": 1}},
    }
    outer_variants = {
        "bare": {},
        "preset": {"fat": "old-fat", "_dir_version": "old-ver"},
        "elem": {"_elem_name": "n", "_index": 3},
    }
    kinds = {
        "dict": (dict, dict),
        "Container": (Container, Container),
        "logging": (LoggingDict, LoggingDict),
    }
    for iname, inner in inner_variants.items():
        for oname, outer in outer_variants.items():
            for kname, (ocls, icls) in kinds.items():
                def factory(inner=inner, outer=outer, ocls=ocls, icls=icls):
                    items = dict(outer)
                    if inner is not None:
                        items["_"] = make_mapping(icls, "inner", inner)
                    return make_mapping(ocls, "outer", items)
                yield (f"{kname}/{oname}/{iname}", factory)

    # hostile mappings
    for exc in (KeyError, TypeError, ValueError, IndexError, LookupError):
        for bad in ("fat", "_dir_version"):
            def factory(exc=exc, bad=bad):
                inner = make_mapping(
                    LoggingDict, "inner",
                    {"fat": SENTINEL_FAT, "_dir_version": 2}
                )
                return make_mapping(
                    SetRaises, "outer", {"_": inner}, bad_key=bad, exc=exc
                )
            yield (f"set-raises/{exc.__name__}/{bad}", factory)
        for bad in ("fat", "_dir_version"):
            def factory(exc=exc, bad=bad):
                inner = make_mapping(
                    GetRaises, "inner",
                    {"fat": SENTINEL_FAT, "_dir_version": 2},
                    bad_key=bad, exc=exc
                )
                return make_mapping(LoggingDict, "outer", {"_": inner})
            yield (f"inner-get-raises/{exc.__name__}/{bad}", factory)
        def factory(exc=exc):
            return make_mapping(
                GetRaises, "outer",
                {"_": {"fat": 1, "_dir_version": 2}}, bad_key="_", exc=exc
            )
        yield (f"outer-get-raises/{exc.__name__}", factory)
    # "_" is not a mapping at all
    for weird in (None, 5, "text", [1, 2], ("fat",)):
        def factory(weird=weird):
            return make_mapping(LoggingDict, "outer", {"_": weird})
        yield (f"weird-inner/{weird!r}", factory)


def snapshot(mapping):
    out = {}
    for k, v in dict.items(mapping):
        if isinstance(v, dict):
            out[k] = ("map", type(v).__name__, snapshot(v))
        else:
            out[k] = v if v in (SENTINEL_FAT,) else repr(v)
    return out


def run_direct(adapter_cls, factory, child_info, container):
    del LOG[:]
    context = factory()
    adapter = adapter_cls(pe.Pass)
    try:
        result = adapter._decode_element(container, child_info, context, "p")
        outcome = ("return", describe_performance(result))
        closure_ok = None
        if isinstance(result, PerformanceEntry):
            # the wrapped realisation must write into the very same context
            try:
                got = result._f_patch_entries({"_added": 1})
                closure_ok = (
                    got, dict.__contains__(context, "_added")
                )
            except Exception as e:  # hostile mappings
                closure_ok = ("raise", type(e))
    except BaseException as e:  # noqa: B902
        outcome = ("raise", type(e), e.args, type(e.__context__))
        closure_ok = None
    return (outcome, closure_ok, snapshot(context), list(LOG))


def direct_campaign():
    child_infos = [
        ChildInfo(
            parent=SENTINEL_PARENT, parent_path=["vol"],
            next_path=["vol", "x"], routines={"r": len}, name="x"
        ),
        ChildInfo(
            parent=None, parent_path=[], next_path=[], routines=[], name=None
        ),
    ]
    containers = [
        make_container(),
        make_container(name="", pname=""),
        make_container(name="A/B:C", patch_entries=lambda: []),
    ]
    for desc, factory in context_cases():
        for ci in child_infos:
            for container in containers:
                a = run_direct(OrigAdapter, factory, ci, container)
                b = run_direct(PerformanceEntryAdapter, factory, ci, container)
                check(
                    a == b,
                    f"direct mismatch {desc}: {str(a)[:400]} != {str(b)[:400]}"
                )

    # expected values, independent of the inline copy
    ci = child_infos[0]
    ctx = {"_": {"fat": SENTINEL_FAT, "_dir_version": 2}}
    perf = PerformanceEntryAdapter(pe.Pass)._decode_element(
        make_container(), ci, ctx, ""
    )
    check(perf._fat is SENTINEL_FAT, "fat handed to the performance")
    check(ctx.get("fat") is SENTINEL_FAT, "fat copied into the context")
    check(ctx.get("_dir_version") == 2, "dir version copied into the context")
    check(perf._path == ["vol", "PERF 01"], "path")
    ctx = {"other": 1}
    perf = PerformanceEntryAdapter(pe.Pass)._decode_element(
        make_container(), ci, ctx, ""
    )
    check(perf._fat is None and ctx == {"other": 1}, "no parent context")
    ctx = {"_": {"_dir_version": 1}, "fat": "keep"}
    perf = PerformanceEntryAdapter(pe.Pass)._decode_element(
        make_container(), ci, ctx, ""
    )
    check(
        perf._fat is None and ctx["fat"] == "keep"
        and ctx["_dir_version"] == 1,
        "missing fat leaves the outer value alone"
    )


# ---------------------------------------------------------------- parsed
def build_image(rng, records):
    size = PERFORMANCE_PARAMETER_AREA_OFFSET + 0x200 * 16
    image = bytearray(size)
    for idx, (name, ftype, damage) in records.items():
        d_off = PERFORMANCE_DIRECTORY_AREA_OFFSET \
            + PERFORMANCE_DIRECTORY_ENTRY_SIZE * idx
        entry = name.ljust(16)[:16].encode("ascii", "replace")
        entry += bytes([ftype, 0]) + struct.pack("<HHHIHH", 1, 2, 3, 0, 4, 5)
        image[d_off:d_off + len(entry)] = entry
        p_off = PERFORMANCE_PARAMETER_AREA_OFFSET \
            + PERFORMANCE_PARAMETER_ENTRY_SIZE * idx
        param = name.ljust(16)[:16].encode("ascii", "replace")
        param += bytes(rng.getrandbits(7) for _ in range(0x200 - 16 - 0xC0))
        image[p_off:p_off + len(param)] = param
        for off, value in damage:
            image[d_off + off] = value
    return bytes(image)


def describe_parsed(result):
    if isinstance(result, PerformanceEntry):
        return describe_performance(result)
    return repr(result)


def parsed_campaign():
    rng = random.Random(7)
    records = {
        0: ("PERF ZERO", 0x41, []),
        1: ("Second", 0x41, []),
        2: ("Bad name", 0x41, [(0, 0xFF)]),
        3: ("Bad name 2", 0x41, [(5, 0x80), (6, 0xC3)]),
        4: ("Odd type", 0x99, []),
        5: ("", 0x00, []),
        9: ("NINE", 0x41, [(17, 0xFF)]),
    }
    image = build_image(rng, records)
    indices = [0, 1, 2, 3, 4, 5, 6, 9, 15, -1, 0x200, 0x1FF, 100000]
    outer_contexts = [
        lambda: Container(fat=SENTINEL_FAT, _dir_version=2),
        lambda: Container(fat=SENTINEL_FAT),
        lambda: Container(_dir_version=1),
        lambda: Container(),
        None,
    ]
    for idx in indices:
        for outer in outer_contexts:
            outcomes = []
            for cls in (OrigAdapter, PerformanceEntryAdapter):
                sc = cls(PerformanceEntryConstruct(lambda this: this.perf_idx))
                ctx = Container(
                    perf_idx=idx, _elem_parent=None, _elem_routines={},
                    _params=Container(), _parsing=True, _building=False,
                    _sizing=False,
                )
                if outer is not None:
                    ctx["_"] = outer()
                stream = io.BytesIO(image)
                try:
                    res = sc._parsereport(stream, ctx, "(demo)")
                    outcome = ("return", describe_parsed(res))
                except (ConstructError, UnicodeDecodeError, KeyError,
                        IndexError) as e:
                    outcome = ("raise", type(e), str(e)[:200])
                ctx_after = {
                    k: (v if k in ("fat",) else repr(v))
                    for k, v in ctx.items() if k != "_" and k != "_io"
                }
                outcomes.append((outcome, ctx_after, stream.tell()))
            check(
                outcomes[0] == outcomes[1],
                f"parsed mismatch idx={idx}: {str(outcomes[0])[:300]} != "
                f"{str(outcomes[1])[:300]}"
            )


def main():
    direct_campaign()
    parsed_campaign()
    if failures:
        print(f"FAIL: {len(failures)} of {checked} checks")
        for f in failures[:20]:
            print("  ", f[:900])
        return 1
    print(f"OK: {checked} checks agree")
    return 0


if __name__ == "__main__":
    sys.exit(main())
