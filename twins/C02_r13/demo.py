"""Equivalence demo for r13: smpl_extract/util/sector.py SectorStream._read
(the sector-by-sector reader behind RolandFile / FileStream, i.e. the stream
that RolandFileAllocationTable.get_file returns - mechanism 'cluster chain
minus leading clusters').

Refactoring: the if/else choosing the size of the first (partial) sector read
became a min(); the `while remaining > sector_length` loop for full middle
sectors and the trailing `if remaining > 0` read of the partial final sector
were merged into one `while remaining > 0` loop reading
min(remaining, sector_length) bytes per step.

An inline copy of the ORIGINAL _read is mounted on subclasses of SectorStream,
FileStream and RolandFile and compared with the working-tree classes on
  (1) direct _read calls for many positions/sizes/sector lengths (sizes <= 0,
      reads ending exactly on a sector boundary, reads spanning 1..n sectors,
      reads beyond the chain, truncated parent streams),
  (2) public seek()/read()/readall() sequences,
  (3) the exact sequence of seek/read calls issued on the shared parent stream,
  (4) exception type and message,
  (5) a few precomputed expectations.
Exit 0 when everything agrees, 1 otherwise.
"""
import io
import random
import sys

from smpl_extract.roland.s7xx.data_types import ROLAND_CLUSTER_SIZE
from smpl_extract.roland.s7xx.fat import RolandFile
from smpl_extract.util.fat import FileStream
from smpl_extract.util.sector import SectorStream
from smpl_extract.util.stream import SectorReadError


# ---------------------------------------------------------------- original --
def original_read(self, size: int) -> bytes:

    if size <= 0:
        return bytes()

    remaining_size = size

    initial_sector_index    = self.position // self.sector_length
    initial_sector_offset   = self.position % self.sector_length

    # read partial initial sector
    if initial_sector_offset + size <= self.sector_length:
        initial_read_size = size
    else:
        initial_read_size = self.sector_length - initial_sector_offset
    result = self._read_sector(
        initial_sector_index,
        initial_sector_offset,
        initial_read_size
    )
    remaining_size -= initial_read_size

    # read full size middle sectors
    i = 1
    while remaining_size > self.sector_length:
        result += self._read_sector(
            initial_sector_index + i,
            0,
            self.sector_length
        )
        remaining_size -= self.sector_length
        i += 1

    # read partial final sector
    final_sector_index = initial_sector_index + i
    if remaining_size > 0:
        result += self._read_sector(
            final_sector_index,
            0,
            remaining_size
        )

    if len(result) != size:
        raise SectorReadError(f"Wanted {size}, read {len(result)}.")

    return result


class OrigSectorStream(SectorStream):
    _read = original_read


class OrigFileStream(FileStream):
    _read = original_read


class OrigRolandFile(RolandFile):
    _read = original_read


class LoggingBytesIO(io.BytesIO):
    """Parent stream recording every seek/read/tell issued on it."""

    def __init__(self, data):
        super().__init__(data)
        self.log = []

    def seek(self, *a):
        r = super().seek(*a)
        self.log.append(("seek", a, r))
        return r

    def read(self, *a):
        r = super().read(*a)
        self.log.append(("read", a, len(r)))
        return r

    def tell(self):
        r = super().tell()
        self.log.append(("tell", r))
        return r


failures = 0
checks = 0


def run(f):
    try:
        return ("ok", f())
    except Exception as e:  # noqa
        return ("exc", type(e).__name__, str(e))


def check(a, b, what):
    global failures, checks
    checks += 1
    if a != b:
        failures += 1
        if failures < 20:
            print("MISMATCH", what, repr(a)[:200], repr(b)[:200])


rnd = random.Random(20260928)


def rand_bytes(n):
    return bytes(rnd.getrandbits(8) for _ in range(n))


# (1) direct _read on SectorStream --------------------------------------------
for sector_length in (1, 2, 3, 4, 7, 16, 512):
    for num_sectors in (0, 1, 2, 3, 5):
        data = rand_bytes(sector_length * num_sectors)
        for truncated in (False, True):
            payload = data[: max(0, len(data) - sector_length // 2 - 1)] \
                if truncated else data
            positions = sorted(set(
                [0, 1, sector_length - 1, sector_length, sector_length + 1,
                 2 * sector_length, len(data) - 1, len(data), len(data) + 3]
                + [rnd.randrange(0, len(data) + 2) for _ in range(4)]
            ))
            sizes = sorted(set(
                [-5, -1, 0, 1, 2, sector_length - 1, sector_length,
                 sector_length + 1, 2 * sector_length, 2 * sector_length + 1,
                 3 * sector_length, len(data), len(data) + 1]
                + [rnd.randrange(0, len(data) + 4) for _ in range(4)]
            ))
            for pos in positions:
                if pos < 0:
                    continue
                for size in sizes:
                    pa = LoggingBytesIO(payload)
                    pb = LoggingBytesIO(payload)
                    a = OrigSectorStream(pa, len(data), sector_length,
                                         position=pos)
                    b = SectorStream(pb, len(data), sector_length,
                                     position=pos)
                    ra = run(lambda: a._read(size))
                    rb = run(lambda: b._read(size))
                    what = ("sector _read", sector_length, num_sectors,
                            truncated, pos, size)
                    check(ra, rb, what)
                    check(pa.log, pb.log, what + ("log",))
                    check(a.position, b.position, what + ("position",))


# (2)/(3) FileStream and RolandFile over permuted chains ------------------------
def file_cases():
    for sector_size in (1, 2, 4, 9, 32):
        for chain_len in (0, 1, 2, 3, 6):
            total = 8
            chain = rnd.sample(range(total), chain_len)
            yield FileStream, OrigFileStream, sector_size, chain, total, {}
    # Roland clusters (9216 bytes): lengths k*9216 fill the last cluster
    for chain_len in (1, 2, 4):
        total = 6
        chain = rnd.sample(range(total), chain_len)
        yield RolandFile, OrigRolandFile, ROLAND_CLUSTER_SIZE, chain, total, {}


for cls_new, cls_old, sector_size, chain, total, _ in file_cases():
    data = rand_bytes(sector_size * total)
    for short_parent in (False, True):
        payload = data[: len(data) // 2] if short_parent else data

        def make(cls, parent):
            if cls in (RolandFile, OrigRolandFile):
                return cls(parent, list(chain))
            return cls(parent, sector_size, list(chain))

        size_total = sector_size * len(chain)
        # direct _read
        for pos in sorted(set([0, 1, sector_size - 1, sector_size,
                               sector_size + 1, size_total - 1, size_total,
                               size_total + sector_size])):
            if pos < 0:
                continue
            for size in sorted(set([0, 1, 2, sector_size - 1, sector_size,
                                    sector_size + 1, 2 * sector_size,
                                    size_total - pos, size_total,
                                    size_total + 1, size_total + sector_size,
                                    0x1000])):
                pa = LoggingBytesIO(payload)
                pb = LoggingBytesIO(payload)
                a = make(cls_old, pa)
                b = make(cls_new, pb)
                a.position = pos
                b.position = pos
                what = ("file _read", cls_new.__name__, sector_size,
                        tuple(chain), short_parent, pos, size)
                check(run(lambda: a._read(size)), run(lambda: b._read(size)),
                      what)
                check(pa.log, pb.log, what + ("log",))

        # public API sequences
        for trial in range(6):
            pa = LoggingBytesIO(payload)
            pb = LoggingBytesIO(payload)
            a = make(cls_old, pa)
            b = make(cls_new, pb)
            ops = []
            for _ in range(8):
                k = rnd.choice(("read", "read", "seek", "readall", "readneg"))
                if k == "read":
                    ops.append(("read", rnd.choice(
                        [0, 1, 2, sector_size, sector_size + 1,
                         2 * sector_size, 3 * sector_size - 1, 0x1000,
                         rnd.randrange(0, size_total + 3)])))
                elif k == "seek":
                    ops.append(("seek", rnd.randrange(-2, size_total + 3),
                                rnd.choice((0, 1, 2))))
                elif k == "readall":
                    ops.append(("readall",))
                else:
                    ops.append(("read", rnd.choice((None, -1))))
            for op in ops:
                if op[0] == "read":
                    ra = run(lambda: a.read(op[1]))
                    rb = run(lambda: b.read(op[1]))
                elif op[0] == "seek":
                    ra = run(lambda: a.seek(op[1], op[2]))
                    rb = run(lambda: b.seek(op[1], op[2]))
                else:
                    ra = run(lambda: a.readall())
                    rb = run(lambda: b.readall())
                what = ("file api", cls_new.__name__, sector_size,
                        tuple(chain), short_parent, op)
                check(ra, rb, what)
                check((a.position, a.true_size), (b.position, b.true_size),
                      what + ("state",))
            check(pa.log, pb.log, ("file api log", cls_new.__name__,
                                   sector_size, tuple(chain), short_parent))


# (5) precomputed expectations ---------------------------------------------
parent = io.BytesIO(bytes(range(24)))
f = FileStream(parent, 4, [5, 0, 3])
check(f.read(12), bytes([20, 21, 22, 23, 0, 1, 2, 3, 12, 13, 14, 15]),
      "expected: permuted chain")
f.seek(3, 0)
check(f.read(6), bytes([23, 0, 1, 2, 3, 12]), "expected: unaligned window")
f.seek(4, 0)
check(f.read(8), bytes([0, 1, 2, 3, 12, 13, 14, 15]),
      "expected: ends on sector boundary")
check(f.read(8), b"", "expected: eof")
g = FileStream(io.BytesIO(bytes(range(24))), 4, [1])
g.position = 2
check(run(lambda: g._read(4)),
      ("exc", "SectorReadError",
       "Sector 1 lies beyond the 1 sectors of the file."),
      "expected: beyond chain")
h = SectorStream(io.BytesIO(bytes(range(6))), 12, 4)
check(run(lambda: h._read(9)), ("exc", "SectorReadError", "Wanted 9, read 6."),
      "expected: short parent")

print(f"{checks} checks, {failures} mismatches")
sys.exit(1 if failures else 0)
