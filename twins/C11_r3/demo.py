"""Equivalence demo for r3 (shared partition / data-area windows).

r3 extracts the `size=` lambda of the Roland `fat_data_stream` window into the
named helper `_data_area_size`, and hoists the AKAI `partition_stream`
SubStreamConstruct into the module-level constant `_PartitionWindow`.

Here the live constructs are compared with verbatim inline copies of the
ORIGINAL definitions on synthetic Roland and AKAI images read through one
recording file handle: parsed values, the geometry of the resulting windows
(class, offset, size, position, identity of the parent handle), the bytes of
interleaved reads on several files that live inside those windows, and the
exact sequence of tell/seek/read calls that reach the shared handle.
"""
import copy
import io
import itertools
import random
import struct
import sys
from io import SEEK_CUR, SEEK_END, SEEK_SET

from construct.core import Bytes
from construct.core import Computed
from construct.core import Const
from construct.core import Int8ul
from construct.core import Int16ul
from construct.core import Lazy
from construct.core import Padding
from construct.core import Rebuild
from construct.core import Struct
from construct.core import Tell
from construct.core import Union
from construct.expr import this

from smpl_extract.akai import partition as akai_partition
from smpl_extract.akai.data_types import AKAI_PARTITION_MAGIC
from smpl_extract.akai.data_types import AKAI_SAT_ENTRY_CNT
from smpl_extract.akai.data_types import AKAI_SECTOR_SIZE
from smpl_extract.akai.data_types import AKAI_VOLUME_ENTRY_CNT
from smpl_extract.akai.partition import PartitionAdapter
from smpl_extract.akai.sat import SegmentAllocationTableAdapter
from smpl_extract.akai.volume import VolumeEntryConstruct
from smpl_extract.akai.volume import VolumesAdapter
from smpl_extract.roland.s7xx import fat as roland_fat
from smpl_extract.roland.s7xx.data_types import DATA_FAT_OFFSET
from smpl_extract.roland.s7xx.data_types import FAT_AREA_OFFSET
from smpl_extract.roland.s7xx.data_types import FAT_NUM_ENTRIES
from smpl_extract.roland.s7xx.data_types import ROLAND_CLUSTER_SIZE
from smpl_extract.roland.s7xx.fat import FatAreaAdapter
from smpl_extract.util.stream import StreamOffset
from smpl_extract.util.stream import StreamSizeConstruct
from smpl_extract.util.stream import SubStreamConstruct


# ---- verbatim copies of the ORIGINAL definitions ---------------------------
OrigFatAreaStruct = Union(
    0,
    "fat_entries" / Int16ul[FAT_NUM_ENTRIES],
    "metadata" / Struct(
        "fat_id" / Int16ul,
        "num_unused_clusters" / Int16ul,
        Padding(2 * (FAT_NUM_ENTRIES-4)),
        "version_flag_1" / Int16ul,
        "version_flag_2" / Int16ul
    ),
    "stream_size" / StreamSizeConstruct,
    "fat_data_stream"  / SubStreamConstruct(
        StreamOffset,
        size=(lambda this: this.stream_size-DATA_FAT_OFFSET),
        offset=DATA_FAT_OFFSET
    ),
)
OrigFatAreaParser = FatAreaAdapter(OrigFatAreaStruct)

OrigPartitionHeaderConstruct = Struct(
    "start_address" / Tell,
    "size" / Int16ul,
    "total_size" / Computed(this.size * AKAI_SECTOR_SIZE),
    "check_sum_x" / Computed(this.size//128 - 1),
    "partition_stream" / SubStreamConstruct(
        StreamOffset,
        size=this.total_size,
        offset=this.start_address
    ),
    Const(b"\x00\x00"),
    Const(AKAI_PARTITION_MAGIC),
    Rebuild(Int8ul, lambda this: 0x55 if this.check_sum_x % 2 == 0 else 0xD5),
    Rebuild(Int8ul, lambda this: this.check_sum_x//2 + 0xBA),
    Const(b"\x2F\x00"),
)

OrigPartitionParser = PartitionAdapter(
    Struct(
        "header" / OrigPartitionHeaderConstruct,
        "volume_entries" / VolumeEntryConstruct[AKAI_VOLUME_ENTRY_CNT],
        "sat" / SegmentAllocationTableAdapter(
            this.header.partition_stream,
            Int16ul[AKAI_SAT_ENTRY_CNT]  # type: ignore
        ),
        "volumes" / Lazy(VolumesAdapter(
            this.volume_entries,
            this.sat,  # type: ignore
            Lazy(Bytes(  # type: ignore
            lambda this: this.header.total_size \
                - OrigPartitionHeaderConstruct.sizeof() \
                - VolumeEntryConstruct[AKAI_VOLUME_ENTRY_CNT].sizeof() \
                - Int16ul[AKAI_SAT_ENTRY_CNT].sizeof()
            )),
        ))
    )
).compile()


class Recorder(io.BytesIO):
    def __init__(self, data):
        super().__init__(data)
        self.log = []

    def tell(self):
        r = super().tell()
        self.log.append(("tell", r))
        return r

    def seek(self, *a):
        r = super().seek(*a)
        self.log.append(("seek", a, r))
        return r

    def read(self, *a):
        r = super().read(*a)
        self.log.append(("read", a, len(r), hash(r)))
        return r


failures = 0
checked = 0


def check(label, a, b):
    global failures, checked
    checked += 1
    if a != b:
        failures += 1
        if failures < 15:
            print("MISMATCH", label)
            print("  live:", repr(a)[:300])
            print("  orig:", repr(b)[:300])


def outcome(f):
    try:
        return ("ok", f())
    except Exception as e:  # noqa: BLE001
        return ("exc", type(e).__name__, str(e))


def window_geometry(w, fh):
    return (type(w).__name__, w.offset, w.end_of_file, w.position,
            w.buffer_length, w.true_size, w.substream is fh)


def do(v, op):
    def run():
        if op[0] == "read":
            return v.read(op[1])
        if op[0] == "seek":
            return v.seek(op[1], op[2])
        return v.readall()
    r = outcome(run)
    return r + ((v.position, v.true_size),)


def random_op(rng, big):
    r = rng.random()
    if r < 0.6:
        return ("read", rng.choice([0, 1, 2, 100, 0x1000, 0x1fff, 0x2000, 0x2001,
                                    0x2400, 0x2401, 3 * big]))
    if r < 0.65:
        return ("read", rng.choice([None, -1]))
    if r < 0.95:
        return ("seek", rng.randrange(-100, 3 * big),
                rng.choice([SEEK_SET, SEEK_CUR, SEEK_END]))
    return ("readall",)


def run_schedules(label, mk_views_once, seeds, big):
    """mk_views_once(which) -> (fh, [views]); which in {'live', 'orig'}.

    Parsing an image is slow, so each world is parsed once and every schedule
    runs on a deep copy of the freshly parsed (handle, views) pair."""
    templates = {w: mk_views_once(w) for w in ("live", "orig")}
    # the handle log of the parse phase is compared once and then dropped so
    # that the per-schedule deep copies stay cheap
    check(label + " parse-phase handle log",
          templates["live"][0].log, templates["orig"][0].log)
    for w in templates:
        del templates[w][0].log[:]

    def mk_views(which):
        return copy.deepcopy(templates[which])

    for seed in seeds:
        fa, va = mk_views("live")
        fb, vb = mk_views("orig")
        check(label + " same number of views", len(va), len(vb))
        rng = random.Random(seed)
        for step in range(40):
            i = rng.randrange(len(va))
            op = random_op(rng, big)
            check(f"{label} seed {seed} step {step} view {i} {op}",
                  do(va[i], op), do(vb[i], op))
        check(f"{label} seed {seed} handle log", fa.log, fb.log)
    # exhaustive: three streams x two block reads, all interleavings
    n = len(mk_views("live")[1])
    if n >= 3:
        for sizes in [(0x1000, 0x1000), (0x2000, 1), (0x2401, 0x900)]:
            base = [0, 0, 1, 1, 2, 2]
            for order in sorted(set(itertools.permutations(base))):
                fa, va = mk_views("live")
                fb, vb = mk_views("orig")
                for k, i in enumerate(order):
                    op = ("read", sizes[k % 2])
                    check(f"{label} exhaustive {order} {k}", do(va[i], op), do(vb[i], op))
                check(f"{label} exhaustive {order} log", fa.log, fb.log)


# =========================== Roland =========================================
def slow_bytes(n):
    # cheap deterministic filler
    block = bytes((i * 37 + (i >> 3)) & 0xFF for i in range(4099))
    return (block * (n // len(block) + 1))[:n]


def roland_image_fast(total_size, fat_pos, chains, fat_id=0xfffa,
                      flags=(0xffff, 0xffff)):
    img = bytearray(slow_bytes(total_size))
    fat = [0] * FAT_NUM_ENTRIES
    fat[0] = fat_id
    fat[1] = 1234
    for chain in chains:
        for a, b in zip(chain, chain[1:]):
            fat[a] = b
        fat[chain[-1]] = 0xfff8
    fat[-2], fat[-1] = flags
    raw = struct.pack("<%dH" % FAT_NUM_ENTRIES, *fat)
    img[fat_pos:fat_pos + len(raw)] = raw
    return bytes(img)


CHAINS = [[2, 3, 7], [4, 9], [5], [10, 6, 8, 11]]
roland_cases = [
    # (total image size, position of the FAT area, fat id, version flags)
    (DATA_FAT_OFFSET + 14 * ROLAND_CLUSTER_SIZE, FAT_AREA_OFFSET, 0xfffa, (0xffff, 0xffff)),
    (DATA_FAT_OFFSET + 12 * ROLAND_CLUSTER_SIZE + 77, FAT_AREA_OFFSET, 0xfffa, (0xffff, 0xfffe)),
    (DATA_FAT_OFFSET + 5 * ROLAND_CLUSTER_SIZE, 0, 0xfffa, (0xfffe, 0xffff)),
    (DATA_FAT_OFFSET, FAT_AREA_OFFSET, 0xfffa, (0xffff, 0xffff)),          # empty data area
    (DATA_FAT_OFFSET - 1000, FAT_AREA_OFFSET, 0xfffa, (0xffff, 0xffff)),   # negative size
    (2 * FAT_NUM_ENTRIES + 10, 0, 0xfffa, (0xffff, 0xffff)),               # tiny image
    (DATA_FAT_OFFSET + 3 * ROLAND_CLUSTER_SIZE, FAT_AREA_OFFSET, 0x1234, (0xffff, 0xffff)),  # bad id
    (DATA_FAT_OFFSET + 3 * ROLAND_CLUSTER_SIZE, FAT_AREA_OFFSET, 0xfffa, (0x0003, 0xffff)),  # bad version
    (1000, 0, 0xfffa, (0xffff, 0xffff)),                                   # truncated FAT
]

for ci, (total, fat_pos, fat_id, flags) in enumerate(roland_cases):
    if total >= fat_pos + 2 * FAT_NUM_ENTRIES:
        img = roland_image_fast(total, fat_pos, CHAINS, fat_id, flags)
    else:
        img = slow_bytes(total)

    # raw struct
    def parse_struct(S):
        fh = Recorder(img)
        fh.seek(fat_pos, SEEK_SET)

        def go():
            c = S.parse_stream(fh)
            return (list(c.fat_entries)[:16], c.metadata.fat_id,
                    c.metadata.num_unused_clusters, c.metadata.version_flag_1,
                    c.metadata.version_flag_2, c.stream_size,
                    window_geometry(c.fat_data_stream, fh),
                    sorted(k for k in c.keys()))
        r = outcome(go)
        return r, fh.log, fh.tell()

    check(f"roland case {ci} FatAreaStruct", parse_struct(roland_fat.FatAreaStruct),
          parse_struct(OrigFatAreaStruct))

    # adapter + files that live in the shared data-area window
    def mk_views(which, img=img, fat_pos=fat_pos):
        P = roland_fat.FatAreaParser if which == "live" else OrigFatAreaParser
        fh = Recorder(img)
        fh.seek(fat_pos, SEEK_SET)
        area = P.parse_stream(fh)
        win = area.fat.parent_stream
        views = [area.fat.get_file(2), area.fat.get_file(4), area.fat.get_file(10),
                 area.fat.get_file(5), area.fat.get_file(10, 2), win]
        fh.log.append(("geometry", window_geometry(win, fh), area.version,
                       area.num_remaining_clusters,
                       [v.sector_list for v in views[:-1]]))
        return fh, views

    a = outcome(lambda: mk_views("live")[0].log)
    b = outcome(lambda: mk_views("orig")[0].log)
    check(f"roland case {ci} FatAreaParser", a, b)
    if a[0] == "ok":
        run_schedules(f"roland case {ci}", mk_views, range(6), ROLAND_CLUSTER_SIZE)


# =========================== AKAI ===========================================
def akai_partition_bytes(nsec, seed, chains, checksum=(0x55, 0xBA), active_volume=False):
    hdr = (struct.pack("<H", nsec) + b"\0\0" + AKAI_PARTITION_MAGIC
           + bytes(checksum) + b"\x2f\x00")
    vol = b"\x0a" * 12 + b"\0\0\0\0"
    vols = vol * AKAI_VOLUME_ENTRY_CNT
    if active_volume:
        vols = b"\x0a" * 12 + struct.pack("<HH", 1, chains[0][0]) + vol * (AKAI_VOLUME_ENTRY_CNT - 1)
    sat = [0] * AKAI_SAT_ENTRY_CNT
    for chain in chains:
        for a, b in zip(chain, chain[1:]):
            sat[a] = b
        sat[chain[-1]] = 0xC000
    body = hdr + vols + struct.pack("<%dH" % len(sat), *sat)
    total = nsec * AKAI_SECTOR_SIZE
    block = bytes((i * seed + (i >> 5)) & 0xFF for i in range(4001))
    rest = (block * (total // len(block) + 1))[:max(0, total - len(body))]
    return (body + rest)[:max(total, len(body))] if total else body


AK_CHAINS = [[5, 6, 9], [7, 8], [10], [12, 11, 13, 4]]
akai_images = [
    akai_partition_bytes(16, 3, AK_CHAINS) + akai_partition_bytes(24, 5, AK_CHAINS),
    b"\x11" * 37 + akai_partition_bytes(14, 7, AK_CHAINS),           # odd start address
    akai_partition_bytes(14, 9, AK_CHAINS, active_volume=True)
    + akai_partition_bytes(14, 11, AK_CHAINS),
    akai_partition_bytes(14, 3, AK_CHAINS) + akai_partition_bytes(0, 1, AK_CHAINS),  # size 0
    akai_partition_bytes(14, 3, AK_CHAINS)[:5000],                   # truncated
]
akai_starts = [0, 37, 0, 0, 0]


def parse_akai(which, img, start):
    P = akai_partition.PartitionParser if which == "live" else OrigPartitionParser
    fh = Recorder(img)
    fh.seek(start, SEEK_SET)
    parts = []
    errors = []
    while fh.tell() < len(img):
        try:
            p = P.parse_stream(fh, _elem_name=chr(65 + len(parts)),
                               _elem_parent=None, _elem_routines={})
        except Exception as e:  # noqa: BLE001
            errors.append((type(e).__name__, str(e)))
            break
        parts.append(p)
    return fh, parts, errors


for ai, (img, start) in enumerate(zip(akai_images, akai_starts)):
    # header struct alone, at several positions of the handle
    for pos in (start, start + 1, 0, len(img) - 3):
        def hdr(S):
            fh = Recorder(img)
            fh.seek(pos, SEEK_SET)

            def go():
                c = S.parse_stream(fh)
                return (c.start_address, c.size, c.total_size, c.check_sum_x,
                        window_geometry(c.partition_stream, fh),
                        sorted(k for k in c.keys()))
            return outcome(go), fh.log, fh.tell()
        check(f"akai image {ai} header at {pos}",
              hdr(akai_partition.PartitionHeaderConstruct),
              hdr(OrigPartitionHeaderConstruct))

    def summary(which):
        fh, parts, errors = parse_akai(which, img, start)
        out = []
        for p in parts:
            sat = p._f_sat
            out.append((p.name, p.path, window_geometry(sat.parent_stream, fh),
                        outcome(lambda: [type(c).__name__ + ":" + c.name
                                         for c in p.children])))
        return out, errors, fh.log, fh.tell()

    check(f"akai image {ai} PartitionParser", summary("live"), summary("orig"))

    def mk_views(which, img=img, start=start):
        fh, parts, _ = parse_akai(which, img, start)
        views = []
        for p in parts:
            sat = p._f_sat
            views += [sat.get_segment(5), sat.get_segment(7)]
        for p in parts:
            sat = p._f_sat
            views += [sat.get_segment(12), sat.get_segment(10), sat.parent_stream]
        # lazy directory listing interleaved: realise children after streams exist
        for p in parts:
            outcome(lambda: p.children)
        return fh, views

    if parse_akai("live", img, start)[1]:
        run_schedules(f"akai image {ai}", mk_views, range(6), AKAI_SECTOR_SIZE)

# sizeof / build of the header construct
check("header sizeof", outcome(akai_partition.PartitionHeaderConstruct.sizeof),
      outcome(OrigPartitionHeaderConstruct.sizeof))
for size in (0, 1, 127, 128, 256, 300, 65535, 65536, -1):
    check(f"header build size={size}",
          outcome(lambda: akai_partition.PartitionHeaderConstruct.build(dict(size=size))),
          outcome(lambda: OrigPartitionHeaderConstruct.build(dict(size=size))))

print(f"{checked} comparisons, {failures} mismatches")
sys.exit(1 if failures else 0)
