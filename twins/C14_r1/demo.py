"""Equivalence demo for r1 (FileEntriesAdapter._parse entry loop).

Runs the live FileEntriesAdapter._parse and an inline copy of the ORIGINAL
implementation over many file tables (random tables, truncated tables, tables
with end flags, exhaustive single-byte damage of one entry) and compares:
  * the listed entries (name, type), and the outcome of realising each file,
  * the exception type if the parse raises,
  * the exact sequence of seek/read/tell calls on the shared table stream,
  * the sequence of sat.get_segment() calls.
Exit code 0 when everything agrees, 1 otherwise.
"""
import io
import random
import sys
from io import SEEK_CUR, SEEK_END, SEEK_SET
from typing import List, Union

from construct.core import ConstructError, Int16ul, Lazy, StreamError, Struct
from construct.core import Subconstruct
from construct.expr import this

from smpl_extract.akai.data_types import FILE_TABLE_END_FLAG
from smpl_extract.akai.file import FileAdapter, FileConstruct
from smpl_extract.akai.file_entry import (
    FileEntriesAdapter, FileEntry, FileEntryConstruct, FileEntryContainer,
)
from smpl_extract.util.constructs import pull_child_info
from smpl_extract.util.fat import RequestedInvalidSector


# --------------------------------------------------------------------------
# inline copy of the ORIGINAL implementation
# --------------------------------------------------------------------------
class OrigFileEntriesAdapter(Subconstruct):

    def __init__(self, sat, subcon):
        super().__init__(subcon)  # type: ignore
        self.sat = sat

    def _parse(self, stream, context, path):

        def is_table_end(stream_inner):
            original_address = stream_inner.tell()

            stream_inner.seek(8, SEEK_CUR)
            try:
                end_flag = Int16ul.parse_stream(stream_inner)
            except (StreamError):
                return True

            stream_inner.seek(original_address, SEEK_SET)

            result = (end_flag == FILE_TABLE_END_FLAG)
            return result

        child_info = pull_child_info(context)
        parent = child_info.parent
        sat = self.sat(context) if callable(self.sat) else self.sat

        # read file entries containers
        stream.seek(0, SEEK_END)
        file_table_size = stream.tell()
        stream.seek(0, SEEK_SET)

        table_entry_size = self.subcon.sizeof()
        max_table_entry_cnt = file_table_size // table_entry_size

        file_entries: List[FileEntry] = []
        for _i in range(max_table_entry_cnt):
            if is_table_end(stream):
                break
            file_entry_container: Union[FileEntryContainer, None] = None
            entry_address = stream.tell()
            try:
                file_entry_container = self.subcon.parse_stream(stream, _=context, sat=sat)
            except (ConstructError, RequestedInvalidSector):
                # skip the bad entry, stay aligned with the table
                stream.seek(entry_address + table_entry_size, SEEK_SET)

            if file_entry_container is not None and file_entry_container.start > 0:
                name = file_entry_container.name
                file_content = Lazy(FileAdapter(
                        this._.sat,
                        FileConstruct
                    )).parse_stream(
                        file_entry_container.file_stream,  # type: ignore
                        _=context,
                        file_type=file_entry_container.file_type,
                        _elem_name=name,
                        _elem_parent=parent,
                        _elem_routines=child_info.routines
                    )

                if file_content is None:
                    raise ConstructError

                file_entry = FileEntry(
                    file_entry_container.name,
                    file_entry_container.file_type,
                    file_content
                )

                file_entries.append(file_entry)

        result = file_entries
        return result

    def _build(self, obj, stream, context, path):
        raise NotImplementedError


# --------------------------------------------------------------------------
# harness
# --------------------------------------------------------------------------
class RecStream(io.BytesIO):
    """BytesIO which logs every call made on it."""

    def __init__(self, data):
        super().__init__(data)
        self.log = []

    def seek(self, offset, whence=SEEK_SET):
        r = super().seek(offset, whence)
        self.log.append(("seek", offset, whence, r))
        return r

    def tell(self):
        r = super().tell()
        self.log.append(("tell", r))
        return r

    def read(self, size=-1):
        r = super().read(size)
        self.log.append(("read", size, r))
        return r


class FakeSat:
    """get_segment(start) raises for 'bad' sectors, else deterministic data."""

    def __init__(self, bad_starts):
        self.bad_starts = set(bad_starts)
        self.log = []

    def get_segment(self, start):
        self.log.append(start)
        if start in self.bad_starts or start >= 0x4000:
            raise RequestedInvalidSector
        rng = random.Random(start)
        return io.BytesIO(bytes(rng.randrange(256) for _ in range(512)))


NEW = Struct("file_entries" / FileEntriesAdapter(this._.sat, FileEntryConstruct))
OLD = Struct("file_entries" / OrigFileEntriesAdapter(this._.sat, FileEntryConstruct))


def run(construct, table, bad_starts):
    stream = RecStream(table)
    sat = FakeSat(bad_starts)
    try:
        body = construct.parse_stream(stream, sat=sat)
        listed = []
        for entry in body.file_entries:
            try:
                content = entry.file
                outcome = ("ok", type(content).__name__,
                           getattr(content, "name", None))
            except Exception as exc:  # compare the failure kind only
                outcome = ("exc", type(exc).__name__)
            listed.append((entry.name, int(entry.file_type),
                           str(entry.file_type), outcome))
        result = ("ok", listed)
    except Exception as exc:
        result = ("exc", type(exc).__name__)
    final_position = io.BytesIO.tell(stream)
    return result, stream.log, sat.log, final_position


VALID_TYPES = [0x64, 0x70, 0x71, 0x73, 0x78, 0xF0, 0xF3]


def make_entry(rng, damaged=False):
    if rng.random() < 0.85:
        name = bytes(rng.randrange(0x29) for _ in range(12))
    else:
        name = bytes(rng.randrange(256) for _ in range(12))
    if rng.random() < 0.8:
        ftype = rng.choice(VALID_TYPES)
    else:
        ftype = rng.randrange(256)
    size = rng.choice([0, 1, 150, 400, 512, 5000, rng.randrange(1 << 24)])
    start = rng.choice([0, 0, 1, 2, 3, 17, 99, 0x3FFF, 0x4000, 0xFFFF,
                        rng.randrange(1 << 16)])
    entry = (name + bytes(rng.randrange(256) for _ in range(4))
             + bytes([ftype]) + size.to_bytes(3, "little")
             + start.to_bytes(2, "little")
             + bytes(rng.randrange(256) for _ in range(2)))
    assert len(entry) == 24
    return entry


def end_entry(rng):
    raw = bytearray(rng.randrange(256) for _ in range(24))
    raw[8:10] = FILE_TABLE_END_FLAG.to_bytes(2, "little")
    return bytes(raw)


def tables():
    rng = random.Random(1414)
    # hand-picked edge cases
    yield b"", []
    yield b"\x00" * 5, []
    yield b"\x00" * 9, []
    yield b"\x00" * 23, []
    yield b"\x00" * 24, []
    yield end_entry(rng), []
    yield make_entry(rng) + b"\x01" * 9, [17]
    yield make_entry(rng) + b"\x01" * 10, [3]
    # random tables
    for _ in range(1500):
        n = rng.randrange(0, 13)
        parts = [make_entry(rng) for _ in range(n)]
        if rng.random() < 0.5:
            parts.insert(rng.randrange(0, n + 1), end_entry(rng))
        table = b"".join(parts)
        if rng.random() < 0.4:
            table += bytes(rng.randrange(256) for _ in range(rng.randrange(24)))
        if rng.random() < 0.15 and table:
            table = table[:rng.randrange(len(table))]
        bad = rng.sample([1, 2, 3, 17, 99, 0x3FFF], rng.randrange(0, 3))
        yield table, bad
    # exhaustive single-byte damage of the middle entry of a small table
    rng2 = random.Random(7)
    base = []
    for i, ftype in enumerate((0x73, 0xF3, 0x70, 0xF0)):
        name = bytes([0x0B + i] * 6 + [0x0A] * 6)
        base.append(name + b"\x00" * 4 + bytes([ftype])
                    + (300).to_bytes(3, "little")
                    + (5 + i).to_bytes(2, "little") + b"\x00\x00")
    base_table = b"".join(base) + end_entry(rng2)
    for offset in range(24, 48):
        for value in range(256):
            damaged = bytearray(base_table)
            damaged[offset] = value
            yield bytes(damaged), [6] if value % 7 == 0 else []


def main():
    failures = 0
    count = 0
    for table, bad in tables():
        count += 1
        got = run(NEW, table, bad)
        want = run(OLD, table, bad)
        if got != want:
            failures += 1
            if failures <= 5:
                print("MISMATCH for table", table.hex(), "bad", bad)
                print("  live:", got[0])
                print("  orig:", want[0])
    print(f"{count} tables compared, {failures} mismatches")
    return 1 if failures else 0


if __name__ == "__main__":
    sys.exit(main())
