"""Equivalence demo for SegmentAllocationTable.get_segment (smpl_extract/akai/sat.py).

The ORIGINAL get_segment body is pasted below as a free function and compared
with the live method on the very same table objects: hand-written and random
sector-link tables (good chains, loops, out-of-range links, empty tables),
tables decoded from raw SAT blocks by SegmentAllocationTableAdapter, and - over
one shared traced partition handle - the bytes, positions and the exact
sequence of seek/read/tell calls produced by interleaved block reads of several
segments.  Exit 0 when everything agrees.
"""
import io
import random
import sys

from construct.core import Array, Int16ul
from construct.lib.containers import Container

from smpl_extract.akai.data_types import AKAI_SECTOR_SIZE
from smpl_extract.akai.sat import Segment
from smpl_extract.akai.sat import SegmentAllocationTable
from smpl_extract.akai.sat import SegmentAllocationTableAdapter
from smpl_extract.util.fat import SectorLink
from smpl_extract.util.stream import StreamOffset


def orig_get_segment(self, index: int) -> Segment:
    """Verbatim copy of the original method body."""
    sector_list = self.get_path(index)
    result = Segment(
        self.parent_stream,
        sector_list
    )
    return result


def live_get_segment(self, index):
    return self.get_segment(index)


class TraceIO(io.BytesIO):
    def __init__(self, data):
        super().__init__(data)
        self.trace = []

    def seek(self, off, whence=0):
        r = super().seek(off, whence)
        self.trace.append(("seek", off, whence, r))
        return r

    def read(self, n=-1):
        r = super().read(n)
        self.trace.append(("read", n, len(r)))
        return r

    def tell(self):
        r = super().tell()
        self.trace.append(("tell", r))
        return r


FAILS = []
COUNT = [0]


def check(label, a, b):
    COUNT[0] += 1
    if a != b:
        FAILS.append(label)
        if len(FAILS) < 10:
            print("MISMATCH", label, "\n  orig:", repr(a)[-600:], "\n  live:", repr(b)[-600:])


def seg_state(seg):
    d = dict(seg.__dict__)
    d.pop("substream", None)
    return (type(seg).__name__, sorted(d.items()))


def guarded(f):
    try:
        return ("ok", f())
    except Exception as e:  # noqa
        return ("exc", type(e).__name__, str(e), type(e.__cause__).__name__)


N_SECT = 24
_RND = random.Random(7)
# every sector starts with its own number so mis-ordered chains show up
IMAGE = b"".join(
    bytes([s]) * 16 + bytes(_RND.randrange(256) for _ in range(AKAI_SECTOR_SIZE - 16))
    for s in range(N_SECT)
)


def probe(get, table, index):
    """Everything observable about one get_segment call."""
    def run():
        seg = get(table, index)
        return (seg_state(seg), seg.substream is table.parent_stream, list(seg.sector_list))
    return guarded(run)


def random_links(rnd, n):
    links = []
    for _ in range(n):
        links.append(SectorLink(next=rnd.randrange(0, n + 3), end=rnd.random() < 0.3))
    return links


def table_cases():
    rnd = random.Random(70)
    parent = io.BytesIO(IMAGE)
    cases = []
    # hand-written
    cases.append(SegmentAllocationTable(parent, 0, []))
    cases.append(SegmentAllocationTable(parent))
    cases.append(SegmentAllocationTable(parent, 4, [SectorLink(1, False), SectorLink(2, False),
                                                    SectorLink(3, False), SectorLink(0, True)]))
    cases.append(SegmentAllocationTable(parent, 4, [SectorLink(1, False), SectorLink(0, False),
                                                    SectorLink(2, False), SectorLink(9, False)]))
    cases.append(SegmentAllocationTable(parent, 2, [SectorLink(1, False)] * 5))   # size < links
    cases.append(SegmentAllocationTable(parent, 9, [SectorLink()] * 3))           # size > links
    for _ in range(120):
        n = rnd.randrange(1, N_SECT)
        cases.append(SegmentAllocationTable(parent, rnd.choice([n, n, n - 1, n + 2]), random_links(rnd, n)))
    return cases


def decoded_tables():
    """Tables as the real parser makes them, from raw 16-bit SAT blocks."""
    rnd = random.Random(71)
    out = []
    for _ in range(40):
        n = N_SECT
        block = [0x4000, 0x4000]
        free = list(range(2, n))
        rnd.shuffle(free)
        while free:
            ln = min(len(free), rnd.randrange(1, 6))
            chain, free = free[:ln], free[ln:]
            if rnd.random() < 0.2:
                continue            # leave these sectors free (0)
            for a, b in zip(chain, chain[1:]):
                while len(block) <= a:
                    block.append(0)
                block[a] = b
            while len(block) <= chain[-1]:
                block.append(0)
            block[chain[-1]] = 0xC000
        block += [0] * (n - len(block))
        out.append(block)
    return out


def decode(block):
    handle = TraceIO(IMAGE)
    window = StreamOffset(handle, len(IMAGE), 0)
    adapter = SegmentAllocationTableAdapter(lambda ctx: ctx.ps, Array(len(block), Int16ul))
    table = adapter._decode(block, Container(ps=window), "p")
    return handle, table


def read_through(get, block, index):
    """Fresh handle + table; create the segment, read it, report bytes and I/O trace."""
    handle, table = decode(block)
    seg = get(table, index)
    created_silently = (handle.trace == [])
    return (created_silently, seg.read(5), seg.read(AKAI_SECTOR_SIZE), seg.readall()[-7:],
            seg.tell(), handle.trace)


def interleave(get, seed):
    """Several segments of one table over one shared handle, block reads interleaved."""
    rnd = random.Random(seed)
    handle = TraceIO(IMAGE)
    window = StreamOffset(handle, len(IMAGE), 0)
    order = list(range(N_SECT))
    rnd.shuffle(order)
    links = [SectorLink()] * N_SECT
    starts = []
    pos = 0
    while pos < N_SECT:
        ln = rnd.randrange(1, 5)
        chain = order[pos:pos + ln]
        pos += ln
        for a, b in zip(chain, chain[1:]):
            links[a] = SectorLink(b, False)
        links[chain[-1]] = SectorLink(0, True)
        starts.append(chain[0])
    table = SegmentAllocationTable(window, N_SECT, links)
    segs = [get(table, s) for s in rnd.sample(starts, min(3, len(starts)))]
    segs.append(get(table, starts[0]))       # a second view of one chain
    out = []
    for _ in range(50):
        i = rnd.randrange(len(segs))
        r = rnd.random()
        if r < 0.75:
            out.append((i, guarded(lambda: segs[i].read(rnd.choice([0, 1, 100, 0x1000, 0x2000, 0x2001, 0x5000])))))
        elif r < 0.95:
            out.append((i, guarded(lambda: segs[i].seek(rnd.randrange(-5, 4 * AKAI_SECTOR_SIZE), rnd.choice([0, 1, 2])))))
        else:
            out.append((i, segs[i].tell()))
    return out, handle.trace, [seg_state(s) for s in segs]


def main():
    for ti, table in enumerate(table_cases()):
        for index in range(-3, N_SECT + 4):
            check("table%d[%d]" % (ti, index),
                  probe(orig_get_segment, table, index),
                  probe(live_get_segment, table, index))

    for ti, block in enumerate(decoded_tables()):
        handle, table = decode(block)
        for index in range(0, N_SECT + 1):
            a = probe(orig_get_segment, table, index)
            b = probe(live_get_segment, table, index)
            check("decoded%d[%d]" % (ti, index), a, b)
            if a[0] == "ok":
                check("decoded-bytes%d[%d]" % (ti, index),
                      read_through(orig_get_segment, block, index),
                      read_through(live_get_segment, block, index))
        check("no-io-on-create%d" % ti, handle.trace, [])

    for seed in range(200):
        check("interleave%d" % seed, interleave(orig_get_segment, seed), interleave(live_get_segment, seed))

    # keyword/positional spelling of Segment itself agrees, defaults included
    h = io.BytesIO(IMAGE)
    check("segment-spelling",
          seg_state(Segment(h, [3, 1, 2])),
          seg_state(Segment(partition_stream=h, sector_list=[3, 1, 2])))

    print("checks:", COUNT[0], "failures:", len(FAILS))
    return 1 if FAILS else 0


if __name__ == "__main__":
    sys.exit(main())
