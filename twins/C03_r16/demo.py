"""Equivalence demo for r16: smpl_extract.transcoder.PassthroughTranscoder
.__next__ (whole-frame truncation of every chunk handed to the WAV writer).

An inline copy of the ORIGINAL __next__ is compiled with the globals of the
live smpl_extract.transcoder module and installed on a subclass, so both
versions use the same resize_buffer / SectorReadError.

  A. traced: the DataStream is a recorder whose `stream` and `frame_size`
     attributes log every access, and whose stream logs every read; the
     stream is scripted (chunks of any length incl. partial frames, empty,
     None, bytearray / memoryview, short reads, SectorReadError or another
     exception at any position).  Both versions are driven with next() a
     fixed number of times (also past the end); per call the value or the
     exception (type, message, type of __context__) and the complete ordered
     event log must be identical.
  B. real streams: BytesIO and StreamOffset windows over random data with
     many (length, offset, buffer size, frame size) combinations are drained
     with both versions; the chunk lists must agree, every chunk must be a
     whole number of frames and, for frame-aligned buffer sizes, the
     concatenation must be the window truncated to whole frames.
  C. end to end: cue/bin pairs are exported to WAV once with the live method
     and once with the original patched into the class; the trees must be
     byte-identical and the PCM must tile the bin (last track truncated to
     whole 4-byte frames).
Exit 0 on full agreement, 1 otherwise.
"""
import contextlib
import io
import itertools
import os
import random
import shutil
import sys
import tempfile

from smpl_extract import actions
from smpl_extract import transcoder
from smpl_extract.cuesheet import parse_cue_sheet
from smpl_extract.data_streams import DataStream
from smpl_extract.data_streams import StreamEncoding
from smpl_extract.transcoder import PassthroughTranscoder
from smpl_extract.transcoder import make_transcoder
from smpl_extract.util.stream import SectorReadError
from smpl_extract.util.stream import StreamOffset


ORIGINAL_SOURCE = '''
def __next__(self):
    stream = self.data_stream.stream
    try:
        buffer = stream.read(self.buffer_size)
    except SectorReadError as e:
        raise StopIteration

    frame_size = self.data_stream.frame_size
    buffer = resize_buffer(buffer, frame_size)

    if len(buffer) <= 0:
        raise StopIteration

    return buffer
'''
_namespace = {}
exec(compile(ORIGINAL_SOURCE, "<original>", "exec"), transcoder.__dict__,
     _namespace)
original_next = _namespace["__next__"]


class OriginalPassthroughTranscoder(PassthroughTranscoder):
    __next__ = original_next


# ---------------------------------------------------------------- traced
class CustomError(Exception):
    pass


class ScriptedStream:
    def __init__(self, script, events):
        self.script = list(script)
        self.events = events

    def read(self, *args, **kwargs):
        self.events.append(("read", args, kwargs))
        if not self.script:
            return b""
        item = self.script.pop(0)
        if item == "sector":
            raise SectorReadError("scripted sector error")
        if item == "custom":
            raise CustomError("scripted custom error")
        if item == "stop":
            raise StopIteration("scripted stop")
        return item

    def seek(self, *args):
        self.events.append(("seek", args))
        return 0

    def tell(self):
        self.events.append(("tell",))
        return 0


class RecordingDataStream:
    def __init__(self, script, frame_size, events, break_at=None):
        self._stream = ScriptedStream(script, events)
        self._frame_size = frame_size
        self._events = events
        self._break_at = break_at

    @property
    def stream(self):
        self._events.append(("get stream",))
        if self._break_at == "stream":
            raise AttributeError("no stream")
        return self._stream

    @property
    def frame_size(self):
        self._events.append(("get frame_size",))
        if self._break_at == "frame_size":
            raise AttributeError("no frame_size")
        return self._frame_size


def describe_value(value):
    if isinstance(value, memoryview):
        return ("memoryview", bytes(value))
    return (type(value).__name__, value if not isinstance(value, bytearray)
            else bytes(value))


def drive(cls, script, frame_size, buffer_size, break_at, n_calls):
    events = []
    data_stream = RecordingDataStream(script, frame_size, events, break_at)
    if buffer_size == "default":
        transcoder_object = cls(data_stream)
    else:
        transcoder_object = cls(data_stream, buffer_size=buffer_size)
    results = []
    results.append(iter(transcoder_object) is transcoder_object)
    for _ in range(n_calls):
        events.append(("next",))
        try:
            results.append(("OK", describe_value(next(transcoder_object))))
        except BaseException as e:
            results.append(("EXC", type(e).__name__, str(e),
                            type(e.__context__).__name__,
                            type(e.__cause__).__name__))
    return results, events


def traced_cases():
    failures = 0
    count = 0
    rng = random.Random(0xC0316)
    chunk_pool = [b"", b"a", b"ab", b"abc", b"abcd", b"abcde", b"abcdefgh",
                  b"x"*4096, b"y"*4097, b"z"*2352, bytearray(b"12345"),
                  bytearray(), memoryview(b"123456"), None, "sector",
                  "custom", "stop", "text", 5]
    scripts = [[], [b""], [b"abcd"], [b"abc"], [b"abcd", b"ef"],
               ["sector"], [b"abcd", "sector", b"abcd"], ["custom"],
               [None], [b"abcd", b"", b"abcd"], [b"ab", b"abcd"],
               ["stop"], [b"abcd", "stop", b"efgh"]]
    for _ in range(1200):
        scripts.append([rng.choice(chunk_pool)
                        for _ in range(rng.randint(0, 5))])
    frame_sizes = [4, 1, 2, 3, 6, 0, -4, None, 2.0]
    buffer_sizes = [4096, 1, 7, "default", 0, -1, None]
    breaks = [None, None, None, "stream", "frame_size"]
    for number, script in enumerate(scripts):
        if number < 13:
            combos = itertools.product(frame_sizes, buffer_sizes, breaks[2:])
        else:
            combos = [(rng.choice(frame_sizes), rng.choice(buffer_sizes),
                       rng.choice(breaks)) for _ in range(3)]
        for frame_size, buffer_size, break_at in combos:
            n_calls = len(script) + 3
            expected = drive(OriginalPassthroughTranscoder, script,
                             frame_size, buffer_size, break_at, n_calls)
            actual = drive(PassthroughTranscoder, script, frame_size,
                           buffer_size, break_at, n_calls)
            count += 1
            if expected != actual:
                failures += 1
                if failures < 10:
                    print("MISMATCH (traced)", script, frame_size,
                          buffer_size, break_at)
                    print("   expected", expected)
                    print("   actual  ", actual)
    return count, failures


# ---------------------------------------------------------- real streams
def drain(cls, data_stream, buffer_size):
    if buffer_size is None:
        iterator = cls(data_stream)
    else:
        iterator = cls(data_stream, buffer_size=buffer_size)
    chunks = list(iterator)
    after = []
    for _ in range(2):
        try:
            after.append(next(iterator))
        except StopIteration:
            after.append("stop")
    return chunks, after, data_stream.stream.tell()


def real_stream_cases():
    failures = 0
    count = 0
    rng = random.Random(0x16C03)
    data = bytes(rng.getrandbits(8) for _ in range(3*2352 + 1179))
    encodings = {
        1: StreamEncoding(sample_width=1, num_interleaved_channels=1),
        2: StreamEncoding(sample_width=2, num_interleaved_channels=1),
        4: StreamEncoding(sample_width=2, num_interleaved_channels=2),
        3: StreamEncoding(sample_width=3, num_interleaved_channels=1),
        6: StreamEncoding(sample_width=3, num_interleaved_channels=2),
    }
    for _ in range(2500):
        frame_size = rng.choice([4, 4, 4, 1, 2, 3, 6])
        buffer_size = rng.choice([None, 4096, 4, 8, 12, 2352, 4092, 6, 24,
                                  5, 7, 1, 1000])
        offset = rng.choice([0, 0, 2352, 4704, rng.randint(0, len(data))])
        size = rng.choice([len(data) - offset, rng.randint(0, 3000),
                           0, 1, 3, 4, 5, 2352, 2353])
        kind = rng.choice(["bytesio", "offset", "offset"])
        outcomes = []
        for cls in (OriginalPassthroughTranscoder, PassthroughTranscoder):
            if kind == "bytesio":
                stream = io.BytesIO(data[offset:offset + size])
            else:
                stream = StreamOffset(io.BytesIO(data), size, offset)
            data_stream = DataStream(stream, encodings[frame_size])
            outcomes.append(drain(cls, data_stream, buffer_size))
        count += 1
        if outcomes[0] != outcomes[1]:
            failures += 1
            if failures < 10:
                print("MISMATCH (real)", frame_size, buffer_size, offset,
                      size, kind)
            continue
        chunks = outcomes[1][0]
        joined = b"".join(chunks)
        window = data[offset:offset + size]
        if any(len(c) % frame_size or not len(c) for c in chunks):
            failures += 1
            print("BAD CHUNKS", frame_size, buffer_size, offset, size)
        effective = 4096 if buffer_size is None else buffer_size
        # (a StreamOffset of size 0 is unbounded, so it is left out here)
        if effective % frame_size == 0 and (kind == "bytesio" or size > 0):
            # aligned reads: everything but the partial tail frame arrives
            count += 1
            if joined != window[:len(window) - len(window) % frame_size]:
                failures += 1
                print("BAD TRUNCATION", frame_size, buffer_size, offset, size)
    return count, failures


# ---------------------------------------------------------------- export
def msf(total):
    return "%02d:%02d:%02d" % (total // 4500, (total // 75) % 60, total % 75)


def make_cue(rng, n_sectors):
    lines = ["FILE \"disc.bin\" BINARY\n"]
    position = rng.randint(0, 2)
    for t in range(rng.randint(1, 6)):
        lines.append("  TRACK %02d AUDIO\n" % (t + 1))
        if rng.random() < 0.4:
            lines.append("    TITLE \"Title %d\"\n" % (t + 1))
        for k in range(rng.choice([1, 1, 2, 3])):
            lines.append("    INDEX %02d %s\n" % (k, msf(position)))
            position += rng.choice([1, 1, 2, 3])
        if position >= n_sectors:
            break
    return lines


def read_tree(root):
    found = {}
    for directory, _dirs, files in os.walk(root):
        for name in files:
            path = os.path.join(directory, name)
            with open(path, "rb") as f:
                found[os.path.relpath(path, root)] = f.read()
    return found


def export_with(method, cue_path, destination):
    saved = PassthroughTranscoder.__dict__["__next__"]
    PassthroughTranscoder.__next__ = method
    captured = io.StringIO()
    try:
        os.mkdir(destination)
        with contextlib.redirect_stdout(captured):
            actions.export_samples_to_wav(cue_path, destination)
    finally:
        PassthroughTranscoder.__next__ = saved
    return read_tree(destination), captured.getvalue()


def export_cases():
    failures = 0
    count = 0
    rng = random.Random(0x316)
    live_next = PassthroughTranscoder.__dict__["__next__"]
    base = tempfile.mkdtemp(prefix="r16demo_")
    try:
        for number in range(50):
            n_sectors = rng.randint(1, 20)
            tail = rng.choice([0, 0, 1, 2, 3, 5, 1177, 2351])
            data = bytes(
                rng.getrandbits(8) for _ in range(n_sectors*2352 + tail))
            lines = make_cue(rng, n_sectors)
            directory = os.path.join(base, "case%03d" % number)
            os.mkdir(directory)
            with open(os.path.join(directory, "disc.bin"), "wb") as f:
                f.write(data)
            cue_path = os.path.join(directory, "disc.cue")
            with open(cue_path, "w", encoding="ascii") as f:
                f.writelines(lines)
            expected = export_with(original_next, cue_path,
                                   os.path.join(directory, "out_a"))
            actual = export_with(live_next, cue_path,
                                 os.path.join(directory, "out_b"))
            count += 1
            if expected != actual:
                failures += 1
                print("MISMATCH (export)", number)
                continue
            cue = parse_cue_sheet(list(lines))
            starts = [t.indices[0].get_total_audio_frames()*2352
                      for t in cue.tracks]
            titles = [t.title or "Untitled Track %d" % (i + 1)
                      for i, t in enumerate(cue.tracks)]
            if starts[-1] > len(data):
                continue
            count += 1
            ends = starts[1:] + [len(data) - (len(data) - starts[-1]) % 4]
            joined = b""
            for title, start, end in zip(titles, starts, ends):
                blob = actual[0].get(title + ".wav")
                if blob is None or blob[44:] != data[start:end]:
                    failures += 1
                    print("MISMATCH (tiling)", number, title)
                    break
                joined += blob[44:]
            else:
                if joined != data[starts[0]:ends[-1]]:
                    failures += 1
                    print("MISMATCH (concatenation)", number)

        # make_transcoder still hands out the passthrough for CDDA encoding
        encoding = StreamEncoding(sample_width=2, num_interleaved_channels=2)
        chosen = make_transcoder(
            [DataStream(io.BytesIO(b"abcdefghij"), encoding)], encoding)
        count += 1
        if type(chosen) is not PassthroughTranscoder \
                or list(chosen) != [b"abcdefgh"]:
            failures += 1
            print("MISMATCH (make_transcoder)")
    finally:
        shutil.rmtree(base, ignore_errors=True)
    return count, failures


def main():
    total = 0
    failed = 0
    for part in (traced_cases, real_stream_cases, export_cases):
        count, failures = part()
        print(part.__name__, "cases:", count, "failures:", failures)
        total += count
        failed += failures
    print("total cases:", total, "failures:", failed)
    return 1 if failed else 0


if __name__ == "__main__":
    sys.exit(main())
