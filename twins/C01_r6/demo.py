"""Equivalence demo for r6 (smpl_extract/akai/volume.py, Volume._realize_files
and Volume.files).  An inline copy of the ORIGINAL two methods is grafted onto
a subclass and both classes are driven with the same scripted file entries and
routines; the log of every observable event has to be identical.
Exit 0 = all agree."""
import itertools
import random
import sys
from typing import List

from construct.core import ConstructError, StreamError

from smpl_extract.akai.data_types import VolumeType
from smpl_extract.akai.file_entry import InvalidFileEntry
from smpl_extract.akai.volume import Volume


# ---- inline copy of the ORIGINAL implementation -------------------------
class OrigVolume(Volume):

    def _realize_files(self):
        for file_entry in self.file_entries:
            try:
                file = file_entry.file
            except (InvalidFileEntry, ConstructError) as e:
                file = None

            if file is not None:
                self._files.append(file)
        self._is_files_realized = True

    @property
    def files(self) -> List:
        if not self._is_files_realized:
            self._realize_files()
            files = self._files
            for routine in self._routines.values():
                files = routine(files)
            self._files = files
        return self._files  # type: ignore
# -------------------------------------------------------------------------


class Falsy:
    """A file object that is falsy but not None (must be kept)."""
    def __init__(self, tag):
        self.tag = tag

    def __bool__(self):
        return False

    def __repr__(self):
        return f"Falsy({self.tag})"


class ScriptedEntry:
    def __init__(self, idx, action, log):
        self.idx = idx
        self.action = action
        self.log = log

    @property
    def file(self):
        self.log.append(("access", self.idx))
        kind = self.action
        if kind == "obj":
            return ("file", self.idx)
        if kind == "none":
            return None
        if kind == "falsy":
            return Falsy(self.idx)
        if kind == "zero":
            return 0
        if kind == "empty":
            return ""
        if kind == "invalid":
            raise InvalidFileEntry(f"e{self.idx}")
        if kind == "construct":
            raise ConstructError(f"c{self.idx}")
        if kind == "stream":          # subclass of ConstructError
            raise StreamError(f"s{self.idx}")
        if kind == "value":           # must propagate
            raise ValueError(f"v{self.idx}")
        if kind == "key":             # must propagate
            raise KeyError(f"k{self.idx}")
        raise AssertionError(kind)


ACTIONS = ("obj", "none", "falsy", "zero", "empty", "invalid", "construct",
           "stream", "value", "key")


def make_routines(spec, log):
    routines = {}
    for n, kind in enumerate(spec):
        def routine(files, n=n, kind=kind):
            log.append(("routine", n, kind, list(map(repr, files))))
            if kind == "same":
                return files
            if kind == "copy":
                return list(files)
            if kind == "rev":
                return list(reversed(files))
            if kind == "drop":
                return files[1:]
            if kind == "mutate":
                files.append(("added", n))
                return files
            if kind == "raise":
                raise RuntimeError(f"r{n}")
            raise AssertionError(kind)
        routines[f"r{n}"] = routine
    return routines


def run(cls, actions, routine_spec, n_calls):
    log = []
    entries = [ScriptedEntry(i, a, log) for i, a in enumerate(actions)]
    vol = cls(
        name="VOL",
        volume_type=VolumeType.VOLUME_S1000,
        path=["P:", "VOL"],
        routines=make_routines(routine_spec, log),
        file_entries=entries,
    )
    held = []
    for call in range(n_calls):
        use_children = (call % 2 == 1)
        try:
            res = vol.children if use_children else vol.files
            held.append(res)
            log.append(("result", call, list(map(repr, res)),
                        res is vol._files,
                        [held.index(h) for h in held if h is res][:1]))
        except Exception as e:  # noqa: BLE001
            log.append(("raised", call, type(e).__name__, str(e)))
        log.append(("state", vol._is_files_realized,
                    list(map(repr, vol._files))))
    return log


def main():
    rng = random.Random(60606)
    scenarios = []
    # exhaustive over short entry lists
    for n in range(0, 4):
        for actions in itertools.product(ACTIONS, repeat=n):
            scenarios.append((actions, ()))
    # routines
    rkinds = ("same", "copy", "rev", "drop", "mutate", "raise")
    for spec_len in range(1, 4):
        for spec in itertools.product(rkinds, repeat=spec_len):
            actions = tuple(rng.choice(ACTIONS[:7]) for _ in range(rng.randrange(0, 6)))
            scenarios.append((actions, spec))
    for _ in range(1500):
        actions = tuple(rng.choice(ACTIONS) for _ in range(rng.randrange(0, 12)))
        spec = tuple(rng.choice(rkinds) for _ in range(rng.randrange(0, 4)))
        scenarios.append((actions, spec))

    failures = 0
    for actions, spec in scenarios:
        got = run(Volume, actions, spec, 4)
        want = run(OrigVolume, actions, spec, 4)
        if got != want:
            failures += 1
            if failures <= 5:
                print("MISMATCH", actions, spec)
                for g, w in zip(got, want):
                    if g != w:
                        print("   got ", g)
                        print("   want", w)
                        break

    # fixed expectations, independent of the inline copy
    log = run(Volume, ("obj", "invalid", "none", "falsy", "construct", "obj"), ("rev",), 2)
    expected_first = ("result", 0,
                      ["('file', 5)", "Falsy(3)", "('file', 0)"], True, [0])
    if log[7] != expected_first:
        failures += 1
        print("BAD fixed expectation", log[7])
    if [e for e in log if e[0] == "access"] != [("access", i) for i in range(6)]:
        failures += 1
        print("BAD access order")

    print(f"{len(scenarios) + 1} scenarios, {failures} failures")
    return 1 if failures else 0


if __name__ == "__main__":
    sys.exit(main())
