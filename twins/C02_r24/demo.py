"""Equivalence demo for r24: smpl_extract/roland/s7xx/partial_entry.py,
PartialEntry.sample_entries (the property SampleFileListAdapter._decode and
ProgramFileAdapter read for every partial of every patch - mechanism
'per-performance sample collection'; it re-roots the referenced sample entries
below the partial, runs the naming routines and caches the list).

Refactoring: the `for reference in ...: <re-root>; sample_entries.append(...)`
accumulation loop became a list comprehension over a new private method
`_adopt(sample_entry, path)` that holds the three re-rooting statements; the
enclosing `if not self._sample_entries: <compute>` became the guard clause
`if self._sample_entries: return self._sample_entries`; the local
`sample_entries` was renamed `adopted`.

The ORIGINAL property (pasted below) is installed on PartialEntry for a second
run of every scenario and the two runs are compared:
  (1) hand-built partials: 0-4 references, one sample entry referenced twice,
      nested / empty partial paths, sample entries whose own path is empty
      (IndexError half-way: what was already re-rooted is compared), routines
      (none, several in order, reversing, filtering, returning an empty list or
      a tuple, raising) with a log of their calls and arguments, preset caches
      (None, [], non-empty, other truthy / falsy objects), repeated reads
      (identity of the cached list, number of routine calls), the `children`
      alias, a `path` property that logs its reads,
  (2) whole images serialised by an independent writer (volumes x performances
      x patches x partials x <=4 samples, shared + orphan entries, shuffled
      cluster chains, cluster_top, 7 loop modes, 6 frequency codes, FAT version
      1/2, data ending on a cluster boundary): the element tree seen by a
      traversal (names, paths, parents, export names) and the exported file
      tree + stdout are compared between the two runs, and the exported PCM
      with the writer's own model,
  (3) precomputed values.
Exit 0 when everything agrees, 1 otherwise.
"""
import contextlib
import io
import os
import random
import shutil
import struct
import sys
import tempfile

from smpl_extract.actions import export_samples_to_wav
from smpl_extract.roland.s7xx import data_types as dt
from smpl_extract.roland.s7xx import image as image_mod
from smpl_extract.roland.s7xx import partial_entry
from smpl_extract.roland.s7xx import patch_entry
from smpl_extract.roland.s7xx import performance_entry
from smpl_extract.roland.s7xx import volume_entry
from smpl_extract.roland.s7xx.partial_entry import PartialEntry
from smpl_extract.roland.s7xx.partial_entry import SampleEntryReference
from smpl_extract.roland.s7xx.sample_entry import SampleEntry


# ---------------------------------------------------------------- original --
def original_sample_entries(self):
    if not self._sample_entries:
        sample_entries = []
        path = self.path
        for reference in self.sample_entry_references:
            sample_entry = reference.sample_entry
            new_path = path + [sample_entry.path[-1]]
            sample_entry._parent = self
            sample_entry._path = new_path
            sample_entries.append(sample_entry)

        for routine in self._routines.values():
            sample_entries = routine(sample_entries)
        self._sample_entries = sample_entries
    return self._sample_entries  # type: ignore
# -----------------------------------------------------------------------------

CL = dt.ROLAND_CLUSTER_SIZE
failures = []


def check(cond, what):
    if not cond:
        failures.append(what)
        print("MISMATCH:", what)


def outcome(fn):
    try:
        return ("ok", fn())
    except BaseException as e:  # noqa: BLE001
        return ("exc", type(e).__name__, str(e))


# ------------------------------------------------ independent image writer --
def field_offset(struct_decl, name):
    offset = 0
    for sc in struct_decl.subcons:
        if sc.name == name:
            return offset
        offset += sc.sizeof()
    raise KeyError(name)


AREAS = {
    "volume": (dt.VOLUME_DIRECTORY_AREA_OFFSET, dt.VOLUME_PARAMETER_AREA_OFFSET,
               dt.VOLUME_PARAMETER_ENTRY_SIZE, 0x40),
    "performance": (dt.PERFORMANCE_DIRECTORY_AREA_OFFSET, dt.PERFORMANCE_PARAMETER_AREA_OFFSET,
                    dt.PERFORMANCE_PARAMETER_ENTRY_SIZE, 0x41),
    "patch": (dt.PATCH_DIRECTORY_AREA_OFFSET, dt.PATCH_PARAMETER_AREA_OFFSET,
              dt.PATCH_PARAMETER_ENTRY_SIZE, 0x42),
    "partial": (dt.PARTIAL_DIRECTORY_AREA_OFFSET, dt.PARTIAL_PARAMETER_AREA_OFFSET,
                dt.PARTIAL_PARAMETER_ENTRY_SIZE, 0x43),
    "sample": (dt.SAMPLE_DIRECTORY_AREA_OFFSET, dt.SAMPLE_PARAMETER_AREA_OFFSET,
               dt.SAMPLE_PARAMETER_ENTRY_SIZE, 0x44),
}
PTR_FIELDS = {
    "volume": (volume_entry.VolumeParamEntryStruct, "performance_ptrs", 64),
    "performance": (performance_entry.PerformanceParamEntryStruct, "patch_list", 32),
    "patch": (patch_entry.PatchParamEntryStruct, "partial_list", dt.NUM_KEYS),
}
SAMPLE_SLOTS = [field_offset(partial_entry.PartialParamEntryStruct, "sample_%d" % i) for i in (1, 2, 3, 4)]


class ImageWriter:
    """Serialises a model of an S-7xx disk; shares no code with the parser."""

    def __init__(self, n_clusters, version=1):
        self.buf = bytearray(dt.DATA_FAT_OFFSET + (n_clusters + 2) * CL)
        self.fat = [0] * dt.FAT_NUM_ENTRIES
        self.version = version
        self.counts = dict.fromkeys(AREAS, 0)

    def _record(self, level, index, name, fat_entry=0, num_clusters=0):
        d_off, p_off, p_size, type_code = AREAS[level]
        rebase = 0x8000 if self.version == 2 else 0
        entry = name.encode("ascii").ljust(16)[:16] + struct.pack(
            "<BBHHHIHH", type_code, 0, rebase + index + 1, rebase + max(index - 1, 0), 0, 0,
            fat_entry, num_clusters)
        self.buf[d_off + 0x20 * index:d_off + 0x20 * (index + 1)] = entry
        base = p_off + p_size * index
        self.buf[base:base + p_size] = bytes(p_size)
        self.buf[base:base + 16] = name.encode("ascii").ljust(16)[:16]
        self.counts[level] = max(self.counts[level], index + 1)
        return base

    def add_container(self, level, index, name, pointers):
        base = self._record(level, index, name)
        decl, field, count = PTR_FIELDS[level]
        ptrs = list(pointers) + [-1] * (count - len(pointers))
        off = base + field_offset(decl, field)
        self.buf[off:off + 2 * count] = struct.pack("<%dh" % count, *ptrs)

    def add_partial(self, index, name, samples):
        base = self._record("partial", index, name)
        for slot, s in zip(SAMPLE_SLOTS, list(samples) + [-1] * (4 - len(samples))):
            struct.pack_into("<h", self.buf, base + slot, s)

    def add_sample(self, index, name, chain, cluster_top, points, loop_mode, freq_code, key=60):
        base = self._record("sample", index, name, fat_entry=chain[0], num_clusters=len(chain))
        for i, p in enumerate(points):
            struct.pack_into("<I", self.buf, base + 16 + 4 * i, (p << 8) | ((17 * i) & 0xff))
        struct.pack_into("<BBBBHHBB", self.buf, base + 36, loop_mode, 1, 0, 0, cluster_top,
                         len(chain) - cluster_top, freq_code, key)
        for a, b in zip(chain, chain[1:]):
            self.fat[a] = b
        self.fat[chain[-1]] = 0xfff8 + (index % 8)

    def put_cluster(self, cluster, data):
        off = dt.DATA_FAT_OFFSET + cluster * CL
        self.buf[off:off + CL] = data

    def finish(self):
        buf = self.buf
        struct.pack_into("<I", buf, 0, 1)
        buf[4:14] = b"S770 MR25A"
        buf[32:63] = b"S-770 Hard Disk Ver. 2.00".ljust(31)
        buf[64:95] = b"Copyright Roland".ljust(31)
        buf[256:272] = b"DEMO DISK".ljust(16)
        struct.pack_into("<IHHHHH", buf, 272, len(buf) // 512, self.counts["volume"],
                         self.counts["performance"], self.counts["patch"], self.counts["partial"],
                         self.counts["sample"])
        fat = list(self.fat)
        fat[0], fat[1] = dt.FAT_AREA_ID, 5
        fat[-2] = 0xffff if self.version == 1 else 0xfffe
        fat[-1] = 0xffff
        buf[dt.FAT_AREA_OFFSET:dt.FAT_AREA_OFFSET + 2 * dt.FAT_NUM_ENTRIES] = \
            struct.pack("<%dH" % dt.FAT_NUM_ENTRIES, *fat)
        return bytes(buf)


END_POINT = {0: 2, 1: 4, 2: 2, 3: 4, 4: 2, 5: 2, 6: 2}   # loop mode -> index into points
RATES = [48000, 44100, 24000, 22050, 30000, 15000]


def random_model(rng, version):
    """Model + serialised image + expected PCM per (volume, performance)."""
    n_samples = rng.randrange(3, 9)
    n_clusters = 4 * n_samples + 4
    w = ImageWriter(n_clusters, version)
    free = list(range(2, n_clusters + 2))
    rng.shuffle(free)
    sample_pcm = {}
    for s in range(n_samples):
        n = rng.randrange(1, 5)
        chain = [free.pop() for _ in range(n)]
        top = rng.randrange(0, n) if rng.random() < 0.5 else 0
        payload = []
        for c in chain:
            block = bytes(rng.getrandbits(8) for _ in range(64)) * (CL // 64)
            block = bytes([c & 0xff]) + block[1:]
            w.put_cluster(c, block)
            payload.append(block)
        data = b"".join(payload[top:])
        n_words = len(data) // 2
        last = n_words - 1
        mode = (s + rng.randrange(7)) % 7 if s >= 7 else s % 7
        start = rng.choice([0, 0, 1, 77, min(last, CL // 2)])
        if rng.random() < 0.4:
            ends = (last, last)             # data fills the last cluster exactly
        else:
            a = rng.randrange(start, last + 1)
            ends = (a, rng.randrange(a, last + 1))
        points = (start, rng.randrange(start, ends[0] + 1), ends[0],
                  rng.randrange(ends[0], ends[1] + 1), ends[1])
        w.add_sample(s, "S%02d" % s, chain, top, points, mode, rng.randrange(6), 36 + s)
        words = struct.unpack("<%dh" % n_words, data)[start:points[END_POINT[mode]] + 1]
        if mode in (5, 6):
            words = words[::-1]
        sample_pcm[s] = struct.pack("<%dh" % len(words), *words)
    n_partials = rng.randrange(2, 7)
    partials = {}
    for p in range(n_partials):
        partials[p] = [rng.randrange(n_samples) for _ in range(rng.randrange(1, 5))]
        w.add_partial(p, "PT%02d" % p, partials[p])
    n_patches = rng.randrange(1, 5)
    patches = {}
    for p in range(n_patches):
        patches[p] = [rng.randrange(n_partials) for _ in range(rng.randrange(1, 4))]
        w.add_container("patch", p, "PA%02d" % p, patches[p])
    n_perf = rng.randrange(1, 5)
    perfs = {}
    for p in range(n_perf):
        perfs[p] = [rng.randrange(n_patches) for _ in range(rng.randrange(1, 3))]
        w.add_container("performance", p, "PF%02d" % p, perfs[p])
    n_vol = rng.randrange(0, 3)
    vols = {}
    for v in range(n_vol):
        vols[v] = [rng.randrange(n_perf) for _ in range(rng.randrange(1, 3))]
        w.add_container("volume", v, "VOL%02d" % v, vols[v])

    def perf_pcm(p):
        blobs = []
        for patch in sorted(set(perfs[p])):
            seen = []
            for part in sorted(set(patches[patch])):
                for s in partials[part]:
                    if s not in seen:
                        seen.append(s)
            blobs += [sample_pcm[s] for s in seen]
        return sorted(blobs)
    expected = {}
    referenced = set()
    for v, plist in vols.items():
        for p in sorted(set(plist)):
            referenced.add(p)
            expected[("VOL%02d" % v, "PF%02d" % p)] = perf_pcm(p)
    orphan_volume = "_Orphan_perf" if n_vol else "All Performances"
    for p in range(n_perf):
        if p not in referenced:
            expected[(orphan_volume, "PF%02d" % p)] = perf_pcm(p)
    return w.finish(), expected


# ------------------------------------------------------------------ part 1 --
LOG = []


class LoggingPartial(PartialEntry):
    """PartialEntry whose `path` reads are logged."""

    @property
    def path(self):
        LOG.append(("path read",))
        return PartialEntry.path.fget(self)


class Truthy:
    def __repr__(self):
        return "<Truthy>"

    def __bool__(self):
        LOG.append(("bool", True))
        return True


class Falsy:
    def __repr__(self):
        return "<Falsy>"

    def __bool__(self):
        LOG.append(("bool", False))
        return False


class BadBool:
    def __repr__(self):
        return "<BadBool>"

    def __bool__(self):
        raise ValueError("no truth value")


def ident(entries):
    """Describe sample entries (or whatever a routine returned)."""
    if isinstance(entries, (list, tuple)):
        return (type(entries).__name__, [
            (e.directory_name, list(e._path), id(e._path), type(e._parent).__name__)
            if isinstance(e, SampleEntry) else repr(e) for e in entries])
    return repr(entries)


def make_routines(kind):
    def log_call(name, entries):
        LOG.append((name, type(entries).__name__, [getattr(e, "directory_name", repr(e)) for e in entries]))

    def keep(entries):
        log_call("keep", entries)
        return entries

    def rev(entries):
        log_call("rev", entries)
        return list(reversed(entries))

    def drop_first(entries):
        log_call("drop_first", entries)
        return entries[1:]

    def empty(entries):
        log_call("empty", entries)
        return []

    def as_tuple(entries):
        log_call("as_tuple", entries)
        return tuple(entries)

    def boom(entries):
        log_call("boom", entries)
        raise RuntimeError("routine failed on %d" % len(entries))

    def rename(entries):
        log_call("rename", entries)
        for i, e in enumerate(entries):
            e._safe_name = "safe%d" % i
        return entries

    return {
        "none": {},
        "keep": {"a": keep},
        "rev+drop": {"r": rev, "d": drop_first},
        "drop+rev": {"d": drop_first, "r": rev},
        "empty": {"e": empty, "k": keep},
        "tuple": {"t": as_tuple},
        "boom": {"k": keep, "b": boom, "r": rev},
        "rename": {"n": rename, "r": rev},
        "list routines": [],          # what pull_child_info yields when nothing was set
    }[kind]


ROUTINE_KINDS = ["none", "keep", "rev+drop", "drop+rev", "empty", "tuple", "boom", "rename", "list routines"]


def make_partial(cls, n_refs, routines, partial_path, shared=False, broken_at=None):
    samples = []
    for i in range(n_refs):
        s = SampleEntry(directory_name="smp%d" % i, parameter_name="prm%d" % i, index=10 + i,
                        _path=["old", "place", "smp%d" % i])
        if broken_at == i:
            s._path = []
        samples.append(s)
    if shared and n_refs >= 2:
        samples[-1] = samples[0]
    refs = [SampleEntryReference(sample_entry=s, pan=i) for i, s in enumerate(samples)]
    partial = cls(directory_name="part", parameter_name="part", sample_entry_references=refs,
                  _path=partial_path, _routines=routines)
    return partial, samples


def one_case(cls, n_refs, kind, partial_path, shared, broken_at, preset, use_children):
    del LOG[:]
    partial, samples = make_partial(cls, n_refs, make_routines(kind), partial_path, shared, broken_at)
    if preset != "unset":
        value = {"None": None, "[]": [], "list": ["cached"], "tuple": ("c",), "()": (), "0": 0,
                 "str": "abc", "truthy": Truthy(), "falsy": Falsy(), "badbool": BadBool()}[preset]
        partial._sample_entries = value
    read = (lambda: partial.children) if use_children else (lambda: partial.sample_entries)
    first = outcome(read)
    first_desc = ident(first[1]) if first[0] == "ok" else first
    state_1 = [(s.directory_name, list(s._path), type(s._parent).__name__, s._parent is partial)
               for s in samples]
    cache_1 = ident(partial._sample_entries)
    second = outcome(read)
    second_desc = ident(second[1]) if second[0] == "ok" else second
    same_object = first[0] == "ok" and second[0] == "ok" and first[1] is second[1]
    is_cache = second[0] == "ok" and second[1] is partial._sample_entries
    paths_distinct = len({id(s._path) for s in samples}) == len({id(s) for s in samples})
    safe = [s.safe_name for s in samples]
    return (first_desc[:1] + tuple(strip_ids(x) for x in first_desc[1:]) if isinstance(first_desc, tuple) else first_desc,
            state_1, strip_ids(cache_1), strip_ids(second_desc), same_object, is_cache, paths_distinct, safe,
            list(LOG))


def strip_ids(desc):
    """ids differ from run to run; keep only their equality pattern."""
    if isinstance(desc, tuple) and len(desc) == 2 and isinstance(desc[1], list):
        ids = [row[2] for row in desc[1] if isinstance(row, tuple)]
        order = {v: i for i, v in enumerate(dict.fromkeys(ids))}
        return (desc[0], [(row[0], row[1], order[row[2]], row[3]) if isinstance(row, tuple) else row
                          for row in desc[1]])
    if isinstance(desc, list):
        return strip_ids(("list", desc))
    return desc


def scenario_units():
    out = []
    for cls in (PartialEntry, LoggingPartial):
        for n_refs in (0, 1, 2, 3, 4):
            for kind in ROUTINE_KINDS:
                for partial_path in ([], ["vol", "perf", "patch", "part"]):
                    out.append((cls.__name__, n_refs, kind, len(partial_path),
                                one_case(cls, n_refs, kind, partial_path, False, None, "unset", False)))
        for kind in ("none", "rev+drop", "rename"):
            out.append((cls.__name__, "shared", kind,
                        one_case(cls, 3, kind, ["p"], True, None, "unset", False)))
            for broken_at in (0, 1, 2):
                out.append((cls.__name__, "broken", kind, broken_at,
                            one_case(cls, 3, kind, ["p"], False, broken_at, "unset", False)))
        for preset in ("None", "[]", "list", "tuple", "()", "0", "str", "truthy", "falsy", "badbool"):
            for kind in ("none", "keep", "empty"):
                for use_children in (False, True):
                    out.append((cls.__name__, "preset", preset, kind, use_children,
                                one_case(cls, 2, kind, ["p"], False, None, preset, use_children)))
    # references attribute that is not a list
    for refs in (None, (), iter([]), 5):
        partial = PartialEntry(directory_name="x", sample_entry_references=refs)
        out.append(("odd references", repr(type(refs)), outcome(lambda: ident(partial.sample_entries))))
    partial = PartialEntry(directory_name="x", sample_entry_references=[object()])
    out.append(("odd reference item", outcome(lambda: ident(partial.sample_entries))))
    partial = PartialEntry(directory_name="x", _routines=None)
    out.append(("routines None", outcome(lambda: ident(partial.sample_entries))))
    return out


# ------------------------------------------------------------------ part 2 --
def traversal(image_bytes):
    image = image_mod.RolandSxxImageParser(io.BytesIO(image_bytes))
    image.set_routines({
        "make_safe_names": image.make_safe_names_routine,
        "make_export_names": image.make_export_names_routine,
    })
    rows = []
    for volume in image.volumes:
        for performance in volume.children:
            for patch in performance.patch_entries:
                for part in patch.partial_entries:
                    entries = part.sample_entries
                    rows.append(("partial", list(part.path), [
                        (e.name, list(e.path), e.parent is part, e.safe_name, e.export_name, e.index,
                         list(e._data_stream.sector_list)) for e in entries],
                        entries is part.sample_entries, entries is part.children,
                        [r.sample_entry is e for r, e in zip(part.sample_entry_references, entries)]))
            for f in performance.files:
                rows.append(("file", type(f).__name__, f.name, list(f.path), f.safe_name, f.export_name,
                             f.export_path(), type(f.parent).__name__))
                if hasattr(f, "partials"):
                    rows.append(("program", [[s.sample for s in p.samples] for p in f.partials]))
    return rows


def export(image_path, out_dir):
    stdout = io.StringIO()
    with contextlib.redirect_stdout(stdout):
        res = outcome(lambda: export_samples_to_wav(image_path, out_dir))
    tree = {}
    for root, _dirs, files in os.walk(out_dir):
        for f in files:
            full = os.path.join(root, f)
            with open(full, "rb") as fh:
                tree[os.path.relpath(full, out_dir).replace(os.sep, "/")] = fh.read()
    return res, stdout.getvalue(), tree


def wav_payload(blob):
    pos = 12
    while pos + 8 <= len(blob):
        tag, size = blob[pos:pos + 4], struct.unpack("<I", blob[pos + 4:pos + 8])[0]
        if tag == b"data":
            return blob[pos + 8:pos + 8 + size]
        pos += 8 + size + (size & 1)
    return None


def scenario_images(workdir, label):
    out = []
    rng = random.Random(2424)
    for trial in range(8):
        version = 1 + trial % 2
        image, expected = random_model(rng, version)
        image_path = os.path.join(workdir, "image_%s_%d.img" % (label, trial))
        with open(image_path, "wb") as fh:
            fh.write(image)
        out_dir = os.path.join(workdir, "out_%s_%d" % (label, trial))
        os.mkdir(out_dir)
        rows = outcome(lambda: traversal(image))
        res, stdout, tree = export(image_path, out_dir)
        out.append((trial, rows, res, stdout, tree))
        check(rows[0] == "ok" and res[0] == "ok", f"{label} image {trial}: {rows[:1]} {res}")
        got = {}
        for rel, blob in tree.items():
            parts = rel.split("/")
            got.setdefault((parts[0], parts[1]), []).append(wav_payload(blob))
        got = {k: sorted(v) for k, v in got.items()}
        check(got == expected, f"{label} image {trial}: PCM differs from the writer's model")
        check(len(tree) > 0, f"{label} image {trial}: nothing exported")
    return out


def run_all(workdir, label):
    return {
        "units": scenario_units(),
        "images": scenario_images(workdir, label),
    }


def first_difference(a, b):
    for i, (x, y) in enumerate(zip(a, b)):
        if x != y:
            return i, x, y
    return None


def main():
    workdir = tempfile.mkdtemp(prefix="r24_demo_")
    saved = PartialEntry.__dict__["sample_entries"]
    check(isinstance(saved, property), "sample_entries is a property")
    try:
        live_results = run_all(workdir, "live")
        PartialEntry.sample_entries = property(original_sample_entries)
        try:
            original_results = run_all(workdir, "original")
        finally:
            PartialEntry.sample_entries = saved
    finally:
        shutil.rmtree(workdir, ignore_errors=True)

    total = 0
    for key in live_results:
        a, b = live_results[key], original_results[key]
        total += len(a)
        check(len(a) == len(b), f"{key}: lengths")
        if a != b:
            check(False, f"{key}: first difference {first_difference(a, b)!r}"[:900])

    # (3) precomputed
    partial, samples = make_partial(PartialEntry, 3, {}, ["v", "p"], False, None)
    entries = partial.sample_entries
    check(entries == samples and all(a is b for a, b in zip(entries, samples)), "precomputed order")
    check([s._path for s in samples] == [["v", "p", "smp0"], ["v", "p", "smp1"], ["v", "p", "smp2"]],
          "precomputed paths")
    check(all(s._parent is partial for s in samples), "precomputed parents")
    check(partial.sample_entries is entries and partial.children is entries, "precomputed caching")
    n_exc = sum(1 for r in live_results["units"] if "exc" in repr(r[-1][0]))
    check(n_exc >= 20, f"raising unit cases: {n_exc}")
    n_files = sum(len(r[4]) for r in live_results["images"])

    print(f"{total} scenario records compared ({len(live_results['units'])} unit cases, {n_exc} raising; "
          f"{n_files} exported files), {len(failures)} mismatches")
    return 1 if failures else 0


if __name__ == "__main__":
    sys.exit(main())
