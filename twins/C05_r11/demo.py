"""Equivalence demo for r11: transcoder.encode_frame (temporaries renamed,
list(genexpr) -> list comprehension, Fortran-order reshape spelled as
transpose + C-order reshape) and transcoder.resize_buffer (modulo computed
once, early return, `len - remainder` instead of `(len // size) * size`)
versus inline copies of the ORIGINAL implementations; also a full L/R
split-stream transcode through make_transcoder (decode_frame -> encode_frame).
Exit 0 when all inputs agree, 1 otherwise.
"""
from io import BytesIO
import random
import sys

import numpy as np

from smpl_extract import transcoder
from smpl_extract.data_streams import DataStream
from smpl_extract.data_streams import Endianess
from smpl_extract.data_streams import StreamEncoding
from smpl_extract.transcoder import encode_frame
from smpl_extract.transcoder import make_transcoder
from smpl_extract.transcoder import pad_channels
from smpl_extract.transcoder import resize_buffer


# --------------------------------------------------------------------------
# ORIGINAL implementations (verbatim)
# --------------------------------------------------------------------------
def original_resize_buffer(buffer, frame_size):
    if len(buffer) % frame_size != 0:
        num_frames = len(buffer) // frame_size
        true_size = num_frames * frame_size
        buffer = buffer[:true_size]
    return buffer


def original_encode_frame(channels, dest_dtype):
    channels = pad_channels(channels)
    channels = list(x.astype(dest_dtype) for x in channels)
    result = np.vstack(channels).reshape((-1,), order='F').tobytes()
    return result


def outcome(fn, *args):
    try:
        r = fn(*args)
        return ("ok", type(r).__name__, bytes(r) if r is not None else None)
    except Exception as e:
        return ("exc", type(e).__name__)


def outcome_ident(fn, buf, fs):
    """Like outcome() but also records whether the very same object came back."""
    try:
        r = fn(buf, fs)
        return ("ok", type(r).__name__, bytes(r), r is buf)
    except Exception as e:
        return ("exc", type(e).__name__)


FAIL = [0]
COUNT = [0]


def check(label, a, b, detail):
    COUNT[0] += 1
    if a != b:
        FAIL[0] += 1
        if FAIL[0] <= 5:
            print("MISMATCH", label, detail)
            print("  original:", a)
            print("  current :", b)


def test_resize_buffer(rnd):
    frame_sizes = [1, 2, 3, 4, 6, 8, 16, 4096, 0, -1, -2, -3, 2.0, 3.0, True]
    for n in list(range(0, 40)) + [4095, 4096, 4097, 8191]:
        raw = bytes(rnd.getrandbits(8) for _ in range(n))
        for fs in frame_sizes:
            for buf in (raw, bytearray(raw), memoryview(raw)):
                check("resize_buffer",
                      outcome_ident(original_resize_buffer, buf, fs),
                      outcome_ident(resize_buffer, buf, fs),
                      (n, fs, type(buf).__name__))
    for bad in (None, 5, [1, 2, 3], "abcde"):
        for fs in (1, 2, 0):
            check("resize_buffer-bad",
                  outcome(original_resize_buffer, bad, fs)[:2],
                  outcome(resize_buffer, bad, fs)[:2], (bad, fs))


DTYPES = ["int8", "uint8", "int16", "<i2", ">i2", "uint16", "int32", ">i4",
          "int64", "float32", "float64"]


def random_channel(rnd, n, dt):
    if dt.startswith("float"):
        return np.array([rnd.uniform(-1e4, 1e4) for _ in range(n)], dtype=dt)
    info = np.iinfo(np.dtype(dt))
    return np.array([rnd.randint(info.min, info.max) for _ in range(n)],
                    dtype=dt)


def test_encode_frame(rnd):
    dests = [np.dtype(d) for d in
             ("int8", "uint8", "int16", ">i2", "int32", ">i4", "int64",
              "float32")] + ["int16", np.int16, "no-such-dtype", None]
    # systematic small shapes
    for num_ch in range(0, 5):
        for lens in ([0] * num_ch, [1] * num_ch, [7] * num_ch,
                     list(range(num_ch)), list(range(num_ch, 0, -1)),
                     [3, 0, 5, 1][:num_ch]):
            for src in ("int16", ">i2", "int8", "float32"):
                chans = [random_channel(rnd, n, src) for n in lens]
                for dest in dests:
                    check("encode_frame",
                          outcome(original_encode_frame, list(chans), dest),
                          outcome(encode_frame, list(chans), dest),
                          (lens, src, dest))
    # random
    for _ in range(1500):
        num_ch = rnd.randint(1, 6)
        base = rnd.randint(0, 300)
        equal = rnd.random() < 0.6
        chans = []
        for _c in range(num_ch):
            n = base if equal else max(0, base + rnd.randint(-5, 5))
            chans.append(random_channel(rnd, n, rnd.choice(DTYPES)))
        dest = rnd.choice(dests[:8])
        with np.errstate(all="ignore"):
            check("encode_frame-rnd",
                  outcome(original_encode_frame, list(chans), dest),
                  outcome(encode_frame, list(chans), dest),
                  ([len(c) for c in chans], dest))
    # non-contiguous views, 2-D "channels", lists, scalars, generators
    big = random_channel(rnd, 64, "int16")
    odd_inputs = [
        [big[::2], big[1::2]],
        [big[::-1], big],
        [big[:10].reshape(2, 5), big[10:20].reshape(2, 5)],
        [big[:12].reshape(3, 4), big[12:20].reshape(2, 4)],
        [big[:6].reshape(1, 2, 3), big[6:12].reshape(1, 2, 3)],
        [[1, 2, 3], [4, 5, 6]],
        [np.int16(3), np.int16(4)],
        (big[:4], big[4:8]),
        None,
    ]
    for inp in odd_inputs:
        for dest in (np.dtype("int16"), np.dtype(">i4")):
            check("encode_frame-odd",
                  outcome(original_encode_frame, inp, dest),
                  outcome(encode_frame, inp, dest), (repr(inp)[:60], dest))
    # inputs must not be modified
    chans = [random_channel(rnd, 9, "int16"), random_channel(rnd, 4, "int16")]
    before = [c.tobytes() for c in chans]
    keep = list(chans)
    encode_frame(chans, np.dtype("int16"))
    after = [c.tobytes() for c in chans]
    check("encode_frame-pure", (before, True),
          (after, all(a is b for a, b in zip(chans, keep))), "inputs")


class CountingIO(BytesIO):
    def __init__(self, data, log, tag):
        super().__init__(data)
        self._log = log
        self._tag = tag

    def read(self, n=-1):
        self._log.append((self._tag, "read", n))
        return super().read(n)

    def seek(self, *a):
        self._log.append((self._tag, "seek") + tuple(a))
        return super().seek(*a)


def transcode(use_original, payloads, encs, dest):
    saved = (transcoder.encode_frame, transcoder.resize_buffer)
    if use_original:
        transcoder.encode_frame = original_encode_frame
        transcoder.resize_buffer = original_resize_buffer
    log = []
    try:
        try:
            streams = [DataStream(CountingIO(p, log, i), e)
                       for i, (p, e) in enumerate(zip(payloads, encs))]
            chunks = list(make_transcoder(streams, dest))
            res = ("ok", chunks)
        except Exception as e:
            res = ("exc", type(e).__name__, str(e))
    finally:
        transcoder.encode_frame, transcoder.resize_buffer = saved
    return res, log


def test_pipeline(rnd):
    for _ in range(400):
        width = rnd.choice([1, 2, 4])
        layout = rnd.choice(["LR", "LR", "mono", "inter", "LRX", "mixed"])
        if layout == "LR":
            encs = [StreamEncoding(rnd.choice(list(Endianess)), width, 1)
                    for _ in range(2)]
        elif layout == "mono":
            encs = [StreamEncoding(rnd.choice(list(Endianess)), width, 1)]
        elif layout == "inter":
            encs = [StreamEncoding(rnd.choice(list(Endianess)), width, 2)]
        elif layout == "LRX":
            encs = [StreamEncoding(rnd.choice(list(Endianess)), width, 1)
                    for _ in range(3)]
        else:
            encs = [StreamEncoding(Endianess.BIG, width, 2),
                    StreamEncoding(Endianess.LITTLE, width, 1)]
        total = sum(max(1, e.num_interleaved_channels) for e in encs)
        if rnd.random() < 0.1:
            total += 1      # IncompatibleNumberOfChannels
        dest = StreamEncoding(rnd.choice(list(Endianess)),
                              rnd.choice([width, width, 2]), total)
        nbytes = rnd.choice([0, 1, 3, 10, 64, 4095, 4096, 4097, 9001])
        payloads = []
        for e in encs:
            n = nbytes if rnd.random() < 0.6 else max(
                0, nbytes + rnd.randint(-9, 9))
            payloads.append(bytes(rnd.getrandbits(8) for _ in range(n)))
        a = transcode(True, payloads, encs, dest)
        b = transcode(False, payloads, encs, dest)
        check("pipeline", a, b, (layout, width, dest, [len(p) for p in payloads]))


def main():
    rnd = random.Random(1105)
    test_resize_buffer(rnd)
    test_encode_frame(rnd)
    test_pipeline(rnd)

    # known-answer check: L in channel 0, R in channel 1, frame by frame
    left = np.array([1, 2, 3, 4], dtype="int16")
    right = np.array([-1, -2, -3, -4], dtype="int16")
    expect = np.array([1, -1, 2, -2, 3, -3, 4, -4], dtype="int16").tobytes()
    check("known-answer", expect,
          encode_frame([left, right], np.dtype("int16")), "LR")
    check("known-answer-resize", b"abcd", resize_buffer(b"abcde", 2), "ab")

    print("checked %d cases, %d mismatches" % (COUNT[0], FAIL[0]))
    return 1 if FAIL[0] else 0


if __name__ == "__main__":
    sys.exit(main())
