"""Equivalence demo for the _bytes_to_double refactoring (smpl_extract/filters/common.py).

_bytes_to_double decodes the four big-endian double images of the CDXtract
Roland de-emphasis kernel (CdXtractRolandDeemphFilter = FirFilter with delay
offset 0, the plain 'history carried between blocks' path).  The edit
replaces `struct.unpack(">d", x)[0]` by a module-level precompiled
`struct.Struct(">d")` whose 1-tuple result is taken apart by an unpacking
assignment `(y,) = ...`.

Compared against an inline copy of the ORIGINAL function:
  * every kind of 8-byte image (random, NaN payloads, infinities, denormals,
    signed zeros): the result must be the same float bit for bit,
  * wrong lengths and wrong argument types: same exception type and message,
  * buffer-like arguments (bytearray, memoryview, numpy bytes),
  * the module constant _cdxtract_roland_deemph_h against precomputed bytes,
  * CdXtractRolandDeemphFilter streams (all compositions of short signals,
    random splits of long ones, reset, flush, reuse) against a pure-Python
    reference FIR built from the ORIGINAL decoding of the coefficients.

Exit 0 when everything agrees, 1 otherwise.
"""
import itertools
import random
import struct
import sys
import warnings

import numpy as np

from smpl_extract.filters import common
from smpl_extract.filters.fir import FirFilter

warnings.simplefilter("ignore")


# ---------------------------------------------------------------- ORIGINAL
def orig_bytes_to_double(x: bytes) -> float:
    y = struct.unpack(">d", x)[0]
    return y


ORIG_RAW = (
    b"\x3F\x74\xC0\x29\x80\x53\x00\xA6",
    b"\x3F\xD4\x32\xA8\x65\x50\xCA\xA2",
    b"\x3F\xE3\x50\xE6\xA1\xCD\x43\x9B",
    b"\x3F\xB3\x62\x26\xC4\x4D\x88\x9B",
)
# precomputed: little-endian float64 image of the 8-tap kernel
EXPECTED_H_HEX = (
    "a600538029c0743f" "a2ca5065a832d43f" "9b43cda1e650e33f" "9b884dc42662b33f"
    "0000000000000000" "0000000000000000" "0000000000000000" "0000000000000000"
)

FAILS = []
CHECKS = [0]


def expect(label, ok, *info):
    CHECKS[0] += 1
    if not ok:
        FAILS.append((label,) + info)


def outcome(fn, arg):
    try:
        v = fn(arg)
    except BaseException as e:  # noqa
        return ("exc", type(e).__name__, str(e))
    if type(v) is float:
        return ("ok", "float", struct.pack(">d", v))
    return ("ok", type(v).__name__, repr(v))


def same_arr(a, b):
    return (isinstance(a, np.ndarray) and isinstance(b, np.ndarray) and a.dtype == b.dtype
            and a.shape == b.shape and a.tobytes() == b.tobytes())


class RefFir:
    """pure-Python model of the ORIGINAL FirFilter (delay offset 0)"""

    def __init__(self, h):
        self.N = len(h)
        self.h = h
        self.m0 = 0
        self.m1 = self.N - 1
        self.x_prev = np.zeros(self.m1)

    def reset_state(self):
        self.x_prev = np.zeros(self.m1)

    def _cv(self, x):
        if np.size(x) < np.size(self.h):
            return np.asarray([], dtype=x.dtype)
        return np.convolve(x, self.h, "valid")

    def process(self, x):
        dtype = x.dtype
        x_full = np.concatenate([self.x_prev, x])
        self.x_prev = x[-(self.N - 1):]
        return self._cv(x_full).astype(dtype)

    def get_remaining(self):
        dtype = self.x_prev.dtype
        y = self._cv(np.concatenate([self.x_prev, np.zeros(0)])).astype(dtype)
        self.reset_state()
        return y


def run_stream(f, x, cuts, reset_at=None):
    out, lo = [], 0
    for j, hi in enumerate(cuts):
        if reset_at is not None and j == reset_at:
            f.reset_state()
        out.append(f.process(x[lo:hi]))
        out.append(np.array(f.x_prev))
        lo = hi
    out.append(f.get_remaining())
    out.append(np.array(f.x_prev))
    return out


def stream_outcome(f, x, cuts, reset_at=None):
    try:
        return ("ok", run_stream(f, x, cuts, reset_at))
    except BaseException as e:  # noqa
        return ("exc", type(e).__name__)


def same_stream(a, b):
    if a[0] != b[0]:
        return False
    if a[0] == "exc":
        return a[1] == b[1]
    return len(a[1]) == len(b[1]) and all(same_arr(p, q) for p, q in zip(a[1], b[1]))


def main():
    rng = random.Random(1917)
    nrng = np.random.default_rng(1917)
    new = common._bytes_to_double

    # 1. eight-byte images
    images = list(ORIG_RAW)
    images += [bytes(8), b"\x80" + bytes(7), b"\xff" * 8, b"\x7f\xf0" + bytes(6), b"\xff\xf0" + bytes(6),
               b"\x7f\xf8" + bytes(6), b"\x7f\xf0" + bytes(5) + b"\x01", b"\xff\xf7" + b"\xff" * 6,
               bytes(7) + b"\x01", b"\x80" + bytes(6) + b"\x01", b"\x00\x0f" + b"\xff" * 6,
               b"\x00\x10" + bytes(6), b"\x7f\xef" + b"\xff" * 6, b"\x3f\xf0" + bytes(6),
               b"\xbf\xf0" + bytes(6), b"\x40\xdf\xff\xc0" + bytes(4)]
    images += [bytes(rng.randrange(256) for _ in range(8)) for _ in range(20000)]
    images += [struct.pack(">d", v) for v in (0.005066072573015534, 0.315591906491287,
                                                0.6036255989257485, 0.07571642200994903)]
    for img in images:
        a, b = outcome(orig_bytes_to_double, img), outcome(new, img)
        expect("image", a == b and a[0] == "ok" and a[1] == "float" and a[2] == img, img, a, b)
    # buffer-like spellings of the same bytes
    for img in images[:200]:
        for wrap in (bytearray, memoryview, lambda v: np.frombuffer(v, dtype=np.uint8),
                     lambda v: memoryview(bytearray(v))):
            a, b = outcome(orig_bytes_to_double, wrap(img)), outcome(new, wrap(img))
            expect("buffer", a == b and a[0] == "ok", img, a, b)

    # 2. wrong lengths
    for n in list(range(0, 8)) + list(range(9, 40)) + [64, 1000]:
        img = bytes(rng.randrange(256) for _ in range(n))
        for wrap in (bytes, bytearray, memoryview):
            a, b = outcome(orig_bytes_to_double, wrap(img)), outcome(new, wrap(img))
            expect("length", a == b and a[:2] == ("exc", "error"), n, a, b)

    # 3. wrong types
    class Weird:
        pass

    wrong = [None, 0, 1.5, "12345678", "", [1, 2, 3, 4, 5, 6, 7, 8], (1,) * 8, {"a": 1}, Weird(), object,
             np.float64(1.0), np.zeros(1), np.zeros(8, dtype=np.uint8), np.zeros(2, dtype=np.float32),
             np.zeros((2, 4), dtype=np.uint8), range(8), True, b"12345678".decode(), 2 ** 70]
    for w in wrong:
        a, b = outcome(orig_bytes_to_double, w), outcome(new, w)
        expect("type", a == b, repr(w), a, b)

    # 4. the module constant built with the function
    h = common._cdxtract_roland_deemph_h
    expect("h type", isinstance(h, np.ndarray) and h.dtype == np.float64 and h.shape == (8,), h)
    expect("h bytes", h.astype("<f8").tobytes().hex() == EXPECTED_H_HEX, h.tobytes().hex())
    h_orig = np.asarray([orig_bytes_to_double(r) for r in ORIG_RAW] + [0.0] * 4, dtype=np.double)
    expect("h == original decoding", same_arr(h, h_orig), h, h_orig)
    f = common.CdXtractRolandDeemphFilter()
    expect("filter", isinstance(f, FirFilter) and f.h is h and f.N == 8 and f.m0 == 0 and f.m1 == 7
           and same_arr(np.asarray(f.x_prev), np.zeros(7)), vars(f))

    # 5. streams: every composition of short signals, random splits of long ones
    def splits(n):
        if n == 0:
            yield []
        elif n <= 9:
            for bits in itertools.product([0, 1], repeat=n - 1):
                yield [i + 1 for i, bit in enumerate(bits) if bit] + [n]
        else:
            yield [n]
            yield list(range(1, n + 1))
            for _ in range(6):
                k = rng.randint(0, min(n - 1, 12))
                yield sorted(rng.sample(range(1, n), k)) + [n]

    sigs = []
    for n in range(0, 10):
        sigs.append(nrng.integers(-32768, 32768, n).astype(np.int16))
        sigs.append(nrng.uniform(-1, 1, n))
    sigs += [np.full(30, 32767, dtype=np.int16), np.full(30, -32768, dtype=np.int16),
             np.asarray([-32768, 32767] * 15, dtype=np.int16), nrng.uniform(-1e6, 1e6, 50),
             nrng.integers(-32768, 32768, 100).astype(np.int16), nrng.integers(-2 ** 31, 2 ** 31, 40).astype(np.int32),
             nrng.uniform(-1, 1, 33).astype(np.float32)]
    n_streams = 0
    for x in sigs:
        for cuts in splits(len(x)):
            reset_at = rng.choice([None, None, rng.randrange(len(cuts))]) if cuts else None
            f, g = common.CdXtractRolandDeemphFilter(), RefFir(h_orig)
            a, b = stream_outcome(f, x, cuts, reset_at), stream_outcome(g, x, cuts, reset_at)
            expect("stream", same_stream(a, b) and a[0] == "ok", cuts, reset_at, a[0], b[0])
            n_streams += 1
            if n_streams % 7 == 0:          # reuse after the flush
                z = nrng.integers(-32768, 32768, 13).astype(np.int16)
                a, b = stream_outcome(f, z, [1, 4, 13]), stream_outcome(g, z, [1, 4, 13])
                expect("reuse", same_stream(a, b))

    print("images: %d, streams: %d, checks: %d, failures: %d" % (len(images), n_streams, CHECKS[0], len(FAILS)))
    for fail in FAILS[:10]:
        print("FAIL", fail)
    return 1 if FAILS else 0


if __name__ == "__main__":
    sys.exit(main())
