"""Equivalence demo for the `file_stream` Computed of FileEntryConstruct
(smpl_extract/akai/file_entry.py).

An inline copy of the ORIGINAL FileEntryConstruct (same field constructs, the
original lambda) is compared with the live one on many raw 24-byte directory
entries (good, bad names, bad types, zero/over-long sizes, start sectors that
are free, out of range, or on a looping chain) against real allocation tables
sharing one traced image handle: parsed fields, stream type/state, exceptions,
the order of allocation-table calls, the bytes of every file stream under
interleaved block reads, and the exact seek/read/tell sequence on the shared
handle.  The whole directory reader (FileEntriesAdapter) is compared as well.
Exit 0 when everything agrees.
"""
import io
import random
import sys

from construct.core import Computed
from construct.core import Int8ul
from construct.core import Int16ul
from construct.core import Int24ul
from construct.core import Padding
from construct.core import Struct
from construct.lib.containers import Container

from smpl_extract.akai.akai_string import AkaiPaddedString
from smpl_extract.akai.data_types import AKAI_SECTOR_SIZE
from smpl_extract.akai.data_types import FileType
from smpl_extract.akai.file_entry import FileEntriesAdapter
from smpl_extract.akai.file_entry import FileEntryConstruct as LiveConstruct
from smpl_extract.akai.sat import SegmentAllocationTable
from smpl_extract.util.constructs import EnumWrapper
from smpl_extract.util.fat import SectorLink
from smpl_extract.util.stream import StreamOffset
from smpl_extract.util.stream import StreamWrapper


# verbatim copy of the original definition
OrigConstruct = Struct(
    "name"      / AkaiPaddedString(12),
    Padding(4),
    "file_type" / EnumWrapper(Int8ul, FileType),
    "size"      / Int24ul,
    "start"     / Int16ul,
    Padding(2),
    "file_stream" / Computed(lambda this:
        StreamWrapper(this._.sat.get_segment(this.start), this.size)
    )
)


class TraceIO(io.BytesIO):
    def __init__(self, data):
        super().__init__(data)
        self.trace = []

    def seek(self, off, whence=0):
        r = super().seek(off, whence)
        self.trace.append(("seek", off, whence, r))
        return r

    def read(self, n=-1):
        r = super().read(n)
        self.trace.append(("read", n, len(r)))
        return r

    def tell(self):
        r = super().tell()
        self.trace.append(("tell", r))
        return r


class LoggingTable(SegmentAllocationTable):
    """Real table that also records how it is asked for segments."""

    def __init__(self, *a, **k):
        super().__init__(*a, **k)
        self.calls = []

    def get_segment(self, index):
        self.calls.append(("get_segment", index, type(index).__name__))
        return super().get_segment(index)


FAILS = []
COUNT = [0]


def check(label, a, b):
    COUNT[0] += 1
    if a != b:
        FAILS.append(label)
        if len(FAILS) < 10:
            print("MISMATCH", label, "\n  orig:", repr(a)[-700:], "\n  live:", repr(b)[-700:])


def guarded(f):
    try:
        return ("ok", f())
    except Exception as e:  # noqa
        return ("exc", type(e).__name__, str(e)[:80])


def wrapper_state(w):
    d = dict(w.__dict__)
    sub = d.pop("substream", None)
    sd = dict(sub.__dict__)
    sd.pop("substream", None)
    return (type(w).__name__, sorted(d.items()), type(sub).__name__, sorted(sd.items()))


N_SECT = 20
_RND = random.Random(8)
IMAGE = b"".join(
    bytes([s]) * 8 + bytes(_RND.randrange(256) for _ in range(AKAI_SECTOR_SIZE - 8))
    for s in range(N_SECT)
)


def make_table(rnd, handle):
    """Random table: chains, free sectors (self-ending), one loop, one dangling link."""
    window = StreamOffset(handle, len(IMAGE), 0)
    order = list(range(1, N_SECT))
    rnd.shuffle(order)
    links = [SectorLink()] * N_SECT
    starts = []
    pos = 0
    while pos < len(order) - 3:
        ln = rnd.randrange(1, 5)
        chain = order[pos:pos + ln]
        pos += ln
        for a, b in zip(chain, chain[1:]):
            links[a] = SectorLink(b, False)
        links[chain[-1]] = SectorLink(0, True)
        starts.append(chain[0])
    loop_a, loop_b, dangling = order[-3], order[-2], order[-1]
    links[loop_a] = SectorLink(loop_b, False)
    links[loop_b] = SectorLink(loop_a, False)
    links[dangling] = SectorLink(N_SECT + 5, False)
    table = LoggingTable(window, N_SECT, links)
    return table, starts, [loop_a, dangling, N_SECT, N_SECT + 100, 0xFFFF]


GOOD_TYPES = [int(t) for t in FileType]


def raw_entry(rnd, starts, bad_starts):
    name = bytes(rnd.randrange(0, 0x29) for _ in range(12))
    if rnd.random() < 0.1:
        name = bytes([rnd.randrange(0x29, 256)]) + name[1:]          # invalid character
    ftype = rnd.choice(GOOD_TYPES) if rnd.random() < 0.9 else rnd.randrange(256)
    size = rnd.choice([0, 1, 7, 150, AKAI_SECTOR_SIZE - 1, AKAI_SECTOR_SIZE, AKAI_SECTOR_SIZE + 1,
                       3 * AKAI_SECTOR_SIZE, 0xFFFFFF, rnd.randrange(0, 5 * AKAI_SECTOR_SIZE)])
    start = rnd.choice(starts) if rnd.random() < 0.75 else rnd.choice(bad_starts + [0])
    return (name + bytes(rnd.randrange(256) for _ in range(4)) + bytes([ftype])
            + size.to_bytes(3, "little") + start.to_bytes(2, "little")
            + bytes(rnd.randrange(256) for _ in range(2)))


def parse_one(construct, table, raw, outer):
    def run():
        c = construct.parse(raw, _=outer, sat=table)
        keys = [k for k in c.keys()]
        return (keys, c.name, c.file_type, type(c.file_type).__name__, c.size, c.start,
                wrapper_state(c.file_stream), c.file_stream.substream.substream is table.parent_stream)
    return guarded(run)


def single_entries(construct, seed):
    rnd = random.Random(seed)
    handle = TraceIO(IMAGE)
    table, starts, bad = make_table(rnd, handle)
    outer = Container(sat=table)
    out = []
    for _ in range(25):
        raw = raw_entry(rnd, starts, bad)
        out.append(parse_one(construct, table, raw, outer))
    # truncated input and a context without a table
    out.append(guarded(lambda: construct.parse(b"\x0b" * 23, _=outer, sat=table))[:2])
    # `this._` inside the Struct is the top-level parse context, so the table
    # is the one passed as sat=...; without it the lookup fails the same way
    out.append(parse_one(construct, table, raw_entry(rnd, starts, bad), Container()))
    out.append(guarded(lambda: construct.parse(raw_entry(rnd, starts, [0])))[:2])
    out.append(guarded(lambda: construct.parse(raw_entry(rnd, starts, [0]), _=outer))[:2])
    return out, table.calls, handle.trace, construct.sizeof()


def interleaved(construct, seed):
    """Streams of several entries over one handle, block reads / seeks interleaved."""
    rnd = random.Random(seed)
    handle = TraceIO(IMAGE)
    table, starts, bad = make_table(rnd, handle)
    outer = Container(sat=table)
    streams = []
    while len(streams) < 4:
        raw = raw_entry(rnd, starts, [0])
        try:
            c = construct.parse(raw, _=outer, sat=table)
        except Exception:  # noqa
            continue
        streams.append(c.file_stream)
    out = []
    for _ in range(50):
        i = rnd.randrange(len(streams))
        r = rnd.random()
        if r < 0.75:
            n = rnd.choice([0, 1, 33, 0x800, 0x1000, 0x2000, 0x2345])
            out.append((i, guarded(lambda: streams[i].read(n))))
        elif r < 0.95:
            off, wh = rnd.randrange(-9, 3 * AKAI_SECTOR_SIZE), rnd.choice([0, 1, 2])
            out.append((i, guarded(lambda: streams[i].seek(off, wh))))
        else:
            out.append((i, streams[i].tell()))
    return out, table.calls, handle.trace, [wrapper_state(s) for s in streams]


def directory(construct, seed):
    """The real directory reader over a table of raw entries."""
    rnd = random.Random(seed)
    handle = TraceIO(IMAGE)
    table, starts, bad = make_table(rnd, handle)
    n = rnd.randrange(0, 12)
    raw = b"".join(raw_entry(rnd, starts, bad) for _ in range(n))
    if rnd.random() < 0.5:
        raw += bytes(8) + (0xD747).to_bytes(2, "little") + bytes(14)     # end-of-table marker
        raw += raw_entry(rnd, starts, bad)
    adapter = FileEntriesAdapter(lambda ctx: ctx.sat, construct)

    def run():
        entries = adapter.parse(raw, sat=table)
        return [(e.name, e.file_type, callable(e._f_file_content)) for e in entries]

    return guarded(run), table.calls, handle.trace


def main():
    for seed in range(120):
        check("single%d" % seed, single_entries(OrigConstruct, seed), single_entries(LiveConstruct, seed))
    for seed in range(200):
        check("interleaved%d" % seed, interleaved(OrigConstruct, 500 + seed), interleaved(LiveConstruct, 500 + seed))
    for seed in range(150):
        check("directory%d" % seed, directory(OrigConstruct, 900 + seed), directory(LiveConstruct, 900 + seed))

    # structure of the construct itself
    check("subcon-names", [sc.name for sc in OrigConstruct.subcons], [sc.name for sc in LiveConstruct.subcons])
    check("subcon-types", [type(sc).__name__ for sc in OrigConstruct.subcons],
          [type(sc).__name__ for sc in LiveConstruct.subcons])

    # coverage sanity: both successes and each failure class must have occurred
    seen = set()
    for seed in range(120):
        for r in single_entries(OrigConstruct, seed)[0]:
            seen.add(r[0] if r[0] == "ok" else r[1])
    needed = {"ok", "RequestedInvalidSector", "InvalidFatDefinition"}
    if not needed <= seen:
        print("coverage hole:", needed - seen, seen)
        return 1

    print("checks:", COUNT[0], "failures:", len(FAILS), "outcomes seen:", sorted(seen))
    return 1 if FAILS else 0


if __name__ == "__main__":
    sys.exit(main())
