"""Equivalence demo for r23: smpl_extract.transcoder.make_transcoder, the
construction of the pad-and-interleave step (f_encode) of the pipeline.

The live make_transcoder is compared with an inline copy of the ORIGINAL
(module globals are read through the module object so that the patched host
byte order and the patched block size are seen by both):

  1. for 1..3 streams x 0..3 interleaved channels x widths 1/2/4 x byte order
     per stream x destination byte order x destination signedness x host byte
     order x block sizes {1 byte .. 4096 bytes}: transcoder class, step
     names, the three pipeline fields, and the result of calling the
     pipeline's f_encode directly on probe channel lists (equal and unequal
     channel lengths -> padding, empty channels, no channels, dtypes that
     differ from the destination, byte-swapped arrays);
  2. the complete transcodings of equal and unequal length inputs (0 frames
     and partial trailing frames included), byte for byte, together with the
     final stream positions and the bad-argument exceptions.

Exit 0 when everything agrees, 1 otherwise.
"""
from io import BytesIO
from io import SEEK_SET
import itertools
import random
import sys
from typing import Callable
from typing import List
from typing import Tuple
from unittest.mock import patch

import numpy as np

import smpl_extract.transcoder as T
from smpl_extract.data_streams import DataStream
from smpl_extract.data_streams import Endianess
from smpl_extract.data_streams import IncompatibleNumberOfChannels
from smpl_extract.data_streams import NoDataStream
from smpl_extract.data_streams import StreamEncoding


# ---------------------------------------------------------------- ORIGINAL
def make_transcoder_ORIG(data_streams, dest_encoding):

    # check for bad args
    if len(data_streams) <= 0:
        raise NoDataStream("No data streams given")

    total_num_channels = 0
    for data_stream in data_streams:
        num_channels = max(1, data_stream.encoding.num_interleaved_channels)
        total_num_channels += num_channels
    expected_num_channels = dest_encoding.num_interleaved_channels
    if total_num_channels != expected_num_channels:
        raise IncompatibleNumberOfChannels(
            f"Expected {expected_num_channels} fourd {total_num_channels}."
        )

    # begin
    for data_stream in data_streams:
        data_stream.stream.seek(0, SEEK_SET)
    buffer_sizes = T.get_buffer_sizes(data_streams)

    if len(data_streams) == 1 \
            and data_streams[0].encoding == dest_encoding:
        result = T.PassthroughTranscoder(
            data_streams[0],
            buffer_size=buffer_sizes[0]
        )
        return result

    processes: List[Tuple[
        str,
        Callable[[List[np.ndarray]], List[np.ndarray]]
    ]]
    processes = []

    # is byteswap needed at input?
    swaps = list(
        x.encoding.endianess != T.system_byte_order
        for x in data_streams
        for _ in range(max(1, x.encoding.num_interleaved_channels))
    )
    if any(swaps):
        if all(swaps):
            processes.append(("swap_input_endianess", T.swap_endianess))
        else:
            processes.append((
                "swap_input_endianess_multi",
                lambda x: T.swap_endianess_multi(x, swaps)
            ))

    # is byte swap needed at output?
    if dest_encoding.endianess != T.system_byte_order:
        processes.append(("swap_output_endianess", T.swap_endianess))

    dest_dtype = dest_encoding.dtype

    f_decode_frame = lambda x: T.decode_frame(x, buffer_sizes=buffer_sizes)
    f_encode_frame = lambda x: T.encode_frame(x, dest_dtype=dest_dtype)
    pipeline = T.TranscodePipelineStruct(
        f_decode_frame,
        processes,
        f_encode_frame
    )

    result = T.PipelineTranscoder(data_streams, pipeline)
    return result


# ------------------------------------------------------------------ helpers
failures = []
checks = 0


def check(label, a, b):
    global checks
    checks += 1
    if a != b:
        failures.append((label, a, b))


def pattern(n, seed):
    rnd = random.Random(seed)
    return bytes(rnd.randrange(256) for _ in range(n))


def call_encode(f_encode, channels):
    try:
        result = f_encode(channels)
        return ("ok", type(result).__name__, bytes(result))
    except Exception as e:  # noqa: BLE001
        return ("exc", type(e).__name__, str(e))


def build_streams(layout, lengths, seed):
    """layout: list of (num_interleaved_channels, width, endianess)."""
    streams = []
    for i, ((nch, width, order), length) in enumerate(zip(layout, lengths)):
        enc = StreamEncoding(endianess=order, sample_width=width,
                             num_interleaved_channels=nch)
        streams.append(DataStream(BytesIO(pattern(length, seed + i)), enc))
    return streams


def describe(maker, layout, lengths, dest, host, block, seed, probes):
    """Everything observable about the transcoder built by `maker`."""
    out = []
    defaults = T.get_num_frames_possible.__defaults__
    try:
        with patch.object(T, "system_byte_order", host):
            T.get_num_frames_possible.__defaults__ = (block,)
            streams = build_streams(layout, lengths, seed)
            transcoder = maker(streams, dest)
        out.append(type(transcoder).__name__)
        if isinstance(transcoder, T.PipelineTranscoder):
            out.append(transcoder.data_streams is streams)
            pipeline = transcoder.pipeline
            out.append(type(pipeline).__name__)
            out.append(sorted(vars(pipeline)))
            out.append(sorted(vars(transcoder)))
            out.append([name for name, _ in pipeline.processes])
            out.append((callable(pipeline.f_decode),
                        callable(pipeline.f_encode)))
            for probe in probes:
                before = [c.tobytes() for c in probe]
                out.append(call_encode(pipeline.f_encode, probe))
                # the probe arrays themselves are left alone
                out.append(before == [c.tobytes() for c in probe])
        else:
            out.append(transcoder.buffer_size)
            out.append(transcoder.data_stream is streams[0])
        for chunk in transcoder:
            out.append((type(chunk).__name__, bytes(chunk)))
        out.append([s.stream.tell() for s in streams])
    except Exception as e:  # noqa: BLE001
        out.append(("exc", type(e).__name__, str(e)))
    finally:
        T.get_num_frames_possible.__defaults__ = defaults
    return out


def make_probes(total_channels, width, seed):
    rnd = random.Random(seed)
    same = {1: np.int8, 2: np.int16, 4: np.int32}[width]
    probes = []
    for count in sorted({0, 1, total_channels, total_channels + 1}):
        for dtype in (same, np.uint8, np.int64, np.float64):
            # equal lengths
            frames = rnd.choice([0, 1, 4])
            probes.append([
                np.array([rnd.randrange(0, 100) for _ in range(frames)],
                         dtype=dtype)
                for _ in range(count)])
            # unequal lengths -> padding towards zero
            probes.append([
                np.array([rnd.randrange(-120, 120)
                          for _ in range(rnd.randrange(0, 7))]).astype(dtype)
                for _ in range(count)])
        # byte-swapped / non-native arrays
        probes.append([
            np.array([rnd.randrange(-100, 100)
                      for _ in range(rnd.randrange(1, 5))],
                     dtype=same).byteswap()
            for _ in range(count)])
        probes.append([
            np.array([rnd.randrange(-100, 100) for _ in range(3)],
                     dtype=np.dtype(same).newbyteorder(">"))
            for _ in range(count)])
    # things that are not lists of arrays
    probes.append([np.zeros((2, 2), dtype=same), np.zeros(2, dtype=same)])
    return probes


def run_grid():
    orders = [Endianess.LITTLE, Endianess.BIG]
    case = 0
    for num_streams in (1, 2, 3):
        for nchs in itertools.product((0, 1, 2, 3), repeat=num_streams):
            if num_streams == 3 and max(nchs) == 3 and min(nchs) == 0:
                continue  # keep the run time reasonable
            for width in (1, 2, 4):
                for stream_orders in itertools.product(orders,
                                                       repeat=num_streams):
                    case += 1
                    rnd = random.Random(case)
                    dest_order = rnd.choice(orders)
                    host = rnd.choice(orders)
                    layout = [(n, width, o)
                              for n, o in zip(nchs, stream_orders)]
                    total = sum(max(1, n) for n in nchs)
                    dest = StreamEncoding(
                        endianess=dest_order, sample_width=width,
                        num_interleaved_channels=total,
                        is_signed=rnd.random() < 0.8)
                    frames = rnd.choice([0, 1, 2, 11, 700])
                    equal = [frames * max(1, n) * width for n in nchs]
                    unequal = [rnd.choice([0, 1, 5, 12, 650]) * max(1, n)
                               * width + rnd.choice([0, 0, 1])
                               for n in nchs]
                    block = rnd.choice([1, width, 3 * width, 16, 64, 4096])
                    probes = make_probes(total, width, case) \
                        if case % 4 == 0 else []
                    for lengths in (equal, unequal):
                        label = (layout, lengths, dest_order, host, block)
                        check(label,
                              describe(T.make_transcoder, layout, lengths,
                                       dest, host, block, case, probes),
                              describe(make_transcoder_ORIG, layout, lengths,
                                       dest, host, block, case, probes))


def run_bad_args():
    results = []
    for maker in (T.make_transcoder, make_transcoder_ORIG):
        r = []
        for streams, dest in [
            ([], StreamEncoding()),
            (build_streams([(2, 2, Endianess.LITTLE), (1, 2, Endianess.BIG)],
                           [8, 4], 1),
             StreamEncoding(num_interleaved_channels=2, sample_width=2)),
            (build_streams([(1, 2, Endianess.BIG)], [8], 1), None),
            (build_streams([(1, 2, Endianess.BIG)], [8], 1),
             StreamEncoding(sample_width=3)),   # falls back to int16
            (build_streams([(1, 2, Endianess.BIG)], [9], 1),
             StreamEncoding(sample_width=2, is_signed=False)),
        ]:
            try:
                transcoder = maker(streams, dest)
                r.append((type(transcoder).__name__,
                          [bytes(b) for b in transcoder]))
            except Exception as e:  # noqa: BLE001
                r.append((type(e).__name__, str(e)))
        results.append(r)
    check("bad args", results[0], results[1])


def run_known_values():
    # padding + interleaving really happens in the live f_encode
    with patch.object(T, "system_byte_order", Endianess.LITTLE):
        streams = build_streams(
            [(1, 2, Endianess.LITTLE), (1, 2, Endianess.BIG)], [4, 4], 7)
        transcoder = T.make_transcoder(
            streams, StreamEncoding(sample_width=2,
                                    num_interleaved_channels=2))
    probe = [np.array([1, 2, 3], dtype=np.int16),
             np.array([9], dtype=np.int16)]
    got = np.frombuffer(transcoder.pipeline.f_encode(probe), dtype="<i2")
    # channel 1 is padded with a linear ramp from 9 down to 0
    check("known interleave", got.tolist()[0::2], [1, 2, 3])
    check("known padding", (got.tolist()[1], got.tolist()[5]), (9, 0))
    check("known length", len(got), 6)


if __name__ == "__main__":
    run_grid()
    run_bad_args()
    run_known_values()
    print(f"{checks} checks, {len(failures)} disagreements")
    for failure in failures[:5]:
        print("DISAGREE", repr(failure)[:600])
    sys.exit(1 if failures else 0)
