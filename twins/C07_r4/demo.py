"""Equivalence demo for r4: add_to_sector_links (smpl_extract/util/fat.py).

Compares the live function against an inline copy of the ORIGINAL
implementation: same final table (also after a failure part-way through),
same exception type / message / cause, same consumption of the iterable.
Exit 0 when everything agrees, 1 otherwise.
"""
import itertools
import random
import sys

from smpl_extract.util.fat import InvalidFatDefinition
from smpl_extract.util.fat import SectorLink
from smpl_extract.util.fat import add_to_sector_links


def original_add_to_sector_links(links_arg, sector_links):

    links_iter = iter(links_arg)
    prev_link = next(links_iter)
    try:
        for link in links_iter:
            sector_links[prev_link] = SectorLink(next=link, end=False)
            prev_link = link
        sector_links[prev_link] = SectorLink(next=0, end=True)

    except IndexError as e:
        raise InvalidFatDefinition(
            f"FAT entry {prev_link} exceeds total "
            f"number of FAT entries {len(sector_links)}."
        ) from e


class CountingIter:
    """Iterable that records how many items were pulled from it."""

    def __init__(self, items):
        self.items = list(items)
        self.pulled = 0

    def __iter__(self):
        for item in self.items:
            self.pulled += 1
            yield item


def run(fn, links, n, wrap):
    default = SectorLink()
    table = [default] * n
    arg = wrap(links)
    try:
        ret = fn(arg, table)
        res = ("ok", ret)
    except BaseException as e:  # noqa: BLE001 - StopIteration etc. included
        cause = e.__cause__
        res = ("exc", type(e), e.args, str(e),
               type(cause), getattr(cause, "args", None))
    state = [(l.next, l.end, l is default) for l in table]
    pulled = getattr(arg, "pulled", None)
    return res, state, pulled


checked = 0
mismatches = 0


def compare(links, n, wrap=list):
    global checked, mismatches
    new = run(add_to_sector_links, links, n, wrap)
    old = run(original_add_to_sector_links, links, n, wrap)
    checked += 1
    if new != old:
        mismatches += 1
        if mismatches <= 10:
            print("MISMATCH links=%r n=%d wrap=%r\n  new=%r\n  old=%r"
                  % (links, n, wrap, new, old))


# --- exhaustive: tables of 0..4 entries, chains of 0..4 links ------------------
for n in range(0, 5):
    values = list(range(-n - 2, n + 3))     # in range, negative wrap, out of range
    for length in range(0, 5):
        for links in itertools.product(values, repeat=length):
            for wrap in (list, tuple, CountingIter, iter):
                compare(links, n, wrap)

# --- non-integer link values (TypeError must propagate unchanged) ------------
for links in (["a"], [0, "a"], [None], [1.5, 0], [0, None, 1]):
    compare(links, 3)

# --- random long chains on realistic table sizes --------------------------------
rng = random.Random(0xC07)
for _ in range(1200):
    n = rng.choice([16, 300, 11386, 0x10000])
    length = rng.randrange(1, 60)
    links = [rng.randrange(n) for _ in range(length)]
    if rng.random() < 0.3:
        links[rng.randrange(length)] = rng.choice([n, n + 1, 2 * n, -n - 1, -1])
    if rng.random() < 0.3 and length > 2:
        links[-1] = links[0]                 # revisits a sector: later write wins
    compare(links, n, rng.choice([list, CountingIter]))

print("checked %d cases, %d mismatches" % (checked, mismatches))
sys.exit(1 if mismatches else 0)
