"""Equivalence demo for determine_image_type (smpl_extract/actions.py), the
entry point of `ls` and `export` that reads the lines of a candidate cue sheet
(parse_text_file), hands them to the cue line consumption
(attempt_parse_cue_sheet -> parse_cue_sheet) and falls back to the binary image
parsers when the text is not a cue sheet.

Compares the determine_image_type of the tree with a verbatim copy of the
ORIGINAL (compiled into the namespace of smpl_extract.actions so that both see
the very same globals) on files created in a fresh temporary directory:
binary images, ASCII junk, an empty file, non-ASCII text, audio / data / mixed
cue sheets with their .bin files, a cue sheet without tracks, with a broken
TRACK line, with a missing .bin, a self-referencing cue sheet, relative paths,
a missing path, a directory, already opened streams, non-path arguments, and
1500 random cue sheets built from a vocabulary of good and bad cue lines.
Also with parse_text_file / attempt_parse_cue_sheet replaced by stubs that
return falsy values or raise BadCueSheet / BadTextFile subclasses and foreign
exceptions.

Compared per case: the kind and the visible state of the returned image
(class, underlying file name / mode / position / size, CDDA tracks with
titles, sample counts and stream windows), the exception (type and
arguments), the ordered log of every open() call (file name, mode, extra
arguments) and of every call of parse_text_file / attempt_parse_cue_sheet,
and the text printed by ls_action for the root.
Exit 0 when everything agrees, 1 otherwise.
"""
import builtins
import contextlib
import io
import os
import random
import shutil
import sys
import tempfile

import smpl_extract.actions as actions
from smpl_extract.actions import BadTextFile
from smpl_extract.cuesheet import BadCueSheet


ORIGINAL_SOURCE = '''
def _demo_original_determine_image_type(file: Union[str, BufferedReader]):
    if isinstance(file, str):
        is_textfile = True
        lines = []
        try:
            lines = parse_text_file(file)
        except BadTextFile:
            is_textfile = False

        if is_textfile:
            parent_directory = os.path.dirname(file)
            try:
                result = attempt_parse_cue_sheet(lines, parent_directory)
                return result
            except BadCueSheet:
                pass

        file_stream = open(file, "rb")
    else:
        file_stream = file

    if is_mdf_image(file_stream):
        file_stream = MdfStream(file_stream)
    elif is_mdx_image(file_stream):
        file_stream = MdxStream(file_stream)

    if is_roland_s7xx_image(file_stream):
        result = RolandSxxImageParser(file_stream)
    else:
        result = AkaiImageParser(file_stream)
    return result
'''
exec(compile(ORIGINAL_SOURCE, "<original determine_image_type>", "exec"),
     vars(actions))
ORIGINAL = actions._demo_original_determine_image_type
TREE = actions.determine_image_type
REAL_OPEN = builtins.open
REAL_PARSE_TEXT_FILE = actions.parse_text_file
REAL_ATTEMPT = actions.attempt_parse_cue_sheet

EVENTS = []
OPENED = []


def logged_open(file, *args, **kwargs):
    name = os.path.basename(file) if isinstance(file, str) else repr(file)
    EVENTS.append(("open", name, args, tuple(sorted(kwargs.items()))))
    handle = REAL_OPEN(file, *args, **kwargs)
    OPENED.append(handle)
    return handle


def logged_parse_text_file(filename):
    EVENTS.append(("parse_text_file", os.path.basename(str(filename))))
    return REAL_PARSE_TEXT_FILE(filename)


def logged_attempt(lines, directory=""):
    EVENTS.append(("attempt", tuple(lines), os.path.basename(directory)))
    return REAL_ATTEMPT(lines, directory)


def describe_stream(stream):
    if isinstance(stream, (io.BufferedReader, io.TextIOWrapper)):
        return ("file", os.path.basename(str(stream.name)), stream.mode,
                stream.closed or stream.tell())
    return type(stream).__name__


def describe_image(image):
    if image is None or isinstance(image, (int, str, tuple)):
        return ("plain", image)
    described = [type(image).__name__]
    for key, value in sorted(vars(image).items()):
        if isinstance(value, io.IOBase):
            described.append((key, describe_stream(value)))
        elif isinstance(value, (int, str, bool, type(None))):
            described.append((key, value))
        elif key == "tracks":
            tracks = []
            for track in value:
                window = track._data_stream
                tracks.append((
                    track.title, track.num_audio_samples, track._path,
                    window.offset, window.end_of_file,
                    describe_stream(window.substream)
                ))
            described.append((key, tracks))
        else:
            described.append((key, type(value).__name__))
    return tuple(described)


def close_opened():
    while OPENED:
        handle = OPENED.pop()
        with contextlib.suppress(Exception):
            handle.close()


def run_determine(function, argument_factory):
    """one call of determine_image_type, everything observable recorded"""
    del EVENTS[:]
    actions.determine_image_type = function  # used by the recursive call too
    builtins.open = logged_open
    try:
        argument = argument_factory()
        try:
            image = function(argument)
            outcome = ("ok", describe_image(image))
        except Exception as e:  # noqa: compared below
            outcome = ("raised", type(e).__name__, tuple(map(str, e.args)))
    finally:
        builtins.open = REAL_OPEN
        actions.determine_image_type = TREE
    events = list(EVENTS)
    close_opened()
    return outcome, events


def run_ls(function, path):
    """ls of the root through the public action (which calls the function)"""
    del EVENTS[:]
    actions.determine_image_type = function
    builtins.open = logged_open
    captured = io.StringIO()
    try:
        try:
            with contextlib.redirect_stdout(captured):
                actions.ls_action(path, "")
            outcome = ("ok",)
        except Exception as e:  # noqa: compared below
            outcome = ("raised", type(e).__name__, tuple(map(str, e.args)))
    finally:
        builtins.open = REAL_OPEN
        actions.determine_image_type = TREE
    events = list(EVENTS)
    close_opened()
    return outcome, captured.getvalue(), events


def write(path, data):
    mode = "wb" if isinstance(data, bytes) else "w"
    with REAL_OPEN(path, mode) as handle:
        handle.write(data)
    return path


CUE_VOCABULARY = [
    'FILE "audio.bin" BINARY', 'FILE "data.bin" BINARY', 'file "audio.bin" binary',
    'FILE "nothere.bin" BINARY', 'FILE "audio.bin" WAVE', 'FILE audio.bin BINARY',
    '  TRACK 01 AUDIO', '  TRACK 02 AUDIO', '  TRACK 03 MODE1/2352',
    '  track 04 audio', '  TRACK xx AUDIO', 'TRACK 05',
    '    INDEX 01 00:00:00', '    INDEX 01 00:02:00', '    INDEX 00 00:01:74',
    '    INDEX 01 00:00', '    TITLE "One"', '    TITLE ""', 'TITLE "Disc"',
    'REM comment', 'PERFORMER "x"', '', '   ', '\t', 'junk'
]


def build_cases(root, rng):
    cases = []  # (label, argument factory, path for ls or None)
    path_of = lambda name: os.path.join(root, name)

    binary = bytes(rng.randrange(256) for _ in range(5000))
    write(path_of("akai.img"), b"\xff\xfe" + binary)
    write(path_of("audio.bin"), bytes(2352 * 450))
    write(path_of("data.bin"), b"\x80" + binary)
    write(path_of("ascii_junk.txt"), "hello\nworld\n\n  TRACK 01 AUDIO\n")
    write(path_of("ascii_binary.img"), "".join(
        chr(rng.randrange(1, 128)) for _ in range(3000)
    ))
    write(path_of("empty.cue"), "")
    write(path_of("blank.cue"), "\n   \n\t\n")
    write(path_of("latin1.cue"), 'FILE "audio.bin" BINARY\nREM caf\xe9\n'.encode("latin-1"))
    write(path_of("audio.cue"), (
        'REM made by demo\nFILE "audio.bin" BINARY\n  TRACK 01 AUDIO\n'
        '    TITLE "First"\n    INDEX 01 00:00:00\n  TRACK 02 AUDIO\n'
        '    INDEX 00 00:01:50\n    INDEX 01 00:02:00\n  TRACK 03 AUDIO\n'
        '    INDEX 01 00:04:00\n'
    ))
    write(path_of("data.cue"), (
        'FILE "data.bin" BINARY\n  TRACK 01 MODE1/2352\n    INDEX 01 00:00:00\n'
    ))
    write(path_of("mixed.cue"), (
        'FILE "data.bin" BINARY\n  TRACK 01 AUDIO\n    INDEX 01 00:00:00\n'
        '  TRACK 02 MODE2/2352\n    INDEX 01 00:03:00\n'
    ))
    write(path_of("missing.cue"), (
        'FILE "nothere.bin" BINARY\n  TRACK 01 AUDIO\n    INDEX 01 00:00:00\n'
    ))
    write(path_of("missing_data.cue"), (
        'FILE "nothere.bin" BINARY\n  TRACK 01 MODE1/2352\n'
    ))
    write(path_of("notracks.cue"), 'FILE "audio.bin" BINARY\n')
    write(path_of("badtrack.cue"), 'FILE "audio.bin" BINARY\njunk line\n')
    write(path_of("second_file.cue"), (
        'junk\nFILE "audio.bin" BINARY\n  TRACK 01 AUDIO\n    INDEX 01 00:00:00\n'
        'FILE "data.bin" BINARY\n  TRACK 02 MODE1/2352\n'
    ))
    write(path_of("self.cue"), 'FILE "self.cue" BINARY\n  TRACK 01 MODE1/2352\n')
    write(path_of("nofile.cue"), '  TRACK 01 AUDIO\n    INDEX 01 00:00:00\n')
    os.mkdir(path_of("sub"))
    write(os.path.join(root, "sub", "audio.bin"), bytes(2352 * 80))
    write(os.path.join(root, "sub", "inner.cue"), (
        'FILE "audio.bin" BINARY\n  TRACK 01 AUDIO\n    INDEX 01 00:00:10\n'
    ))

    names = [
        "akai.img", "audio.bin", "data.bin", "ascii_junk.txt",
        "ascii_binary.img", "empty.cue", "blank.cue", "latin1.cue",
        "audio.cue", "data.cue", "mixed.cue", "missing.cue",
        "missing_data.cue", "notracks.cue", "badtrack.cue", "second_file.cue",
        "self.cue", "nofile.cue", os.path.join("sub", "inner.cue"),
        "does_not_exist.cue", "sub", ""
    ]
    for name in names:
        full = path_of(name) if name else root
        cases.append((name or "<root dir>", (lambda full=full: full), full))
    # relative paths (dirname is the empty string); cwd is the temp root
    for name in ("audio.cue", "data.cue", "akai.img", "missing.cue"):
        cases.append(("relative " + name, (lambda name=name: name), name))
    # already opened streams and things that are no path
    for name in ("akai.img", "audio.cue", "audio.bin"):
        full = path_of(name)
        cases.append((
            "stream " + name,
            (lambda full=full: logged_open(full, "rb")),
            None
        ))
    cases.append(("BytesIO", lambda: io.BytesIO(binary), None))
    cases.append(("empty BytesIO", lambda: io.BytesIO(b""), None))
    cases.append(("None", lambda: None, None))
    cases.append(("bytes path", lambda: os.fsencode(path_of("audio.cue")), None))
    cases.append(("int", lambda: 7, None))

    # random cue sheets
    for i in range(1500):
        lines = [rng.choice(CUE_VOCABULARY) for _ in range(rng.randrange(0, 9))]
        if rng.random() < 0.6:
            lines.insert(0, rng.choice(CUE_VOCABULARY[:3]))
        name = f"fuzz{i:04d}.cue"
        write(path_of(name), "\n".join(lines) + ("\n" if rng.random() < 0.7 else ""))
        full = path_of(name)
        cases.append((name, (lambda full=full: full), full if i % 5 == 0 else None))
    return cases


class SubBadCueSheet(BadCueSheet):
    pass


class SubBadTextFile(BadTextFile):
    pass


def build_stub_cases(root):
    """(label, parse_text_file stub or None, attempt stub or None, path)"""
    path = os.path.join(root, "audio.cue")
    binary_path = os.path.join(root, "akai.img")

    def returning(value):
        def stub(*args, **kwargs):
            EVENTS.append(("stub returns", repr(value)))
            # a fresh list per call: the cue parser consumes its argument
            return list(value) if isinstance(value, list) else value
        return stub

    def raising(error):
        def stub(*args, **kwargs):
            EVENTS.append(("stub raises", type(error).__name__))
            raise error
        return stub

    stubs = []
    for label, attempt in [
        ("attempt -> None", returning(None)),
        ("attempt -> 0", returning(0)),
        ("attempt -> ''", returning("")),
        ("attempt -> tuple", returning(("x", 1))),
        ("attempt raises BadCueSheet", raising(BadCueSheet("a"))),
        ("attempt raises BadCueSheet subclass", raising(SubBadCueSheet("b"))),
        ("attempt raises BadTextFile", raising(BadTextFile("c"))),
        ("attempt raises ValueError", raising(ValueError("d"))),
        ("attempt raises KeyError", raising(KeyError("e"))),
        ("attempt raises StopIteration", raising(StopIteration("f"))),
    ]:
        stubs.append((label, None, attempt, path))
        stubs.append((label + " (binary)", None, attempt, binary_path))
    for label, parse in [
        ("parse raises BadTextFile", raising(BadTextFile("g"))),
        ("parse raises BadTextFile subclass", raising(SubBadTextFile("h"))),
        ("parse raises BadCueSheet", raising(BadCueSheet("i"))),
        ("parse raises OSError", raising(OSError("j"))),
        ("parse -> []", returning([])),
        ("parse -> None", returning(None)),
        ("parse -> lines", returning(['FILE "audio.bin" BINARY', "TRACK 1 AUDIO"])),
    ]:
        stubs.append((label, parse, None, path))
        stubs.append((label + " + attempt raises", parse,
                      raising(BadCueSheet("k")), path))
    return stubs


def main():
    failures = 0
    root = tempfile.mkdtemp(prefix="r20_demo_")
    previous_cwd = os.getcwd()
    os.chdir(root)
    actions.parse_text_file = logged_parse_text_file
    actions.attempt_parse_cue_sheet = logged_attempt
    try:
        rng = random.Random(20)
        cases = build_cases(root, rng)
        kinds = {}
        for label, factory, ls_path in cases:
            expected = run_determine(ORIGINAL, factory)
            actual = run_determine(TREE, factory)
            kind = expected[0][1][0] if expected[0][0] == "ok" else expected[0][1]
            kinds[kind] = kinds.get(kind, 0) + 1
            if expected != actual:
                failures += 1
                if failures <= 10:
                    print("MISMATCH", label)
                    print("  expected", expected)
                    print("  actual  ", actual)
            if ls_path is not None:
                expected = run_ls(ORIGINAL, ls_path)
                actual = run_ls(TREE, ls_path)
                if expected != actual:
                    failures += 1
                    if failures <= 10:
                        print("MISMATCH ls", label)
                        print("  expected", expected)
                        print("  actual  ", actual)
        print(f"files: {len(cases)} cases, outcomes {sorted(kinds.items())}")

        stub_cases = build_stub_cases(root)
        for label, parse_stub, attempt_stub, path in stub_cases:
            actions.parse_text_file = parse_stub or logged_parse_text_file
            actions.attempt_parse_cue_sheet = attempt_stub or logged_attempt
            try:
                expected = run_determine(ORIGINAL, lambda: path)
                actual = run_determine(TREE, lambda: path)
            finally:
                actions.parse_text_file = logged_parse_text_file
                actions.attempt_parse_cue_sheet = logged_attempt
            if expected != actual:
                failures += 1
                if failures <= 10:
                    print("MISMATCH stub", label)
                    print("  expected", expected)
                    print("  actual  ", actual)
        print(f"stubs: {len(stub_cases)} cases")
    finally:
        actions.parse_text_file = REAL_PARSE_TEXT_FILE
        actions.attempt_parse_cue_sheet = REAL_ATTEMPT
        os.chdir(previous_cwd)
        shutil.rmtree(root, ignore_errors=True)

    if failures:
        print(f"FAILED ({failures} mismatches)")
        return 1
    print("all agree")
    return 0


if __name__ == "__main__":
    sys.exit(main())
