"""Equivalence demo for r19: smpl_extract/akai/partition.py
PartitionAdapter._parse - the place where a partition header that cannot be
parsed (invalid AKAI characters in a volume name, a declared size of 0) is
turned into the ConstructError that makes AkaiImageParser._load_partitions
stop scanning.

The two statements that followed the `try/except InvalidCharacter` block (the
`header.size <= 0` check and the `_decode` call) moved into an `else:` clause
of that try; the `result` temporary is gone.

The demo defines PartitionAdapterOrig, a subclass of the live PartitionAdapter
whose _parse is a verbatim copy of the ORIGINAL, and compares both
  * directly, on stub sub-constructs that return containers with all kinds of
    header.size values, raise InvalidCharacter / other exceptions, and with a
    _decode_element that raises InvalidCharacter itself: returned object,
    exception type, text, __cause__, __context__, __suppress_context__ and the
    order of calls,
  * as compiled parsers (`PartitionAdapter*(same Struct).compile()`, the way
    the module builds PartitionParser) over synthetic AKAI images with 1..4
    partitions, complete, cut at many byte positions (inside the header, the
    volume table, the allocation table, the data area, on sector boundaries),
    with bad magic / zero size / invalid names / active volume entries /
    random garbage: outcome, stream position after each partition, partition
    names / paths / SAT / volumes, and the exact sequence of seek/tell/read
    calls on the image stream,
  * the same through AkaiImageParser.partitions with the module's
    PartitionParser swapped for the original one.
Exit 0 when everything agrees, 1 otherwise.
"""
from io import BytesIO
from io import SEEK_SET
import random
import sys

from construct.core import Construct
from construct.core import ConstructError
from construct.lib.containers import Container

from smpl_extract.akai import image as image_mod
from smpl_extract.akai.data_types import AKAI_PARTITION_MAGIC
from smpl_extract.akai.data_types import AKAI_SAT_ENTRY_CNT
from smpl_extract.akai.data_types import AKAI_SECTOR_SIZE
from smpl_extract.akai.data_types import AKAI_VOLUME_ENTRY_CNT
from smpl_extract.akai.data_types import InvalidCharacter
from smpl_extract.akai.image import AkaiImageParser
from smpl_extract.akai.partition import PartitionAdapter
from smpl_extract.akai.partition import PartitionParser


# --------------------------------------------------------------------------
# ORIGINAL implementation (verbatim copy of the method)
# --------------------------------------------------------------------------
class PartitionAdapterOrig(PartitionAdapter):
    def _parse(self, stream, context, path):

        try:
            partition_container = self.subcon._parse(  # type: ignore
                stream,  
                context, 
                path
            )
        except InvalidCharacter:
            raise ConstructError

        if partition_container.header.size <= 0:
            raise ConstructError

        result = self._decode(partition_container, context, path)
        return result


# the live parser is `PartitionAdapter(Struct(...)).compile()`; wrap the very
# same Struct with the original adapter and compile it the same way
_LIVE_STRUCT = PartitionParser.defersubcon.subcon
PartitionParserOrig = PartitionAdapterOrig(_LIVE_STRUCT).compile()
# and an uncompiled pair
PartitionParserOrigPlain = PartitionAdapterOrig(_LIVE_STRUCT)
PartitionParserPlain = PartitionAdapter(_LIVE_STRUCT)


# --------------------------------------------------------------------------
failures = 0
checks = 0


def check(cond, what):
    global failures, checks
    checks += 1
    if not cond:
        failures += 1
        if failures <= 20:
            print("MISMATCH:", what)


def outcome(f):
    try:
        return ("ok", f())
    except BaseException as e:  # noqa
        return ("exc", type(e).__name__, str(e))


# --------------------------------------------------------------------------
# Part 1: the method on stub sub-constructs
# --------------------------------------------------------------------------
class Boom(Exception):
    pass


class WeirdSize:
    """header.size object whose comparison is logged / may raise."""
    def __init__(self, log, answer):
        self.log = log
        self.answer = answer

    def __le__(self, other):
        self.log.append(("le", other))
        if isinstance(self.answer, BaseException):
            raise self.answer
        return self.answer


class StubSubcon(Construct):
    def __init__(self, log, behaviour):
        super().__init__()
        self.log = log
        self.behaviour = behaviour

    def _parse(self, stream, context, path):
        self.log.append(("subcon._parse", stream, dict(context), path))
        kind = self.behaviour[0]
        if kind == "raise":
            raise self.behaviour[1]
        return self.behaviour[1]


def make_adapter(cls, log, behaviour, decode_behaviour):
    adapter = cls(StubSubcon(log, behaviour))

    def _decode_element(obj, child_info, context, path):
        log.append(("decode_element", obj is behaviour[1], tuple(child_info),
                    dict(context), path))
        if isinstance(decode_behaviour, BaseException):
            raise decode_behaviour
        return decode_behaviour
    adapter._decode_element = _decode_element
    return adapter


def describe_exception(e):
    def brief(x):
        return None if x is None else (type(x).__name__, str(x))
    return ("exc", type(e).__name__, str(e), brief(e.__cause__),
            brief(e.__context__), e.__suppress_context__)


def run_stub(cls, make_behaviour, make_decode_behaviour, context):
    log = []
    behaviour = make_behaviour(log)
    adapter = make_adapter(cls, log, behaviour, make_decode_behaviour())
    try:
        res = adapter._parse("STREAM", Container(context), "(path)")
        out = ("ok", repr(res))
    except BaseException as e:  # noqa
        out = describe_exception(e)
    return out, [repr(x) for x in log]


def test_stubs():
    sentinel = "DECODED"
    size_values = [0, -1, -100, 1, 2, 3, 0xFFFF, True, False, 0.0, 0.5, -0.5,
                   float("nan"), None, "3", b"", (1,), [], 1 + 0j]

    behaviours = []
    for size in size_values:
        behaviours.append((
            f"size={size!r}",
            lambda log, size=size:
                ("return", Container(header=Container(size=size)))))
    behaviours += [
        ("no header", lambda log: ("return", Container())),
        ("header None", lambda log: ("return", Container(header=None))),
        ("header without size",
         lambda log: ("return", Container(header=Container()))),
        ("container None", lambda log: ("return", None)),
        ("plain dict", lambda log: ("return", {"header": {"size": 3}})),
        ("weird size true",
         lambda log: ("return", Container(header=Container(
             size=WeirdSize(log, True))))),
        ("weird size false",
         lambda log: ("return", Container(header=Container(
             size=WeirdSize(log, False))))),
        ("weird size raising InvalidCharacter",
         lambda log: ("return", Container(header=Container(
             size=WeirdSize(log, InvalidCharacter("from le")))))),
        ("weird size raising Boom",
         lambda log: ("return", Container(header=Container(
             size=WeirdSize(log, Boom("from le")))))),
        ("subcon raises InvalidCharacter",
         lambda log: ("raise", InvalidCharacter("bad char 0xFF"))),
        ("subcon raises InvalidCharacter()",
         lambda log: ("raise", InvalidCharacter())),
        ("subcon raises ConstructError",
         lambda log: ("raise", ConstructError("inner", path="(p)"))),
        ("subcon raises Boom", lambda log: ("raise", Boom("x"))),
        ("subcon raises KeyError", lambda log: ("raise", KeyError("k"))),
        ("subcon raises KeyboardInterrupt",
         lambda log: ("raise", KeyboardInterrupt())),
        ("subcon raises StopIteration",
         lambda log: ("raise", StopIteration())),
    ]
    decode_behaviours = [
        ("returns", lambda: sentinel),
        ("returns None", lambda: None),
        ("raises InvalidCharacter", lambda: InvalidCharacter("in decode")),
        ("raises ConstructError", lambda: ConstructError("in decode")),
        ("raises Boom", lambda: Boom("in decode")),
    ]
    contexts = [
        {},
        {"_elem_name": "A", "_elem_parent": None, "_elem_routines": {}},
        {"_elem_name": "B:", "_": {"_elem_routines": {"r": len}}},
    ]
    seen = set()
    for blabel, mb in behaviours:
        for dlabel, md in decode_behaviours:
            for context in contexts:
                a = run_stub(PartitionAdapterOrig, mb, md, context)
                b = run_stub(PartitionAdapter, mb, md, context)
                seen.add(a[0][0] if a[0][0] == "ok" else a[0][1])
                check(a == b, f"stub {blabel} / decode {dlabel}: {a} != {b}")
    check({"ok", "ConstructError", "InvalidCharacter", "Boom", "TypeError",
           "AttributeError", "KeyboardInterrupt"} <= seen,
          f"stub tests did not reach all outcome kinds: {seen}")


# --------------------------------------------------------------------------
# Part 2: synthetic images
# --------------------------------------------------------------------------
class LoggedFile:
    def __init__(self, data, log):
        self.inner = BytesIO(data)
        self.log = log

    def seek(self, offset, whence=SEEK_SET):
        res = self.inner.seek(offset, whence)
        self.log.append(("seek", offset, whence, res))
        return res

    def tell(self):
        res = self.inner.tell()
        self.log.append(("tell", res))
        return res

    def read(self, size=-1):
        pos = self.inner.tell()
        res = self.inner.read(size)
        self.log.append(("read", size, pos, len(res)))
        return res


def header(size, declared=None):
    x = size // 128 - 1
    declared = size if declared is None else declared
    return (
        declared.to_bytes(2, "little") + b"\0\0" + AKAI_PARTITION_MAGIC
        + bytes([0x55 if x % 2 == 0 else 0xD5, (x // 2 + 0xBA) & 0xFF])
        + b"\x2f\x00"
    )


def volume_entry(rng, kind):
    if kind == "inactive":
        return b"\0" * 16
    if kind == "badname":
        return b"\xFF" * 12 + b"\0" * 4
    name = bytes(rng.choice([10, 11, 12, 13, 14, 27, 28, 29, 0, 1, 2])
                 for _ in range(12))
    vtype = rng.choice([1, 3])
    start = rng.randint(0, 20)
    return name + vtype.to_bytes(2, "little") + start.to_bytes(2, "little")


def partition(rng, size, bad=None, volumes="inactive", sat="zero",
              declared=None):
    body = header(size, declared)
    if bad == "magic":
        body = body[:50] + b"\xEE" + body[51:]
    elif bad == "zero":
        body = b"\0\0" + body[2:]
    elif bad == "tail":
        body = body[:-1] + b"\x01"
    entries = []
    for i in range(AKAI_VOLUME_ENTRY_CNT):
        if volumes == "inactive":
            entries.append(volume_entry(rng, "inactive"))
        elif volumes == "badname" and i == 0:
            entries.append(volume_entry(rng, "badname"))
        elif volumes == "active" and i < 3:
            entries.append(volume_entry(rng, "active"))
        else:
            entries.append(volume_entry(rng, "inactive"))
    body += b"".join(entries)
    if sat == "zero":
        body += b"\0" * (2 * AKAI_SAT_ENTRY_CNT)
    else:
        values = [0x0000, 0x4000, 0x8000, 0xC000, 1, 2, 3, 4, 5, 6, 7, 8, 30]
        body += b"".join(
            rng.choice(values).to_bytes(2, "little")
            for _ in range(AKAI_SAT_ENTRY_CNT)
        )
    total = size * AKAI_SECTOR_SIZE
    if len(body) > total:
        return body[:total]
    filler = bytes(rng.getrandbits(8) for _ in range(64))
    pad = total - len(body)
    return body + (filler * (pad // 64 + 1))[:pad]


def describe_partition(part):
    out = [type(part).__name__, part.name, part.path]
    out.append(outcome(lambda: part.sat))  # (the property itself)
    sat = part._f_sat  # the parsed allocation table object
    out.append(outcome(lambda: (
        sat.size,
        len(sat.sector_links),
        [(x.next, x.end) for x in sat.sector_links[:64]],
        type(sat.parent_stream).__name__,
        sat.parent_stream.offset,
        sat.parent_stream.end_of_file,
    )))
    out.append(outcome(lambda: [
        (v.name, str(v.volume_type), v.path, len(v.file_entries))
        for v in part.volumes
    ]))
    return out


def scan(parser, data, max_partitions=8):
    """What AkaiImageParser._load_partitions does, with a given parser."""
    log = []
    file = LoggedFile(data, log)
    size = len(data)
    out = []
    cnt = 0
    parts = []
    while file.inner.tell() < size and cnt < max_partitions:
        name = chr(ord("A") + cnt)
        try:
            part = parser.parse_stream(
                file, _elem_name=name, _elem_parent=None, _elem_routines={}
            )
        except BaseException as e:  # noqa
            out.append(("exc", type(e).__name__, str(e), file.inner.tell()))
            break
        out.append(("parsed", name, file.inner.tell()))
        parts.append(part)
        cnt += 1
    # realise lazily parsed parts afterwards (as the exporter does)
    for part in parts:
        out.append(describe_partition(part))
    out.append(("final-pos", file.inner.tell()))
    return out, log


def scan_image(parser, data):
    saved = image_mod.PartitionParser
    image_mod.PartitionParser = parser
    try:
        log = []
        file = LoggedFile(data, log)
        image = AkaiImageParser(file)
        # what actions.py does before anything is listed or exported
        image.set_routines({"reverse": lambda elements: elements[::-1]})
        out = [outcome(lambda: [
            (p.name, p.path, p.parent is image) for p in image.partitions
        ])]
        out.append(outcome(lambda: [
            [(v.name, v.path) for v in p.volumes] for p in image.partitions
        ]))
        out.append(file.inner.tell())
        return out, log
    finally:
        image_mod.PartitionParser = saved


def test_images(rng: random.Random):
    S = AKAI_SECTOR_SIZE
    images = {
        "empty": b"",
        "one-3": partition(rng, 3),
        "one-1": partition(rng, 1),
        "sizes-1-2-5": partition(rng, 1) + partition(rng, 2)
        + partition(rng, 5),
        "two": partition(rng, 3) + partition(rng, 4),
        "four": partition(rng, 3) + partition(rng, 4) + partition(rng, 3)
        + partition(rng, 3),
        "declared-bigger": partition(rng, 3, declared=5) + partition(rng, 3),
        "declared-smaller": partition(rng, 4, declared=2)
        + partition(rng, 3),
        "two+garbage": partition(rng, 3) + partition(rng, 3)
        + bytes(rng.getrandbits(8) for _ in range(5000)),
        "bad-magic-second": partition(rng, 3) + partition(rng, 3, "magic")
        + partition(rng, 3),
        "bad-tail-first": partition(rng, 3, "tail") + partition(rng, 3),
        "zero-size-first": partition(rng, 3, "zero") + partition(rng, 3),
        "zero-size-second": partition(rng, 4) + partition(rng, 3, "zero"),
        "zero-size-third": partition(rng, 3) + partition(rng, 3)
        + partition(rng, 3, "zero") + partition(rng, 3),
        "bad-name-first": partition(rng, 3, volumes="badname")
        + partition(rng, 3),
        "bad-name-second": partition(rng, 3)
        + partition(rng, 3, volumes="badname") + partition(rng, 3),
        "active-volumes": partition(rng, 4, volumes="active", sat="random")
        + partition(rng, 3, volumes="active", sat="random"),
        "active-volumes-2": partition(rng, 6, volumes="active", sat="random")
        + partition(rng, 3),
        "random-sat": partition(rng, 3, sat="random")
        + partition(rng, 3, sat="random"),
        "garbage": bytes(rng.getrandbits(8) for _ in range(30000)),
        "zeros": b"\0" * 30000,
    }
    head = 202
    vol_end = head + 16 * AKAI_VOLUME_ENTRY_CNT
    sat_end = vol_end + 2 * AKAI_SAT_ENTRY_CNT
    interesting = [
        0, 1, 2, 3, 4, 100, head - 1, head, head + 1, head + 16, vol_end - 1,
        vol_end, vol_end + 1, vol_end + 2, sat_end - 2, sat_end - 1, sat_end,
        sat_end + 1, S - 1, S, S + 1, 2 * S, 3 * S - 1, 3 * S, 3 * S + 1,
        3 * S + 2, 3 * S + head, 3 * S + vol_end, 3 * S + sat_end,
        3 * S + sat_end + 1, 4 * S, 5 * S, 7 * S - 1, 7 * S, 7 * S + 1,
    ]

    scenarios = list(images.items())
    for label in ("two", "four", "sizes-1-2-5", "active-volumes",
                  "declared-bigger", "bad-name-second", "zero-size-third"):
        data = images[label]
        cuts = set(c for c in interesting if c < len(data))
        cuts.update(rng.randrange(len(data)) for _ in range(15))
        for cut in sorted(cuts):
            scenarios.append((f"{label} cut at {cut}", data[:cut]))

    stop_reasons = {}
    for label, data in scenarios:
        for tag, orig, live in (
                ("compiled", PartitionParserOrig, PartitionParser),
                ("plain", PartitionParserOrigPlain, PartitionParserPlain)):
            ra = scan(orig, data)
            rb = scan(live, data)
            check(ra[0] == rb[0],
                  f"scan[{tag}] {label}: results differ\n  {ra[0]}\n  {rb[0]}")
            check(ra[1] == rb[1], f"scan[{tag}] {label}: stream op log differs")
            for entry in rb[0]:
                if entry and entry[0] == "exc":
                    stop_reasons[entry[1]] = stop_reasons.get(entry[1], 0) + 1
        ra = scan_image(PartitionParserOrig, data)
        rb = scan_image(PartitionParser, data)
        check(ra[0] == rb[0], f"image {label}: results differ")
        check(ra[1] == rb[1], f"image {label}: stream op log differs")

    print("scan stop reasons:", stop_reasons)

    # sanity: the complete images really yield the partitions we built, and
    # the two guarded cases really end the scan where they were planted
    full = scan(PartitionParser, images["sizes-1-2-5"])[0]
    check(
        [x for x in full if x[0] == "parsed"]
        == [("parsed", "A", S), ("parsed", "B", 3 * S), ("parsed", "C", 8 * S)],
        f"sanity: unexpected partition positions {full[:4]}"
    )
    for label, expected in (("zero-size-third", ["A:", "B:"]),
                            ("bad-name-second", ["A:"]),
                            ("zero-size-first", [])):
        res = scan_image(PartitionParser, images[label])[0][0]
        check(res[0] == "ok" and [x[0] for x in res[1]] == expected[::-1],
              f"sanity: {label} gave {res}")
    res = scan(PartitionParser, images["zero-size-first"])[0]
    check(res[0][:2] == ("exc", "ConstructError"), f"sanity: {res[0]}")
    res = scan(PartitionParser, images["bad-name-first"])[0]
    check(res[0][:2] == ("exc", "ConstructError"), f"sanity: {res[0]}")


def main():
    rng = random.Random(0xC15D19)
    test_stubs()
    test_images(rng)
    print(f"{checks} checks, {failures} mismatches")
    return 0 if failures == 0 else 1


if __name__ == "__main__":
    sys.exit(main())
