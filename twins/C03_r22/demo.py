"""Equivalence demo for r22: the Red Book constants of
smpl_extract/cdda/image.py (SAMPLE_WIDTH, SAMPLING_RATE, N_CHANNELS,
SAMPLES_PER_FRAME, BYTES_PER_FRAME) and the field defaults of the AudioTrack
dataclass.  BYTES_PER_FRAME / SAMPLES_PER_FRAME are the factors with which
CompactDiskAudioImageAdapter.from_bin_cue turns cue indices into the byte
window and the sample count of every track.

  A. static: value AND exact type of every public constant, the ordered
     (name, type, default, default_factory) table of AudioTrack's dataclass
     fields, its class attributes, repr/eq of default-constructed and of
     explicitly constructed tracks - all against precomputed ORIGINAL values.
  B. windows: an inline copy of the ORIGINAL from_bin_cue, executed in a
     namespace holding the ORIGINAL literal constants, is compared with the
     live from_bin_cue on random cue/bin pairs (tracks without INDEX, data
     tracks, indices beyond the end of the bin, odd bin lengths): titles,
     paths, sample counts, window offset/size, the bytes read through each
     window and the generalized Sample/encoding of each track must agree.
  C. end to end: cue/bin pairs exported to WAV; the 44-byte header must be
     the canonical PCM stereo 16 bit 44.1 kHz header and the PCM must tile
     the bin (independent expected values).
Exit 0 on full agreement, 1 otherwise.
"""
import contextlib
import dataclasses
import io
import os
import random
import shutil
import struct
import sys
import tempfile
from io import IOBase
from typing import List
from typing import Optional

from smpl_extract import actions
from smpl_extract.base import Element
from smpl_extract.cdda import image as cdda_image
from smpl_extract.cdda.image import AudioTrack
from smpl_extract.cdda.image import CompactDiskAudioImageAdapter
from smpl_extract.cuesheet import parse_cue_sheet


# ------------------------------------------------------------------ static
ORIGINAL_CONSTANTS = {
    "SAMPLE_WIDTH": 2,
    "SAMPLING_RATE": 44100,
    "N_CHANNELS": 2,
    "SAMPLES_PER_FRAME": 588,
    "BYTES_PER_FRAME": 2352,
}
MISSING = dataclasses.MISSING
ORIGINAL_FIELDS = [
    ("title", str, "", MISSING),
    ("num_channels", int, 2, MISSING),
    ("sample_rate", int, 44100, MISSING),
    ("bytes_per_sample", int, 2, MISSING),
    ("num_audio_samples", int, 0, MISSING),
    ("_data_stream", IOBase, MISSING, IOBase),
    ("_parent", Optional[Element], None, MISSING),
    ("_path", List[str], MISSING, list),
]


def static_cases():
    failures = 0
    count = 0

    def check(what, expected, actual):
        nonlocal failures, count
        count += 1
        if expected != actual:
            failures += 1
            print("MISMATCH (static)", what, expected, actual)

    for name, value in ORIGINAL_CONSTANTS.items():
        live = getattr(cdda_image, name, None)
        check(name, (value, int), (live, type(live)))
    live_fields = [(f.name, f.type, f.default, f.default_factory)
                   for f in dataclasses.fields(AudioTrack)]
    check("fields", ORIGINAL_FIELDS, live_fields)
    for f in dataclasses.fields(AudioTrack):
        if f.default is not MISSING and f.default is not None:
            check("default type " + f.name,
                  {"title": str}.get(f.name, int), type(f.default))
    check("type_name", "CDDA Track", AudioTrack.type_name)
    check("class defaults", (2, 44100, 2, 0, ""),
          (AudioTrack.num_channels, AudioTrack.sample_rate,
           AudioTrack.bytes_per_sample, AudioTrack.num_audio_samples,
           AudioTrack.title))
    stream = io.BytesIO(b"")
    default_track = AudioTrack(_data_stream=stream)
    check("default repr",
          "AudioTrack(title='', num_channels=2, sample_rate=44100, "
          "bytes_per_sample=2, num_audio_samples=0, _data_stream=%r, "
          "_parent=None, _path=[])" % (stream,), repr(default_track))
    check("default eq", True, default_track == AudioTrack(
        "", 2, 44100, 2, 0, stream, None, []))
    check("positional order", (1, 2, 3, 4),
          (lambda t: (t.num_channels, t.sample_rate, t.bytes_per_sample,
                      t.num_audio_samples))(AudioTrack("x", 1, 2, 3, 4)))
    sample = AudioTrack(title="T", _data_stream=stream).to_generalized()
    check("generalized", (44100, 2, 2, 2, 4),
          (sample.sample_rate, sample.num_channels,
           sample.data_streams[0].encoding.sample_width,
           sample.data_streams[0].encoding.num_interleaved_channels,
           sample.data_streams[0].frame_size))
    return count, failures


# ----------------------------------------------------------------- windows
ORIGINAL_SOURCE = '''
def from_bin_cue(
        cls, 
        bin_file_stream: IOBase,
        cue_file: CueSheetFile
):
    image = CompactDiskAudioImage()
    element_path = image.path

    bin_file_stream.seek(0, SEEK_END)
    end_of_file = bin_file_stream.tell()
    bin_file_stream.seek(0, SEEK_SET)

    audio_tracks = []
    cue_track_list = [x for x in cue_file.tracks if x.mode.lower() == "audio"]
    if len(cue_track_list):

        cue_track_iter = iter(cue_track_list)
        i = 0
        cur_cue_track = next(cue_track_iter)
        while True:
            try:
                next_cue_track = next(cue_track_iter)
            except StopIteration:
                break

            if len(cur_cue_track.indices) and len(next_cue_track.indices):
                title = cur_cue_track.title or f"Untitled Track {i+1}"

                cur_index = cur_cue_track.indices[0]
                cur_n_frames = cur_index.get_total_audio_frames()
                next_index = next_cue_track.indices[0]
                next_n_frames = next_index.get_total_audio_frames()
                total_n_frames = next_n_frames - cur_n_frames

                offset_bytes = BYTES_PER_FRAME*cur_n_frames
                size_bytes = BYTES_PER_FRAME*total_n_frames

                total_num_samples = SAMPLES_PER_FRAME*total_n_frames

                data_stream = StreamOffset(
                    bin_file_stream,
                    size_bytes,
                    offset_bytes
                )

                track_path = element_path + [title]

                audio_track = AudioTrack(
                    title=title,
                    num_audio_samples=total_num_samples,
                    _data_stream=data_stream,
                    _parent=image,
                    _path=track_path
                )
                audio_tracks.append(audio_track)
                
                i += 1
                cur_cue_track = next_cue_track
        
        if len(cur_cue_track.indices):
            title = cur_cue_track.title or f"Untitled Track {i+1}"

            cur_index = cur_cue_track.indices[0]
            cur_n_frames = cur_index.get_total_audio_frames()
            offset_bytes = BYTES_PER_FRAME*cur_n_frames
            size_bytes = end_of_file - offset_bytes

            total_n_frames = (size_bytes // BYTES_PER_FRAME)
            total_num_samples = SAMPLES_PER_FRAME*total_n_frames

            data_stream = StreamOffset(
                    bin_file_stream,
                    size_bytes,
                    offset_bytes
                )

            track_path = element_path + [title]

            audio_track = AudioTrack(
                title=title,
                num_audio_samples=total_num_samples,
                _data_stream=data_stream,
                _parent=image,
                _path=track_path
            )
            audio_tracks.append(audio_track)

    image.tracks = audio_tracks
    return image
'''
_globals = dict(cdda_image.__dict__)
_globals.update(ORIGINAL_CONSTANTS)          # the ORIGINAL literal values
_namespace = {}
exec(compile(ORIGINAL_SOURCE, "<original>", "exec"), _globals, _namespace)
original_from_bin_cue = _namespace["from_bin_cue"]


class TracingStream(io.BytesIO):
    def __init__(self, data):
        super().__init__(data)
        self.log = []

    def seek(self, *args):
        result = super().seek(*args)
        self.log.append(("seek", args, result))
        return result

    def tell(self):
        result = super().tell()
        self.log.append(("tell", result))
        return result

    def read(self, *args):
        result = super().read(*args)
        self.log.append(("read", args, len(result)))
        return result


def msf(total):
    return "%02d:%02d:%02d" % (total // 4500, (total // 75) % 60, total % 75)


def make_cue(rng, n_sectors, clean):
    lines = ["FILE \"disc.bin\" BINARY\n"]
    position = rng.randint(0, 2)
    for t in range(rng.randint(1, 7)):
        mode = "AUDIO" if clean or rng.random() < 0.8 else "MODE1/2352"
        lines.append("  TRACK %02d %s\n" % (t + 1, mode))
        if rng.random() < 0.6:
            lines.append("    TITLE \"%s\"\n" % rng.choice(
                ["Intro", "Intro", "a/b", "Loop L", "Loop R", "x."]))
        n_indices = rng.choice([1, 1, 2, 3] if clean else [0, 1, 1, 2, 3])
        for k in range(n_indices):
            lines.append("    INDEX %02d %s\n" % (k, msf(position)))
            position += rng.choice([1, 1, 2, 3])
        if clean and position >= n_sectors:
            break
    return lines


def describe(function, data, lines):
    cue = parse_cue_sheet(list(lines))
    stream = TracingStream(data)
    try:
        image = function(CompactDiskAudioImageAdapter, stream, cue)
    except BaseException as e:
        return ("EXC", type(e).__name__, str(e), stream.log)
    report = [("construction", list(stream.log))]
    for track in image.tracks:
        window = track._data_stream
        report.append((
            type(track).__name__, track.title, track.name, track.path,
            track.num_channels, track.sample_rate, track.bytes_per_sample,
            track.num_audio_samples, track.parent is image,
            type(window).__name__, window.offset, window.end_of_file,
            window.position, window.substream is stream,
        ))
    for track in image.tracks[::-1]:
        sample = track.to_generalized()
        data_stream = sample.data_streams[0]
        data_stream.stream.seek(0, 0)
        report.append((
            sample.name, sample.sample_rate, sample.num_channels,
            sample.num_audio_samples, repr(data_stream.encoding),
            data_stream.frame_size, data_stream.stream.read(5000),
            data_stream.stream.read(-1),
        ))
    report.append(("reads", list(stream.log)))
    return report


def window_cases(pairs):
    failures = 0
    count = 0
    for number, (data, lines) in enumerate(pairs):
        expected = describe(original_from_bin_cue, data, lines)
        actual = describe(
            CompactDiskAudioImageAdapter.from_bin_cue.__func__, data, lines)
        count += 1
        if expected != actual:
            failures += 1
            if failures < 10:
                print("MISMATCH (windows)", number, lines)
    return count, failures


# ------------------------------------------------------------------ export
def read_tree(root):
    found = {}
    for directory, _dirs, files in os.walk(root):
        for name in files:
            path = os.path.join(directory, name)
            with open(path, "rb") as f:
                found[os.path.relpath(path, root)] = f.read()
    return found


def wav_header(n_bytes):
    return (b"RIFF" + struct.pack("<I", 36 + n_bytes) + b"WAVEfmt "
            + struct.pack("<IHHIIHH", 16, 1, 2, 44100, 176400, 4, 16)
            + b"data" + struct.pack("<I", n_bytes))


def export_cases(pairs):
    failures = 0
    count = 0
    base = tempfile.mkdtemp(prefix="r22demo_")
    try:
        for number, (data, lines) in enumerate(pairs):
            directory = os.path.join(base, "case%03d" % number)
            os.mkdir(directory)
            with open(os.path.join(directory, "disc.bin"), "wb") as f:
                f.write(data)
            cue_path = os.path.join(directory, "disc.cue")
            with open(cue_path, "w", encoding="ascii") as f:
                f.writelines(lines)
            destination = os.path.join(directory, "out")
            os.mkdir(destination)
            captured = io.StringIO()
            with contextlib.redirect_stdout(captured):
                actions.export_samples_to_wav(cue_path, destination)
            tree = read_tree(destination)
            starts = []
            in_track = False
            for line in lines:
                words = line.split()
                if words[0] == "TRACK":
                    in_track = True
                elif words[0] == "INDEX" and in_track:
                    mm, ss, ff = (int(x) for x in words[2].split(":"))
                    starts.append(((mm*60 + ss)*75 + ff)*2352)
                    in_track = False
            if starts[-1] > len(data):
                continue
            ends = starts[1:] + [len(data) - (len(data) - starts[-1]) % 4]
            exported = [line[len("Exported "):]
                        for line in captured.getvalue().splitlines()
                        if line.startswith("Exported ")]
            count += 1
            if len(exported) != len(starts) \
                    or sorted(exported) != sorted(tree):
                failures += 1
                print("MISMATCH (file list)", number, exported)
                continue
            for name, start, end in zip(exported, starts, ends):
                count += 1
                if tree[name] != wav_header(end - start) + data[start:end]:
                    failures += 1
                    print("MISMATCH (wav)", number, name)
    finally:
        shutil.rmtree(base, ignore_errors=True)
    return count, failures


def main():
    rng = random.Random(0x322)
    clean_pairs = []
    messy_pairs = []
    for k in range(500):
        n_sectors = rng.randint(1, 16)
        tail = rng.choice([0, 0, 1, 2, 3, 5, 1177, 2351])
        data = bytes(rng.getrandbits(8) for _ in range(n_sectors*2352 + tail))
        if k % 2:
            clean_pairs.append((data, make_cue(rng, n_sectors, True)))
        else:
            messy_pairs.append((data, make_cue(rng, n_sectors, False)))
    messy_pairs.append((b"", ["FILE \"disc.bin\" BINARY\n",
                              "TRACK 01 AUDIO\n", "INDEX 01 00:00:00\n"]))
    messy_pairs.append((b"abc", ["FILE \"disc.bin\" BINARY\n",
                                 "TRACK 01 AUDIO\n", "INDEX 01 00:00:01\n"]))

    total = 0
    failed = 0
    for part, args in ((static_cases, ()),
                       (window_cases, (clean_pairs + messy_pairs,)),
                       (export_cases, (clean_pairs[:80],))):
        count, failures = part(*args)
        print(part.__name__, "cases:", count, "failures:", failures)
        total += count
        failed += failures
    print("total cases:", total, "failures:", failed)
    return 1 if failed else 0


if __name__ == "__main__":
    sys.exit(main())
