"""Equivalence demo for r22 (smpl_extract/akai/partition.py, the
PartitionParser declaration: header, volume entry table, raw SAT words handed
to SegmentAllocationTableAdapter, lazily parsed volumes).

An inline copy of the ORIGINAL declaration (built from the same imported
pieces) is compared with the live PartitionParser:
  A. the declared layout: field names, construct types, counts, sizes; the
     size expression of the lazily skipped partition body for many
     total_size values (smaller than the tables, equal, larger);
  B. partitions made by an independent AKAI writer (all allocation layouts
     and directory styles), intact, truncated, damaged, garbage: same
     partition name/path, same decoded SAT links (all 11386), same segments,
     same volumes/files/file bytes, same exception, same tell/seek/read log
     on the image file;
  C. whole images exported to WAV with the live declaration and with the
     original patched in: same stdout, same files, same bytes.
Exit 0 = all agree."""
import contextlib
import hashlib
import io
import os
import random
import shutil
import sys
import tempfile

from construct.core import Bytes
from construct.core import Int16ul
from construct.core import Lazy
from construct.core import Struct
from construct.expr import this
from construct.lib.containers import Container

import smpl_extract.akai.image as image_module
import smpl_extract.akai.partition as partition_module
from smpl_extract.akai.data_types import AKAI_SAT_ENTRY_CNT
from smpl_extract.akai.data_types import AKAI_VOLUME_ENTRY_CNT
from smpl_extract.akai.image import AkaiImageParser
from smpl_extract.akai.partition import PartitionAdapter
from smpl_extract.akai.partition import PartitionHeaderConstruct
from smpl_extract.akai.partition import PartitionParser as LivePartitionParser
from smpl_extract.akai.sat import SegmentAllocationTableAdapter
from smpl_extract.akai.volume import VolumeEntryConstruct
from smpl_extract.akai.volume import VolumesAdapter


# ---- inline copy of the ORIGINAL declaration ----------------------------
OrigPartitionParser = PartitionAdapter(
    Struct(
        "header" / PartitionHeaderConstruct,
        "volume_entries" / VolumeEntryConstruct[AKAI_VOLUME_ENTRY_CNT],
        "sat" / SegmentAllocationTableAdapter(
            this.header.partition_stream,
            Int16ul[AKAI_SAT_ENTRY_CNT]  # type: ignore
        ),  
        "volumes" / Lazy(VolumesAdapter(  
            this.volume_entries,
            this.sat,  # type: ignore
            Lazy(Bytes(  # type: ignore
            lambda this: this.header.total_size \
                - PartitionHeaderConstruct.sizeof() \
                - VolumeEntryConstruct[AKAI_VOLUME_ENTRY_CNT].sizeof() \
                - Int16ul[AKAI_SAT_ENTRY_CNT].sizeof()
            )),
        ))  
    )
).compile()
# -------------------------------------------------------------------------

# ---- independent AKAI S1000/S3000 image writer (logical model -> bytes) ----
import struct as _struct

SECTOR = 0x2000
SAT_CNT = 11386
HEADER_SECTORS = 3
MAGIC = b"".join(((3333 * i) & 0xFFFF).to_bytes(2, "little") for i in range(1, 98))


def akai_name(text):
    out = bytearray()
    for ch in text.upper().ljust(12)[:12]:
        if "0" <= ch <= "9":
            out.append(ord(ch) - ord("0"))
        elif "A" <= ch <= "Z":
            out.append(ord(ch) - ord("A") + 0x0B)
        else:
            out.append({" ": 0x0A, "#": 0x25, "+": 0x26, "-": 0x27, ".": 0x28}[ch])
    return bytes(out)


def sample_file(name, type_byte, rate, pcm, play_start, play_end, loops=(), loop_type=2):
    """140 byte header followed by the 16 bit words."""
    head = bytearray()
    head += bytes([type_byte, 0, 60])
    head += akai_name(name)
    head += bytes(4)
    head += bytes([loop_type, 0, 0])
    head += bytes(4)
    head += _struct.pack("<III", len(pcm) // 2, play_start, play_end)
    table = list(loops) + [(0, 0, 0, 0)] * (8 - len(loops))
    for at, fine, coarse, duration in table:
        head += _struct.pack("<IHIH", at, fine, coarse, duration)
    head += bytes(4)
    head += _struct.pack("<H", rate)
    assert len(head) == 140, len(head)
    return bytes(head) + pcm


def build_partition(rnd, volumes, layout="random", dir_style="chain", spare=6):
    """volumes: list of (name, type 1|3, [(file name, file type byte, content bytes)])"""
    needed = HEADER_SECTORS
    for _name, _type, files in volumes:
        needed += 2 + (24 * (len(files) + 1) + SECTOR - 1) // SECTOR
        for _fname, _ftype, content in files:
            needed += max(1, (len(content) + SECTOR - 1) // SECTOR)
    total = needed + spare
    sat = [0] * SAT_CNT
    for s in range(HEADER_SECTORS):
        sat[s] = 0x4000
    sectors = {}
    free = list(range(HEADER_SECTORS, total))

    def take(count, how):
        nonlocal free
        if how == "contiguous":
            for at in range(len(free) - count + 1):
                run = free[at:at + count]
                if run[-1] - run[0] == count - 1:
                    break
            else:
                raise AssertionError("no contiguous run")
            chosen = run
        elif how == "ascending":
            chosen = sorted(rnd.sample(free, count))
        elif how == "descending":
            chosen = sorted(rnd.sample(free, count), reverse=True)
        else:
            chosen = rnd.sample(free, count)
        free = [s for s in free if s not in chosen]
        return chosen

    def store(chain, payload):
        for n, s in enumerate(chain):
            sectors[s] = payload[n * SECTOR:(n + 1) * SECTOR].ljust(SECTOR, b"\x00")

    # directories first (a reserved run needs a non reserved sector behind it)
    dir_chains = []
    for _name, _type, files in volumes:
        count = (24 * (len(files) + 1) + SECTOR - 1) // SECTOR
        if dir_style == "reserved":
            chain = take(count + 1, "contiguous")
            guard = chain.pop()
            free.append(guard)
            free.sort()
            for s in chain:
                sat[s] = 0x4000
            # keep the guard sector out of later reserved runs: leave it free
            free.remove(guard)
        else:
            chain = take(count, "contiguous" if dir_style == "chain" else "random")
            for a, b in zip(chain, chain[1:]):
                sat[a] = b
            sat[chain[-1]] = 0xC000
        dir_chains.append(chain)

    volume_table = bytearray()
    for (name, vtype, files), dir_chain in zip(volumes, dir_chains):
        table = bytearray()
        for fname, ftype, content in files:
            count = max(1, (len(content) + SECTOR - 1) // SECTOR)
            how = layout if layout != "mixed" else rnd.choice(
                ["contiguous", "ascending", "descending", "random"])
            chain = take(count, how)
            for a, b in zip(chain, chain[1:]):
                sat[a] = b
            sat[chain[-1]] = 0xC000
            store(chain, content)
            table += akai_name(fname) + bytes(4) + bytes([ftype])
            table += len(content).to_bytes(3, "little")
            table += _struct.pack("<H", chain[0]) + bytes(2)
        end = bytearray(24)
        end[8:10] = (0xD747).to_bytes(2, "little")
        table += end
        store(dir_chain, bytes(table))
        volume_table += akai_name(name) + _struct.pack("<HH", vtype, dir_chain[0])
    volume_table += bytes(16 * (100 - len(volumes)))

    head = _struct.pack("<H", total) + b"\x00\x00" + MAGIC
    check = total // 128 - 1
    head += bytes([0x55 if check % 2 == 0 else 0xD5, (check // 2 + 0xBA) & 0xFF]) + b"\x2F\x00"
    head += bytes(volume_table)
    head += b"".join(_struct.pack("<H", x) for x in sat)
    assert len(head) == HEADER_SECTORS * SECTOR - 2, len(head)
    body = bytearray(head.ljust(HEADER_SECTORS * SECTOR, b"\x00"))
    for s in range(HEADER_SECTORS, total):
        body += sectors.get(s, bytes(SECTOR))
    return bytes(body)
# ---------------------------------------------------------------------------

# ---- shared demo plumbing --------------------------------------------------
failures = 0
checks = 0


def check(label, a, b):
    global failures, checks
    checks += 1
    if a != b:
        failures += 1
        if failures <= 10:
            print("MISMATCH", label, "\n   live:", repr(a)[:600], "\n   orig:", repr(b)[:600])


def describe_exc(e):
    cause = e.__cause__
    return (
        type(e).__module__ + "." + type(e).__qualname__,
        str(e),
        None if cause is None else (type(cause).__qualname__, str(cause)),
        e.__suppress_context__,
    )


def outcome(f):
    try:
        return ("ok", f())
    except BaseException as e:  # noqa - demo compares every exception
        return ("raise", describe_exc(e))


def snapshot_dir(base):
    found = {}
    for root, dirs, files in os.walk(base):
        dirs.sort()
        rel = os.path.relpath(root, base)
        found[rel + "/"] = None
        for name in sorted(files):
            with open(os.path.join(root, name), "rb") as fh:
                found[os.path.join(rel, name)] = hashlib.sha256(fh.read()).hexdigest()
    return found


def export_image(image_bytes, scratch, tag):
    from smpl_extract.actions import export_samples_to_wav
    from smpl_extract.akai.image import AkaiImageParser
    dest = os.path.join(scratch, tag)
    os.makedirs(dest)
    captured = io.StringIO()
    with contextlib.redirect_stdout(captured):
        result = outcome(lambda: export_samples_to_wav(
            AkaiImageParser(io.BytesIO(image_bytes)), dest))
    return (result, captured.getvalue(), snapshot_dir(dest))


def make_images(rnd):
    """A spread of logical models x allocation layouts x directory styles."""
    def pcm(words):
        return bytes(rnd.getrandbits(8) for _ in range(2 * words))

    images = []
    lengths = [1, 2, 100, 4096 - 70, 4096 - 69, 4096 - 71, 2 * 4096 - 70,
               3 * 4096 - 70, 5000, 9000, 13000]
    for layout in ("contiguous", "ascending", "descending", "random", "mixed"):
        for dir_style in ("chain", "reserved", "scattered"):
            parts = []
            for p in range(rnd.choice([1, 2, 3])):
                volumes = []
                for v in range(rnd.choice([1, 2, 3])):
                    files = []
                    for f in range(rnd.choice([0, 1, 3, 5])):
                        words = rnd.choice(lengths)
                        start = rnd.choice([0, 0, 1, 7, words // 3])
                        end = rnd.choice([words, words, words - 1, max(start, words - 5)])
                        s3000 = rnd.random() < 0.5
                        files.append((
                            "S%d%d%d" % (p, v, f),
                            0xF3 if s3000 else 0x73,
                            sample_file(
                                "S%d" % f, 3 if s3000 else 1,
                                rnd.choice([0, 8000, 22050, 44100, 48000]),
                                pcm(words), start, end
                            )
                        ))
                    if rnd.random() < 0.5:
                        words = rnd.choice(lengths)
                        for side in "LR":
                            files.append((
                                "PAIR -" + side, 0xF3,
                                sample_file("PAIR -" + side, 3, 44100, pcm(words), 0, words)
                            ))
                    volumes.append(("VOL %d%d" % (p, v), rnd.choice([1, 3]), files))
                parts.append(build_partition(rnd, volumes, layout=layout, dir_style=dir_style))
            images.append(((layout, dir_style), b"".join(parts)))
    return images
# ---------------------------------------------------------------------------




class LoggingBytesIO(io.BytesIO):
    def __init__(self, data, log):
        super().__init__(data)
        self.log = log

    def tell(self):
        r = super().tell()
        self.log.append(("tell", r))
        return r

    def seek(self, *a):
        r = super().seek(*a)
        self.log.append(("seek", a, r))
        return r

    def read(self, *a):
        r = super().read(*a)
        self.log.append(("read", a, len(r), hashlib.sha1(r).hexdigest()))
        return r


@contextlib.contextmanager
def original_patched_in(counter=None):
    class Counting:
        @staticmethod
        def parse_stream(stream, **kw):
            if counter is not None:
                counter[0] += 1
            return OrigPartitionParser.parse_stream(stream, **kw)
    saved = image_module.PartitionParser
    image_module.PartitionParser = Counting
    try:
        yield
    finally:
        image_module.PartitionParser = saved


def shape(con, depth=0):
    """Structural description of a declaration (no identities)."""
    described = [type(con).__name__, getattr(con, "name", None)]
    count = getattr(con, "count", None)
    if isinstance(count, int):
        described.append(("count", count))
    length = getattr(con, "length", None)
    if isinstance(length, int):
        described.append(("length", length))
    if hasattr(con, "fmtstr"):
        described.append(("fmt", con.fmtstr))
    if depth < 8:
        if hasattr(con, "subcons"):
            described.append([shape(s, depth + 1) for s in con.subcons])
        elif hasattr(con, "defersubcon") and con.defersubcon is not None:
            described.append(shape(con.defersubcon, depth + 1))
        elif hasattr(con, "subcon"):
            described.append(shape(con.subcon, depth + 1))
    return described


def part_a():
    live_adapter = LivePartitionParser.defersubcon
    orig_adapter = OrigPartitionParser.defersubcon
    check("adapter class", type(live_adapter), type(orig_adapter))
    check("adapter is a PartitionAdapter", type(live_adapter) is PartitionAdapter, True)
    live_struct, orig_struct = live_adapter.subcon, orig_adapter.subcon
    check("declaration shape", shape(live_struct), shape(orig_struct))
    check("field names", [s.name for s in live_struct.subcons],
          ["header", "volume_entries", "sat", "volumes"])
    check("header is the module's header", live_struct.header.subcon is PartitionHeaderConstruct, True)
    check("entries are the module's entries",
          live_struct.volume_entries.subcon.subcon is VolumeEntryConstruct, True)
    check("sat word parser", live_struct.sat.subcon.subcon.subcon is Int16ul, True)
    for name in ("header", "volume_entries", "sat"):
        check(("sizeof", name), outcome(getattr(live_struct, name).sizeof),
              outcome(getattr(orig_struct, name).sizeof))
    check("sat words size", live_struct.sat.sizeof(), 2 * 11386)
    # partition_stream expression given to the adapter
    for ctx in (Container(header=Container(partition_stream="the stream")), Container(header=None), Container()):
        check(("partition stream expr", ctx),
              outcome(lambda: live_struct.sat.subcon.partition_stream(ctx)),
              outcome(lambda: orig_struct.sat.subcon.partition_stream(ctx)))
    # the size of the lazily skipped body
    rnd = random.Random(2201)
    sizes = [0, 1, 8192, 24573, 24574, 24575, 3 * 8192, 4 * 8192, 0xFFFF * 8192, -8192]
    sizes += [rnd.randrange(0, 0x10000) * 8192 for _ in range(300)]
    for total_size in sizes:
        ctx = Container(header=Container(total_size=total_size))
        live = outcome(lambda: live_struct.volumes._sizeof(ctx, "(demo)"))
        orig = outcome(lambda: orig_struct.volumes._sizeof(ctx, "(demo)"))
        check(("body size", total_size), live, orig)
        check(("body size value", total_size), live, ("ok", total_size - 24574))
    for ctx in (Container(), Container(header=Container()), Container(header=Container(total_size=None)),
                Container(header=Container(total_size="x")), Container(header=Container(total_size=2.5))):
        check(("body size, odd context", ctx),
              outcome(lambda: live_struct.volumes._sizeof(ctx, "(demo)")),
              outcome(lambda: orig_struct.volumes._sizeof(ctx, "(demo)")))


def describe_partition(partition, with_bytes):
    sat = partition._f_sat   # the decoded table (Partition.sat is not used by export)
    links = [(l.next, l.end) for l in sat.sector_links]
    described = [type(partition).__name__, partition.name, list(partition.path),
                 sat.size, len(links), hashlib.sha256(repr(links).encode()).hexdigest(),
                 type(sat).__name__, type(sat.parent_stream).__name__,
                 (sat.parent_stream.offset, sat.parent_stream.end_of_file)]
    volumes = []
    for volume in partition.volumes:
        files = []
        for entry in volume.file_entries:
            files.append((entry.name, repr(entry.file_type)))
        realized = []
        for f in volume.files:
            row = [f.name, f.safe_name, f.export_name, type(f).__name__]
            if with_bytes and hasattr(f, "_data_stream"):
                f._data_stream.seek(0, 0)
                row.append(hashlib.sha256(f._data_stream.readall()).hexdigest())
                row.append((f.sample_rate, f.start_sample, f.end_sample))
            realized.append(row)
        volumes.append((volume.name, repr(volume.volume_type), list(volume.path), files, realized))
    described.append(volumes)
    return described


class Holder:
    """Minimal parent element."""
    path = []
    name = "holder"


def run_parser(parser, image_bytes, start, with_bytes=True):
    log = []
    file = LoggingBytesIO(image_bytes, log)
    file.seek(start)
    del log[:]
    routines = {}

    def go():
        partition = parser.parse_stream(
            file, _elem_name="A", _elem_parent=None, _elem_routines=routines)
        after = file.tell()
        return (after, describe_partition(partition, with_bytes))
    return outcome(go), log


def part_b():
    rnd = random.Random(2202)

    def pcm(words):
        return bytes(rnd.getrandbits(8) for _ in range(2 * words))

    def partition():
        volumes = []
        for v in range(rnd.choice([1, 2, 3])):
            files = []
            for f in range(rnd.choice([0, 1, 3])):
                words = rnd.choice([1, 100, 4096 - 70, 4096 - 69, 2 * 4096 - 70, 5000])
                files.append(("SMP %d%d" % (v, f), rnd.choice([0xF3, 0x73]),
                              sample_file("SMP %d" % f, 3, rnd.choice([0, 22050, 44100]),
                                          pcm(words), 0, words)))
            volumes.append(("VOL %d" % v, rnd.choice([1, 3]), files))
        return build_partition(rnd, volumes,
                               layout=rnd.choice(["contiguous", "ascending", "descending", "random", "mixed"]),
                               dir_style=rnd.choice(["chain", "reserved", "scattered"]))

    parsed = 0
    refused = 0
    hashed = 0
    for case in range(60):
        first = partition()
        image_bytes = first
        start = 0
        variant = rnd.choice(["intact", "intact", "second", "cut", "damaged head", "damaged sat",
                              "garbage", "zero size", "tiny"])
        if variant == "second":
            start = len(first)
            image_bytes = first + partition()
        elif variant == "cut":
            image_bytes = first[:rnd.choice([0, 1, 2, 100, 202, 1802, 24574, 24576, len(first) - 8192])]
        elif variant == "damaged head":
            damaged = bytearray(first)
            damaged[rnd.choice([2, 3, 4, 50, 197, 198, 199, 200, 201])] ^= 0x5A
            image_bytes = bytes(damaged)
        elif variant == "damaged sat":
            damaged = bytearray(first)
            for _ in range(rnd.choice([1, 5, 40])):
                damaged[rnd.randrange(1802, 1802 + 200)] = rnd.getrandbits(8)
            image_bytes = bytes(damaged)
        elif variant == "garbage":
            image_bytes = bytes(rnd.getrandbits(8) for _ in range(rnd.choice([10, 300, 30000])))
        elif variant == "zero size":
            image_bytes = b"\x00\x00" + first[2:]
        elif variant == "tiny":
            size = rnd.choice([1, 2, 3, 127, 128])
            image_bytes = size.to_bytes(2, "little") + first[2:]
        live = run_parser(LivePartitionParser, image_bytes, start)
        orig = run_parser(OrigPartitionParser, image_bytes, start)
        check(("parse", case, variant), live, orig)
        if live[0][0] == "ok":
            parsed += 1
            hashed += sum(len(row) > 4 for vol in live[0][1][1][-1] for row in vol[4])
        else:
            refused += 1
    print("partitions parsed:", parsed, "refused:", refused, "| sample windows hashed:", hashed)
    check("part B is not vacuous", parsed > 20 and refused > 8 and hashed > 40, True)


def part_c(scratch):
    rnd = random.Random(2203)
    exported = 0
    counter = [0]
    for n, (label, image) in enumerate(make_images(rnd)):
        live = export_image(image, scratch, "live%d" % n)
        with original_patched_in(counter):
            orig = export_image(image, scratch, "orig%d" % n)
        check(("export", label), live, orig)
        exported += sum(1 for digest in live[2].values() if digest)
    print("wav files exported per run:", exported, "| original declaration parses:", counter[0])
    check("exports are not vacuous", exported > 40, True)
    check("the original declaration really ran", counter[0] >= 15, True)


def main():
    scratch = tempfile.mkdtemp(prefix="r22_demo_")
    try:
        part_a()
        part_b()
        part_c(scratch)
    finally:
        shutil.rmtree(scratch, ignore_errors=True)
    print("checks:", checks, "failures:", failures)
    return 1 if failures or not checks else 0


if __name__ == "__main__":
    sys.exit(main())
