"""Equivalence demo for r10: smpl_extract.util.stream.StreamWrapper.seek.

An inline copy of the ORIGINAL seek method is compiled with the globals of
the live smpl_extract.util.stream module and installed on dynamically made
subclasses of StreamWrapper / StreamOffset / StreamReversed.  Live and
original objects are then driven with identical random operation sequences
(seek with every kind of whence/offset, read, tell, readall) on top of
recording substreams.  Compared after every operation:
  * the return value or the exception (type and message),
  * position / true_size / end_of_file of the wrapper,
  * the full ordered trace of seek/read/tell calls on the substream.
Sizes include 0, negative and None (a CDDA track whose index lies past the
end of the bin gets a negative size).  Finally CDDA images are built from
cue sheets and their tracks read back / exported to WAV.
Exit 0 on full agreement, 1 otherwise.
"""
import hashlib
import io
import os
import random
import shutil
import sys
import tempfile

import numpy as np

from smpl_extract.util import stream as stream_module
from smpl_extract.util.stream import StreamOffset
from smpl_extract.util.stream import StreamReversed
from smpl_extract.util.stream import StreamWrapper


ORIGINAL_SOURCE = '''
def original_seek(self, offset, whence = SEEK_CUR):
    starting_position = 0
    if whence == SEEK_CUR:
        starting_position = self.position
    elif whence == SEEK_END:
        starting_position = self.end_of_file

    new_position = starting_position + offset
    if new_position > self.end_of_file:
        new_position = self.end_of_file
    elif new_position < 0:
        new_position = 0

    self.true_size = 0
    self._seek(new_position)
    self.position = new_position
    return new_position
'''
_namespace = {}
exec(compile(ORIGINAL_SOURCE, "<original>", "exec"), stream_module.__dict__,
     _namespace)
original_seek = _namespace["original_seek"]
# same wording of "missing argument" TypeErrors as the live method
original_seek.__qualname__ = "StreamWrapper.seek"


def original_class(cls):
    return type("Original" + cls.__name__, (cls,), {"seek": original_seek})


class RecordingStream(io.BytesIO):
    """BytesIO that logs every seek/read/tell."""

    def __init__(self, data):
        super().__init__(data)
        self.log = []

    def seek(self, *args):
        try:
            result = super().seek(*args)
        except Exception as e:
            self.log.append(("seek-exc", args, type(e).__name__, str(e)))
            raise
        self.log.append(("seek", args, result))
        return result

    def read(self, *args):
        result = super().read(*args)
        self.log.append(("read", args, result))
        return result

    def tell(self):
        result = super().tell()
        self.log.append(("tell", result))
        return result


def normalise(value):
    if isinstance(value, (np.generic,)):
        return (type(value).__name__, value.item())
    return (type(value).__name__, value)


def state(wrapper):
    return (
        normalise(wrapper.position), normalise(wrapper.true_size),
        normalise(wrapper.end_of_file), list(wrapper.substream.log),
    )


def apply(wrapper, operation):
    name, args = operation
    try:
        result = getattr(wrapper, name)(*args)
    except Exception as e:
        return ("EXC", type(e).__name__, str(e))
    return ("OK", normalise(result))


WHENCES = [io.SEEK_SET, io.SEEK_CUR, io.SEEK_END, 0, 1, 2, 3, -1, 7, None,
           "1", 1.0, True, False, np.int64(2)]


def random_operation(rng, size_hint):
    kind = rng.random()
    if kind < 0.62:
        offset = rng.choice([
            0, 1, -1, 2, 3, 4, -4, size_hint, -size_hint, size_hint + 1,
            size_hint - 1, 2*size_hint + 5, -2*size_hint - 5, 2352, -2352,
            rng.randint(-40, 40), rng.randint(-3000, 3000),
            np.int64(rng.randint(-40, 40)), float(rng.randint(-9, 9)), 2.5,
        ])
        style = rng.random()
        if style < 0.25:
            return ("seek", (offset,))
        if style < 0.9:
            return ("seek", (offset, rng.choice(WHENCES[:6])))
        return ("seek", (offset, rng.choice(WHENCES)))
    if kind < 0.9:
        return ("read", (rng.choice([0, 1, 2, 3, 4, 8, 64, 2352, 0x1000,
                                     None, -1, rng.randint(0, 50)]),))
    if kind < 0.97:
        return ("tell", ())
    return ("readall", ())


def bad_operations():
    return [
        ("seek", (None,)), ("seek", ("3",)), ("seek", (None, io.SEEK_SET)),
        ("seek", ("3", io.SEEK_END)), ("seek", ([], io.SEEK_CUR)),
        ("seek", ()),
    ]


def compare_sequences(failures, label, factory, operations):
    live, original = factory()
    for step, operation in enumerate(operations):
        expected = apply(original, operation)
        actual = apply(live, operation)
        if expected != actual or state(original) != state(live):
            failures.append(label)
            print("MISMATCH", label, "step", step, operation)
            print("   expected", expected, state(original)[:3])
            print("   actual  ", actual, state(live)[:3])
            return


def wrapper_cases(rng, failures):
    count = 0
    data = bytes(rng.getrandbits(8) for _ in range(5000))
    configs = []
    for size in [0, 1, 2, 3, 4, 10, 100, 2352, 4704, 5000, 6000, -1, -2352,
                 -7, None]:
        configs.append((StreamWrapper, dict(size=size)))
        for offset in [0, 1, 100, 2352, 4999, 5000, 7056]:
            configs.append((StreamOffset, dict(size=size, offset=offset)))
    for size in [0, 2, 4, 8, 96, 100, 4996, 5000]:
        for width in [1, 2, 3, 4]:
            configs.append((StreamReversed,
                            dict(size=size, sample_width=width)))
    for cls, kwargs in configs:
        orig_cls = original_class(cls)
        for position in (0, 3):
            def factory():
                return (
                    cls(RecordingStream(data), position=position, **kwargs),
                    orig_cls(RecordingStream(data), position=position,
                             **kwargs),
                )
            size_hint = kwargs["size"] if kwargs["size"] else 16
            for _ in range(6):
                operations = [random_operation(rng, abs(size_hint))
                              for _ in range(rng.randint(1, 25))]
                compare_sequences(failures, (cls.__name__, kwargs, position),
                                  factory, operations)
                count += 1
            for bad in bad_operations():
                compare_sequences(failures, (cls.__name__, kwargs, "bad"),
                                  factory,
                                  [("seek", (2, io.SEEK_SET)), bad,
                                   ("tell", ()), ("read", (4,))])
                count += 1
    # nested wrappers: a StreamOffset on top of a StreamOffset
    for _ in range(200):
        # (an inner size of 0 means 'unbounded but seek clamps to 0': readall
        # on top of it never terminates in either version, so it is left out)
        inner_size = rng.choice([10, 100, 2352, 5000, 6000])
        inner_offset = rng.choice([0, 7, 2352])
        outer_size = rng.choice([0, 5, 50, 2352, 9000, -3])
        outer_offset = rng.choice([0, 3, 99])
        orig_offset = original_class(StreamOffset)

        def factory():
            live_inner = StreamOffset(RecordingStream(data), inner_size,
                                      inner_offset)
            orig_inner = orig_offset(RecordingStream(data), inner_size,
                                     inner_offset)
            live = StreamOffset(live_inner, outer_size, outer_offset)
            original = orig_offset(orig_inner, outer_size, outer_offset)
            # expose the innermost log for state()
            live_inner.log = live_inner.substream.log
            orig_inner.log = orig_inner.substream.log
            return live, original
        operations = [random_operation(rng, 64)
                      for _ in range(rng.randint(1, 20))]
        compare_sequences(failures, ("nested", inner_size, outer_size),
                          factory, operations)
        count += 1
    return count


def msf(total):
    return "%02d:%02d:%02d" % (total // 4500, (total // 75) % 60, total % 75)


def cdda_cases(rng, failures):
    """Build CDDA images and read every track through live and original."""
    from smpl_extract import actions
    from smpl_extract.cdda.image import CompactDiskAudioImageAdapter
    from smpl_extract.cuesheet import parse_cue_sheet
    count = 0
    base = tempfile.mkdtemp(prefix="r10demo_")
    orig_offset = original_class(StreamOffset)
    try:
        for n_sectors, tail in [(0, 0), (1, 0), (5, 3), (9, 1177), (14, 0),
                                (3, 2351), (0, 5)]:
            data = bytes(rng.getrandbits(8)
                         for _ in range(n_sectors*2352 + tail))
            for _ in range(12):
                n_tracks = rng.randint(1, 5)
                position = rng.randint(0, 2)
                lines = ["FILE \"disc.bin\" BINARY\n"]
                starts = []
                for t in range(n_tracks):
                    lines.append("  TRACK %02d AUDIO\n" % (t+1))
                    if rng.random() < 0.4:
                        lines.append("    TITLE \"T%d\"\n" % t)
                    if rng.random() < 0.3:
                        lines.append("    INDEX 00 %s\n" % msf(position))
                        starts.append(position)
                        position += 1
                        lines.append("    INDEX 01 %s\n" % msf(position))
                    else:
                        lines.append("    INDEX 01 %s\n" % msf(position))
                        starts.append(position)
                    position += rng.randint(1, 4)
                cue = parse_cue_sheet(list(lines))
                image = CompactDiskAudioImageAdapter.from_bin_cue(
                    RecordingStream(data), cue)
                for number, track in enumerate(image.tracks):
                    live = track._data_stream
                    original = orig_offset(RecordingStream(data),
                                           live.end_of_file, live.offset)
                    io.BytesIO.seek(live.substream, 0)
                    live.substream.log.clear()
                    for operation in [
                        ("seek", (0, io.SEEK_SET)), ("read", (0x1000,)),
                        ("seek", (0, io.SEEK_END)), ("tell", ()),
                        ("seek", (-4, io.SEEK_CUR)), ("read", (8,)),
                        ("seek", (0, io.SEEK_SET)), ("read", (None,)),
                    ]:
                        expected = apply(original, operation)
                        actual = apply(live, operation)
                        if expected != actual \
                                or state(original) != state(live):
                            failures.append("cdda")
                            print("MISMATCH cdda", lines, number, operation)
                            break
                    # PCM promised by the property (for in-range indices)
                    begin = starts[number]*2352
                    end = starts[number+1]*2352 \
                        if number+1 < len(starts) else len(data)
                    if end <= len(data) and begin <= end:
                        live.seek(0, io.SEEK_SET)
                        if live.read(None) != data[begin:end]:
                            failures.append("cdda-pcm")
                            print("MISMATCH cdda pcm", lines, number)
                count += 1

        # export through the whole tool
        data = bytes(rng.getrandbits(8) for _ in range(9*2352 + 1177))
        with open(os.path.join(base, "tail.bin"), "wb") as f:
            f.write(data)
        cue_path = os.path.join(base, "disc.cue")
        with open(cue_path, "w", encoding="ascii") as f:
            f.write(
                "FILE \"tail.bin\" BINARY\n"
                "  TRACK 01 AUDIO\n    INDEX 01 00:00:01\n"
                "  TRACK 02 AUDIO\n    TITLE \"Two\"\n"
                "    INDEX 00 00:00:03\n    INDEX 01 00:00:04\n"
                "  TRACK 03 AUDIO\n    INDEX 01 00:00:07\n"
            )
        destination = os.path.join(base, "out")
        os.mkdir(destination)
        actions.export_samples_to_wav(cue_path, destination)
        found = []
        for root, _dirs, files in sorted(os.walk(destination)):
            for name in sorted(files):
                with open(os.path.join(root, name), "rb") as f:
                    found.append(f.read())
        windows = [
            data[1*2352:3*2352], data[3*2352:7*2352],
            data[7*2352:len(data) - ((len(data) - 7*2352) % 4)],
        ]
        expected_digest = [
            hashlib.sha1(window).hexdigest() for window in windows
        ]
        found_digest = [hashlib.sha1(blob[44:]).hexdigest() for blob in found]
        if sorted(expected_digest) != sorted(found_digest):
            failures.append("export")
            print("MISMATCH export", [len(b) for b in found])
        count += 1
    finally:
        shutil.rmtree(base, ignore_errors=True)
    return count


def main():
    failures = []
    rng = random.Random(0xC0310)
    n_wrapper = wrapper_cases(rng, failures)
    n_cdda = cdda_cases(rng, failures)
    print("wrapper sequences:", n_wrapper, "cdda cases:", n_cdda,
          "failures:", len(failures))
    return 1 if failures else 0


if __name__ == "__main__":
    sys.exit(main())
