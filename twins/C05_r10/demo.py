"""Equivalence demo for r10: base.Element.export_name (hasattr + nested if ->
getattr default + conditional expression) and base.Element.export_path
(prepend-in-a-while-loop -> generator helper + list comprehension + reverse)
versus inline copies of the ORIGINAL implementations.

Uses (a) instrumented Element subclasses that log every read of name / path /
parent so the order of reads is compared as well, (b) elements without the
private attributes at all (hasattr branch), (c) real generalized Samples,
including ones produced by combine_stereo (which overrides _export_name), and
(d) ExportManager.make_output_path / Image.combine_stereo_routine on top.
Exit 0 when all inputs agree, 1 otherwise.
"""
import itertools
import random
import sys

from smpl_extract.base import Element
from smpl_extract.generalized.sample import combine_stereo
from smpl_extract.generalized.sample import Sample
from smpl_extract.structural import ExportManager
from smpl_extract.structural import Image


# --------------------------------------------------------------------------
# ORIGINAL implementations (verbatim bodies)
# --------------------------------------------------------------------------
def original_export_name(self):
    result = self.name
    if hasattr(self, "_export_name"):
        if self._export_name is not None:
            result = self._export_name
    return result


def original_export_path(self):
    current_path = self.path
    if len(current_path) <= 0:
        return []
    new_path = []
    current_node = self
    while current_node is not None and len(current_node.path) > 0:
        new_path = [current_node.export_name] + new_path
        current_node = current_node.parent
    return new_path


class originals:
    """Context manager: while active, Element.export_name / export_path are
    the ORIGINAL implementations (for every subclass, Sample included)."""
    def __enter__(self):
        self.saved = (Element.__dict__["export_name"],
                      Element.__dict__["export_path"])
        Element.export_name = property(original_export_name)
        Element.export_path = original_export_path

    def __exit__(self, *exc):
        Element.export_name, Element.export_path = self.saved
        return False


class current:
    def __enter__(self):
        pass

    def __exit__(self, *exc):
        return False


# --------------------------------------------------------------------------
# Instrumented elements
# --------------------------------------------------------------------------
LOG = []


class Boom(Exception):
    pass


class Node(Element):
    """Element with logged reads of name / path / parent."""

    def __init__(self, label, name, path, parent, export_name, mode):
        self.label = label
        self._name = name
        self.mode = mode
        if mode != "bare":
            super().__init__(path, parent)
            self._export_name = export_name
        elif export_name is not None:
            self._export_name = export_name
        if mode == "bare":
            # no _path/_parent attribute at all -> hasattr branches of base
            if path:
                self._path = path
            if parent is not None:
                self._parent = parent

    @property
    def name(self):
        LOG.append((self.label, "name"))
        if self._name is Boom:
            raise Boom("name of " + self.label)
        return self._name

    @property
    def path(self):
        LOG.append((self.label, "path"))
        return Element.path.fget(self)

    @property
    def parent(self):
        LOG.append((self.label, "parent"))
        return Element.parent.fget(self)

    def get_info(self):
        raise NotImplementedError


def build_chain(cls, spec):
    """spec: list of (name, path, export_name, mode) from root to leaf."""
    parent = None
    nodes = []
    for i, (name, path, export_name, mode) in enumerate(spec):
        node = cls("n%d" % i, name, list(path), parent, export_name, mode)
        nodes.append(node)
        parent = node
    return nodes


def observe(fn):
    del LOG[:]
    try:
        value = fn()
        outcome = ("ok", type(value).__name__, value)
    except Exception as e:
        outcome = ("exc", type(e).__name__, str(e))
    return outcome, list(LOG)


def compare_chain(spec):
    bad = 0
    new_nodes = build_chain(Node, spec)
    old_nodes = build_chain(Node, spec)
    for new, old in zip(new_nodes, old_nodes):
        for what in ("export_name", "export_path", "twice"):
            if what == "export_name":
                with originals():
                    a = observe(lambda: old.export_name)
                b = observe(lambda: new.export_name)
            elif what == "export_path":
                with originals():
                    a = observe(lambda: old.export_path())
                b = observe(lambda: new.export_path())
            else:
                # result must be a fresh list on every call
                def fresh(n):
                    p1 = n.export_path()
                    p2 = n.export_path()
                    p1.append("x")
                    return (p1 is p2, p1, p2, n.path)
                with originals():
                    a = observe(lambda: fresh(old))
                b = observe(lambda: fresh(new))
            if a != b:
                bad += 1
                if bad <= 3:
                    print("MISMATCH", what, spec)
                    print("  original:", a)
                    print("  current :", b)
    return bad


# --------------------------------------------------------------------------
# Real samples
# --------------------------------------------------------------------------
class ImageLike(Element):
    name = "image"

    def __init__(self, path=None):
        super().__init__(path, None)

    def get_info(self):
        raise NotImplementedError


class Dir(Element):
    def __init__(self, name, path, parent, export_name=None):
        super().__init__(path, parent)
        self.name = name
        self._export_name = export_name

    def get_info(self):
        raise NotImplementedError


def make_sample_tree(names, dir_specs, root_path):
    s_cls = Sample
    d_cls = Dir
    i_cls = ImageLike
    parent = i_cls(list(root_path))
    path = list(root_path)
    for dname, dexport in dir_specs:
        path = path + [dname]
        parent = d_cls(dname, list(path), parent, dexport)
    samples = []
    for name, export in names:
        samples.append(s_cls(
            name=name,
            _parent=parent,
            _path=path + [name],
            _export_name=export,
        ))
    return samples


def summarize_samples(samples, mgr):
    out = []
    for s in samples:
        out.append((s.name, s.export_name, s.export_path(),
                    mgr.make_output_path(s), s.num_channels,
                    int(s.channel_config)))
    return out


def compare_samples(names, dir_specs, root_path):
    res = []
    for ctx in (originals(), current()):
        with ctx:
            samples = make_sample_tree(names, dir_specs, root_path)
            mgr = ExportManager("out")
            image = Image(lambda ctx_: [])
            try:
                before = summarize_samples(samples, mgr)
                combined = image.combine_stereo_routine(samples)
                after = summarize_samples(combined, mgr)
                idents = [next((i for i, s in enumerate(samples) if s is c), None)
                          for c in combined]
                extra = []
                if len(samples) >= 2:
                    c = combine_stereo(samples[0], samples[1], None)
                    extra.append((c.export_name, c.export_path()))
                    c = combine_stereo(samples[0], samples[1], "")
                    extra.append((c.export_name, c.export_path()))
                res.append(("ok", before, after, idents, extra))
            except Exception as e:
                res.append(("exc", type(e).__name__, str(e)))
    if res[0] != res[1]:
        print("MISMATCH samples", names, dir_specs, root_path)
        print("  original:", res[0])
        print("  current :", res[1])
        return 1
    return 0


def main():
    rnd = random.Random(5150)
    failures = 0
    checked = 0

    # --- instrumented chains ------------------------------------------------
    name_choices = ["A", "", "PIANO -L", Boom, None]
    export_choices = [None, "", "X", "PIANO -R", 0]
    path_choices = [[], ["a"], ["a", "b"]]
    modes = ["init", "bare"]
    level = list(itertools.product(name_choices, path_choices,
                                   export_choices, modes))
    specs = [[lv] for lv in level]
    for _ in range(2500):
        depth = rnd.randint(2, 5)
        specs.append([rnd.choice(level) for _ in range(depth)])
    # typical well-formed trees: image with empty path on top
    for depth in range(1, 6):
        for _ in range(60):
            spec = [("image", [], None, "init")]
            path = []
            for d in range(depth):
                nm = rnd.choice(["V%d" % d, "S -L", "S -R", ""])
                path = path + [nm]
                spec.append((nm, list(path),
                             rnd.choice(export_choices), "init"))
            specs.append(spec)
    for spec in specs:
        failures += compare_chain(spec)
        checked += 1

    # --- real samples -----------------------------------------------------------
    stems = ["PIANO", "STR", "A", "PIANO -L", ""]
    sfx = ["", " -L", " -R", " L", " R", "-L", "-R", "  -  L"]
    pool = [s + x for s in stems for x in sfx]
    for _ in range(1500):
        k = rnd.randint(0, 6)
        names = []
        for _ in range(k):
            n = rnd.choice(pool)
            e = rnd.choice([None, None, n, n.strip() or "0", rnd.choice(pool)])
            names.append((n, e))
        dirs = [(rnd.choice(["VOL", "PERF", ""]), rnd.choice([None, "D", ""]))
                for _ in range(rnd.randint(0, 3))]
        root_path = rnd.choice([[], [], ["img"]])
        failures += compare_samples(names, dirs, root_path)
        checked += 1

    print("checked %d scenarios, %d mismatches" % (checked, failures))
    return 1 if failures else 0


if __name__ == "__main__":
    sys.exit(main())
