"""Equivalence demo for refactoring r4 (saturation: _c_bound in smpl_extract/filters/iir.pyx and
_c_bound_and_fix in smpl_extract/filters/fir.pyx; if/elif clamp -> min()/max()).

Both are tiny `cdef` functions shipped inside a pre-built extension (the .pyx text is not
live), so the demo
  * reads the text of the two functions from the .pyx files that are in the tree
    (refactored or not), transliterates it mechanically to Python (drop `cdef <type>`,
    `<short> e` -> c_short(e), C round() -> cround()) and exec()s it      -> LIVE,
  * compares LIVE against an inline transliteration of the ORIGINAL text on a dense set of
    doubles (all half-integers around both limits, +-inf, NaN for _c_bound, -0.0, random),
  * and runs the ChickenSys IIR / FIR presets end-to-end with LIVE saturation plugged into a
    Python port of the surrounding loops, against the compiled extension, over many
    block splits of extreme int16 signals.
Python's min(a, b) / max(a, b) on two floats have the same semantics as the C code Cython
emits for typed min/max (`b < a ? b : a`, `b > a ? b : a`), NaN included.
Exit 0 = everything agrees, 1 otherwise.
"""
import math
import os
import random
import re
import struct
import sys

import numpy as np

import smpl_extract.filters.fir as cfir
import smpl_extract.filters.iir as ciir
from smpl_extract.filters import common


# ------------------------------------------------------------- C emulation --
def cround(x):
    """C round(): half away from zero."""
    if math.isnan(x) or math.isinf(x):
        return x
    t = math.trunc(x)
    if abs(x - t) >= 0.5:
        t += 1 if x > 0 else -1
    r = float(t)
    if r == 0.0:
        r = math.copysign(0.0, x)
    return r


def c_short(v):
    v = int(v)
    return ((v + 32768) & 0xFFFF) - 32768


# ---------------------------------------------------------------- ORIGINAL --
def O_c_bound(x):
    result = x
    if x > 32767.0:
        result = 32767.0
    # yes - this IS supposed to be -32767, not -32768
    elif x < -32767.0:
        result = -32767.0
    return result


def O_c_bound_and_fix(x):
    result = 0
    if x > 32767.0:
        result = 32767
        return result
    # yes - this lbound IS -32768
    if x < -32768.0:
        result = -32768
        return result

    result = c_short(cround(x))
    return result


# -------------------------------------------------------------------- LIVE --
def transliterate(path, name):
    text = open(path).read()
    m = re.search(r"^cdef \w+ %s\(double x\):\n(?:[ \t]+.*\n|[ \t]*\n)+" % name, text, re.M)
    src = m.group(0)
    out = []
    for line in src.rstrip().split("\n"):
        line = re.sub(r"^cdef \w+ (\w+)\(double (\w+)\):", r"def \1(\2):", line)
        line = re.sub(r"^(\s+)cdef \w+ ", r"\1", line)
        line = re.sub(r"<short>\s*(.+)$", r"c_short(\1)", line)
        out.append(line)
    ns = {"cround": cround, "c_short": c_short}
    exec("\n".join(out) + "\n", ns)
    return ns[name]


_dir = os.path.dirname(cfir.__file__)
L_c_bound = transliterate(os.path.join(_dir, "iir.pyx"), "_c_bound")
L_c_bound_and_fix = transliterate(os.path.join(_dir, "fir.pyx"), "_c_bound_and_fix")

CASES = 0
FAIL = 0


def bits(v):
    return struct.pack(">d", float(v))


def same(a, b):
    return type(a) is type(b) and bits(a) == bits(b)


def check_scalar(x, with_fix=True):
    global CASES, FAIL
    CASES += 1
    ok = same(O_c_bound(x), L_c_bound(x))
    if with_fix:
        a, b = O_c_bound_and_fix(x), L_c_bound_and_fix(x)
        ok = ok and a == b and -32768 <= b <= 32767
    if not ok:
        FAIL += 1
        if FAIL <= 5:
            print("MISMATCH scalar", repr(x))


# ------------------------------------------------- ports of the callers ------
def port_chick_iir_process(bound, x, B, A, x_prev, y_prev):
    """_c_chickensys_process with a 1st order filter (state as plain lists)."""
    xw = [float(v) for v in x_prev] + [0.0]
    yw = [float(v) for v in y_prev]
    out = []
    for v in x:
        xw = [float(v)] + xw[:-1]
        y_cur = 0.0
        acc = 0.0
        for b, s in zip(B, xw):
            acc += b * s
        acc2 = 0.0
        for a, s in zip(A[1:], yw):
            acc2 += a * s
        y_cur = acc - acc2
        y_cur /= A[0]
        y_cur = bound(y_cur)
        yw = [y_cur] + yw[:-1]
        out.append(c_short(math.trunc(y_cur)))
    x_prev[:] = xw[:len(x_prev)]
    y_prev[:] = yw[:len(y_prev)]
    return np.asarray(out, dtype=np.int16)


def make_chick_iir(bound):
    class Port(ciir.ChickSysCustomIirFilter):
        def process(self, x):
            return port_chick_iir_process(bound, [int(v) for v in x],
                                          [float(v) for v in self.B], [float(v) for v in self.A],
                                          self.x_prev, self.y_prev)
    return Port


def make_chick_fir(bound_and_fix):
    class Port(cfir.ChickSysCustomFirFilter):
        def convolve_valid(self, x, h):
            x = [int(v) for v in x.astype(np.int16)]
            hh = [int(v) for v in h]
            k = self.k_gain
            assert k != 0
            n_x, n_h = len(x), len(hh)
            if n_h > n_x:
                return np.asarray([], dtype=np.int16)
            y = np.zeros(n_x - n_h + 1, dtype=np.int16)
            for i in range(len(y)):
                y_cur = 0.0
                h_index = n_h - 1
                for x_index in range(i, i + n_h):
                    y_cur += cround(float(x[x_index] * hh[h_index]) / k)
                    h_index -= 1
                y[i] = bound_and_fix(y_cur)
            return y
    return Port


def snap(a):
    a = np.asarray(a)
    return (str(a.dtype), a.shape, a.tobytes())


def run(cls, args, blocks, state_names):
    f = cls(*args)
    trace = []
    for b in blocks:
        y = f.process(b.copy())
        trace.append((snap(y),) + tuple(snap(getattr(f, s)) for s in state_names))
    trace.append((snap(f.get_remaining()),) + tuple(snap(getattr(f, s)) for s in state_names))
    return trace


def check_filters(impls, args, blocks, state_names):
    global CASES, FAIL
    CASES += 1
    traces = [run(c, args, blocks, state_names) for c in impls]
    if not all(t == traces[0] for t in traces[1:]):
        FAIL += 1
        if FAIL <= 5:
            print("MISMATCH filter", args, [b.tolist() for b in blocks])


def random_split(rnd, x):
    n = len(x)
    cuts = sorted(set(rnd.randint(1, n) for _ in range(rnd.randint(0, 8))) | {n})
    blocks, s = [], 0
    for c in cuts:
        blocks.append(x[s:c])
        s = c
    return blocks


def compositions(n):
    for mask in range(1 << max(0, n - 1)):
        parts, start = [], 0
        for i in range(1, n):
            if mask & (1 << (i - 1)):
                parts.append((start, i))
                start = i
        parts.append((start, n))
        yield parts


PRESETS = [(0.5923, 0.1516, 0.2560), (0.7071, 0.1213, 0.1716),
           (1.0 * 22082 / 32767, 1.0 * 4967 / 32767, 1.0 * 8411 / 32767)]


def main():
    rnd = random.Random(4)

    # 1. scalar sweep
    for lim in (32767.0, 32768.0, -32767.0, -32768.0, 0.0):
        for k in range(-40, 41):
            x = lim + k * 0.25
            check_scalar(x)
            check_scalar(math.nextafter(x, math.inf))
            check_scalar(math.nextafter(x, -math.inf))
    for x in (0.0, -0.0, 0.5, -0.5, 0.49999999999999994, -0.49999999999999994, 1.5, -1.5, 2.5,
              1e9, -1e9, 1e300, -1e300, math.inf, -math.inf, 5e-324, -5e-324):
        check_scalar(x)
    check_scalar(math.nan, with_fix=False)   # <short> of NaN is undefined in C in both versions
    for _ in range(20000):
        check_scalar(rnd.uniform(-70000, 70000))
        check_scalar(float(rnd.randint(-40000, 40000)) + rnd.choice([0.0, 0.5, -0.5]))

    # 2. end-to-end: presets + over-unity gains that really saturate
    iir_impls = [ciir.ChickSysCustomIirFilter, make_chick_iir(O_c_bound), make_chick_iir(L_c_bound)]
    fir_impls = [cfir.ChickSysCustomFirFilter, make_chick_fir(O_c_bound_and_fix),
                 make_chick_fir(L_c_bound_and_fix)]
    fir_preset = (common._chick_sys_roland_deemph_h, common._chick_sys_roland_deemph_delay_offset,
                  common._chick_sys_roland_deemph_k_gain)
    loud = (np.asarray([20000, 30000, 20000], dtype=np.int16), 1, 20000)   # gain 3.5 -> clips
    for n in range(1, 8):
        for vals in ([32767] * n, [-32768] * n, [rnd.choice([-32768, 32767]) for _ in range(n)]):
            x = np.asarray(vals, dtype=np.int16)
            for parts in compositions(n):
                blocks = [x[a:b] for a, b in parts]
                check_filters(iir_impls, ((1.4, 0.9, 0.7),), blocks, ("x_prev", "y_prev"))
                check_filters(iir_impls, (PRESETS[n % 3],), blocks, ("x_prev", "y_prev"))
                check_filters(fir_impls, loud, blocks, ("x_prev",))
    for _ in range(60):
        n = rnd.randint(1, 150)
        if rnd.random() < 0.5:
            vals = [rnd.randint(-32768, 32767) for _ in range(n)]
        else:
            vals = [rnd.choice([-32768, 32767, -32767, 32766]) for _ in range(n)]
        x = np.asarray(vals, dtype=np.int16)
        blocks = random_split(rnd, x)
        for coeffs in PRESETS + [(rnd.uniform(0.8, 2.0), rnd.uniform(0.5, 1.5), rnd.uniform(0.1, 0.95))]:
            check_filters(iir_impls, (coeffs,), blocks, ("x_prev", "y_prev"))
        check_filters(fir_impls, fir_preset, blocks, ("x_prev",))
        check_filters(fir_impls, loud, blocks, ("x_prev",))

    # 3. saturation really happened somewhere (the test is not vacuous)
    f = cfir.ChickSysCustomFirFilter(*loud)
    y = np.concatenate([f.process(np.asarray([32767] * 6, dtype=np.int16)), f.get_remaining()])
    g = ciir.ChickSysCustomIirFilter((1.4, 0.9, 0.7))
    z = g.process(np.asarray([-32768] * 6, dtype=np.int16))
    global CASES, FAIL
    CASES += 1
    if not (y.max() == 32767 and z.min() == -32767):
        FAIL += 1
        print("saturation not reached", y, z)

    print("cases:", CASES, "failures:", FAIL)
    return 1 if FAIL else 0


if __name__ == "__main__":
    sys.exit(main())
