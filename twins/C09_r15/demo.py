"""Equivalence demo for r15: cuesheet.CueSheetTrackAdapter.parse (the cue-sheet
parser behind actions.attempt_parse_cue_sheet, i.e. the cue -> data-track
indirection).

The refactoring replaces the `if INDEX-match: ...; continue` /
`if TITLE-match: ...; continue` / `unparsed.append` chain by a module-level
table of (regex, handler) pairs walked with for/else, the two branch bodies
having moved into the private handlers _apply_index_line / _apply_title_line.

The ORIGINAL parse() is pasted below (it uses the module's own regexes,
dataclasses and get_nonempty_entry, none of which changed).  Checks:
  * on thousands of generated line lists (valid sheets, shuffled property
    lines, case / whitespace variants, malformed INDEX/TITLE lines, unicode
    digits, blank lines, over-long digit strings that make int() raise) the
    live and the original track parser return equal (track, remaining lines),
    raise the same exception, and leave the caller's list in the same state;
  * parse_cue_sheet (live) equals parse_cue_sheet rebuilt on the original
    track parser;
  * end to end: cue files written into a fresh temp directory and pointed at
    a raw / 2352-byte-sector / MDX-wrapped payload are classified by
    actions.determine_image_type exactly as the original parser predicts
    (data track -> sampler image over the unwrapped payload, all-audio -> CDDA,
    malformed -> falls through to the binary probes).
"""
import io
import os
import random
import shutil
import struct
import sys
import tempfile

from smpl_extract import actions
from smpl_extract import cuesheet
from smpl_extract.alcohol.mdx import MdxHeaderConstruct
from smpl_extract.cuesheet import BadCueSheet
from smpl_extract.cuesheet import CueSheetFile
from smpl_extract.cuesheet import CueSheetIndex
from smpl_extract.cuesheet import CueSheetTrack
from smpl_extract.cuesheet import CueSheetTrackAdapter
from smpl_extract.cuesheet import get_nonempty_entry
from smpl_extract.cuesheet import parse_cue_sheet
from smpl_extract.cuesheet import _FILE_LINE_REGEX
from smpl_extract.cuesheet import _INDEX_LINE_REGEX
from smpl_extract.cuesheet import _TITLE_LINE_REGEX
from smpl_extract.cuesheet import _TRACK_LINE_REGEX


# ---- the ORIGINAL method, verbatim (as a plain function) --------------------
def original_track_parse(lines):
    text, lines = get_nonempty_entry(lines)
    if len(text) <= 0:
        raise BadCueSheet
    result = _TRACK_LINE_REGEX.match(text)
    if not result:
        raise BadCueSheet
    track_number = int(result.groups()[0])
    track_mode = result.groups()[1]
    track = CueSheetTrack(
        track_number,
        track_mode
    )

    while len(lines):
        text, lines = get_nonempty_entry(lines)
        if len(text) <= 0:
            break

        # Check if next track began
        result = _TRACK_LINE_REGEX.match(text)
        if result:
            lines = [text] + lines
            break

        # check known properties
        result = _INDEX_LINE_REGEX.match(text)
        if result:
            index_number = int(result.groups()[0])
            n_minutes = int(result.groups()[1])
            n_seconds = int(result.groups()[2])
            n_frames = int(result.groups()[3])
            index = CueSheetIndex(
                index_number,
                n_minutes,
                n_seconds,
                n_frames
            )
            track.indices.append(index)
            continue

        result = _TITLE_LINE_REGEX.match(text)
        if result:
            title = result.groups()[0]
            track.title = title
            continue

        track.unparsed.append(text)

    return track, lines


# the unchanged callers, rebuilt on top of the original track parser
def original_file_parse(lines):
    text, lines = get_nonempty_entry(lines)
    if len(text) <= 0:
        raise BadCueSheet
    result = _FILE_LINE_REGEX.match(text)
    if not result:
        raise BadCueSheet

    bin_file_name = result.groups()[0]
    cue_sheet = CueSheetFile(bin_file_name)
    while len(lines):
        text, lines = get_nonempty_entry(lines)
        if len(text) <= 0:
            break
        lines = [text] + lines
        track, lines = original_track_parse(lines)
        if track:
            cue_sheet.tracks.append(track)

    return cue_sheet, lines


def original_parse_cue_sheet(lines):
    cue_sheet_files = []
    while len(lines):
        text, lines = get_nonempty_entry(lines)
        match_result = _FILE_LINE_REGEX.match(text)
        if match_result:
            lines = [text] + lines
            cue_sheet_file, lines = original_file_parse(lines)
            cue_sheet_files.append(cue_sheet_file)

    if len(cue_sheet_files) <= 0:
        raise BadCueSheet("No FILE entry")

    result = cue_sheet_files[0]
    return result


failures = []
checks = 0


def outcome(fn):
    try:
        return ("ok", fn())
    except Exception as e:  # noqa: BLE001 - compared, not hidden
        return ("exc", type(e).__name__, str(e))


def check(label, a, b):
    global checks
    checks += 1
    if a != b:
        failures.append((label, a, b))


# ---- generators -------------------------------------------------------------
def vary(rng, word):
    return rng.choice([word, word.lower(), word.capitalize(), word.upper()])


def ws(rng):
    return rng.choice(["", " ", "  ", "\t", " \t "])


def digits(rng):
    return rng.choice([
        "0", "1", "01", "00", "2", "07", "59", "74", "99", "123", "000012",
        "٣", "١٢", "１２",          # arabic-indic / fullwidth digits
        str(rng.randint(0, 10**6)),
    ])


def track_line(rng):
    mode = rng.choice(["AUDIO", "audio", "Audio", "MODE1/2352", "MODE1/2048", "mode2/2336",
                       "CDG", "MODE1_RAW", "A^b", "[x]", ""])
    return f"{ws(rng)}{vary(rng, 'TRACK')} {ws(rng)}{digits(rng)} {mode}{rng.choice(['', ' extra', chr(10)])}"


def index_line(rng):
    sep = rng.choice([":", ":", ":", ";", " : ", ""])
    tail = rng.choice(["", "", " trailing", ":5", "\n", "\r\n"])
    return (f"{ws(rng)}{vary(rng, 'INDEX')}{rng.choice([' ', '  ', chr(9), ''])}{digits(rng)}"
            f"{rng.choice([' ', '   ', ''])}{digits(rng)}{sep}{digits(rng)}{sep}{digits(rng)}{tail}")


def title_line(rng):
    body = rng.choice(["Song", "", "a \"quoted\" b", "INDEX 01 00:00:00", "TRACK 02 AUDIO", "été"])
    q1, q2 = rng.choice([('"', '"'), ('"', '"'), ('"', ''), ('', ''), ("'", "'")])
    return f"{ws(rng)}{vary(rng, 'TITLE')}{rng.choice([' ', '  ', ''])}{q1}{body}{q2}{rng.choice(['', ' x', chr(10)])}"


def other_line(rng):
    return rng.choice([
        "", "   ", "\n", "\t\n", "REM COMMENT x", "FLAGS DCP", "PREGAP 00:02:00", "PERFORMER \"me\"",
        "ISRC ABCDE1234567", "INDEXES 01 00:00:00", "XINDEX 01 00:00:00", "TITLED \"x\"",
        "  index 01 00:00", "title", "garbage ☃", "POSTGAP 00:00:00",
        "INDEX 01 " + "9" * 5000 + ":00:00",              # int() refuses > 4300 digits
        "INDEX " + "1" * 4301 + " 00:00:00",
        "INDEX 01 00:00:" + "7" * 4400,
    ])


def file_line(rng):
    name = rng.choice(["image.bin", "a b.bin", "", "x.iso"])
    kind = rng.choice(["BINARY", "binary", "Binary", "WAVE", ""])
    return f"{ws(rng)}{vary(rng, 'FILE')} \"{name}\" {kind}"


def random_lines(rng, with_file):
    makers = [track_line, index_line, index_line, title_line, other_line, other_line]
    if with_file:
        makers.append(file_line)
    lines = []
    if rng.random() < 0.8:
        lines.append(track_line(rng) if not with_file else file_line(rng))
    for _ in range(rng.randint(0, 14)):
        lines.append(rng.choice(makers)(rng))
    return lines


def mdf_wrap(payload):
    out = bytearray()
    for i in range(0, len(payload), 2048):
        body = payload[i:i + 2048].ljust(2048, b"\0")
        out += b"\x00" + b"\xFF" * 10 + b"\x00" + struct.pack(">I", i // 2048)[1:] + b"\x01"
        out += body + bytes(288)
    return bytes(out)


def mdx_wrap(payload):
    return MdxHeaderConstruct.build(dict(
        copyright=b"\xA9" + b" " * 25,
        eof=MdxHeaderConstruct.sizeof() + len(payload),
    )) + payload


def main():
    rng = random.Random(0x515)

    # -- handler table, when present, is the original order ----------------------
    table = getattr(cuesheet, "_TRACK_PROPERTY_HANDLERS", None)
    if table is not None:
        check("table regex order", [r for r, _ in table], [_INDEX_LINE_REGEX, _TITLE_LINE_REGEX])

    # -- track parser ------------------------------------------------------------
    fixed = [
        [],
        [""],
        ["", "  ", "\n"],
        ["TRACK 01 AUDIO"],
        ["TRACK 01 AUDIO", "INDEX 01 00:00:00"],
        ["  TRACK 01 MODE1/2352", "    INDEX 01 00:00:00", "", "  TRACK 02 AUDIO", "    INDEX 00 10:20:30",
         "    INDEX 01 10:22:30"],
        ["TRACK 01 AUDIO", "TITLE \"a\"", "TITLE \"b\"", "INDEX 01 00:00:00", "FLAGS DCP", "", "REM after blank"],
        ["TRACK 1 AUDIO", "INDEX 01 00:00:00", "", "", "INDEX 02 00:01:00"],
        ["TRACK x AUDIO"],
        ["INDEX 01 00:00:00"],
        ["TRACK 01 AUDIO", "INDEX 01 " + "9" * 5000 + ":00:00", "TITLE \"never reached\""],
        ["TRACK " + "1" * 5000 + " AUDIO"],
    ]
    cases = fixed + [random_lines(rng, with_file=False) for _ in range(6000)]
    for n, lines in enumerate(cases):
        mine, theirs = list(lines), list(lines)
        a = outcome(lambda: CueSheetTrackAdapter.parse(mine))
        b = outcome(lambda: original_track_parse(theirs))
        check(("track", n), a, b)
        check(("track caller list", n), mine, theirs)
        if a[0] == "ok" and b[0] == "ok":
            check(("track types", n),
                  [type(x).__name__ for x in (a[1][0], a[1][1], *a[1][0].indices)],
                  [type(x).__name__ for x in (b[1][0], b[1][1], *b[1][0].indices)])

    # -- whole sheet -------------------------------------------------------------
    sheets = [random_lines(rng, with_file=True) for _ in range(4000)]
    for n, lines in enumerate(sheets):
        mine, theirs = list(lines), list(lines)
        check(("sheet", n), outcome(lambda: parse_cue_sheet(mine)), outcome(lambda: original_parse_cue_sheet(theirs)))
        check(("sheet caller list", n), mine, theirs)

    # -- end to end through determine_image_type ----------------------------------
    workdir = tempfile.mkdtemp(prefix="r15_demo_")
    try:
        for n in range(120):
            size = rng.choice([2048, 4096, 5000, 2352 * 2, 10000])
            payload = bytes(rng.getrandbits(8) for _ in range(size))
            container = rng.choice(["raw", "mdf", "mdx"])
            blob = {"raw": payload, "mdf": mdf_wrap(payload), "mdx": mdx_wrap(payload)}[container]
            bin_name = f"img{n}.bin"
            with open(os.path.join(workdir, bin_name), "wb") as f:
                f.write(blob)

            body = []
            for t in range(rng.randint(0, 4)):
                mode = rng.choice(["AUDIO", "audio", "MODE1/2352", "MODE1/2048"])
                body.append(f"  TRACK {t + 1:02d} {mode}")
                extras = [f"    INDEX 01 {t:02d}:00:00", f"    TITLE \"t{t}\"", "    FLAGS DCP", "    PREGAP 00:02:00"]
                rng.shuffle(extras)
                body.extend(extras[:rng.randint(0, 4)])
            text_lines = [f"FILE \"{bin_name}\" BINARY"] + body
            if rng.random() < 0.15:
                text_lines = body                      # no FILE line: not a cue sheet
            cue_path = os.path.join(workdir, f"sheet{n}.cue")
            with open(cue_path, "w", encoding="ascii") as f:
                f.write("\n".join(text_lines) + "\n")

            expected_sheet = outcome(lambda: original_parse_cue_sheet([x + "\n" for x in text_lines]))
            if expected_sheet[0] == "exc":
                # falls through to the binary probes on the text file itself
                image = actions.determine_image_type(cue_path)
                check(("e2e not-a-cue", n), type(image).__name__, "AkaiImageParser")
                image.file.close()
                continue
            tracks = expected_sheet[1].tracks
            has_data = any(t.mode.lower() != "audio" for t in tracks)
            got = outcome(lambda: actions.determine_image_type(cue_path))
            if has_data:
                check(("e2e kind", n, container), (got[0], type(got[1]).__name__), ("ok", "AkaiImageParser"))
                stream = got[1].file
                check(("e2e wrapper", n, container), type(stream).__name__,
                      {"raw": "BufferedReader", "mdf": "MdfStream", "mdx": "StreamOffset"}[container])
                stream.seek(0, 0)
                data = stream.read(len(payload))
                check(("e2e content", n, container), data, payload)
            else:
                # all-audio (or track-less) sheet -> CDDA; odd bin sizes may be refused
                # by the CDDA adapter, identically on both trees
                check(("e2e kind", n, container),
                      got[0] == "exc" or type(got[1]).__name__ != "AkaiImageParser", True)
    finally:
        shutil.rmtree(workdir, ignore_errors=True)

    print(f"{checks} checks, {len(failures)} disagreements")
    for f in failures[:10]:
        print("  MISMATCH", repr(f)[:400])
    return 1 if failures else 0


if __name__ == "__main__":
    sys.exit(main())
