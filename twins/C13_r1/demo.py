"""Equivalence demo for r1: FatAreaAdapter._decode (smpl_extract/roland/s7xx/fat.py).

Runs the live _decode and an inline copy of the ORIGINAL implementation on
many generated / corrupted Roland FATs and compares results (version, number
of remaining clusters, full sector-link table) or the raised exception
(type + message).  Exit 0 when everything agrees, 1 otherwise.
"""
import random
import sys

from construct.core import ConstructError

from smpl_extract.roland.s7xx import fat as live
from smpl_extract.roland.s7xx.data_types import (
    FAT_AREA_ID, FAT_ERROR_FLAG, FAT_FREE_FLAG, FAT_IS_END_F, FAT_NUM_ENTRIES,
    FAT_RESERVED_FLAG, FAT_VERSION_1_FLAG, FAT_VERSION_2_FLAG,
)
from smpl_extract.util.fat import SectorLink, add_to_sector_links

FatArea = live.FatArea
RolandFileAllocationTable = live.RolandFileAllocationTable
FatAreaContainer = live.FatAreaContainer
FatAreaMetadataContainer = live.FatAreaMetadataContainer


def original_decode(container):
    """Verbatim copy of the original FatAreaAdapter._decode body."""
    fat_id = container.metadata.fat_id
    if fat_id != FAT_AREA_ID:
        raise ConstructError((
            "Bad FAT identifier. "
            f"Expected {FAT_AREA_ID}, found {fat_id}"
        ))

    num_remaining_clusters = container.metadata.num_unused_clusters

    version_flag_1 = container.metadata.version_flag_1
    version_flag_2 = container.metadata.version_flag_2

    version_map = {
        FAT_VERSION_1_FLAG: 1,
        FAT_VERSION_2_FLAG: 2
    }

    version = 1

    for version_flag in (version_flag_1, version_flag_2):
        if version_flag != FAT_VERSION_1_FLAG:
            if version_flag not in version_map.keys():
                raise ConstructError((
                    f"Unknown FAT version {version_flag}."
                ))
            version = version_map[version_flag]
            break

    fat_entries = container.fat_entries

    sector_links = [SectorLink()] * FAT_NUM_ENTRIES
    dirty_flags = [False] * FAT_NUM_ENTRIES
    dirty_flags[0:2] = [True, True]
    for i in range(2, FAT_NUM_ENTRIES - 9):

        if dirty_flags[i]:
            continue

        subpath_links = []
        subpath_visited = set()
        subpath_index = i
        while True:
            if subpath_index >= FAT_NUM_ENTRIES:
                break

            if subpath_index in subpath_visited:
                raise ConstructError("Encountered a loop in FAT.")
            subpath_visited.add(subpath_index)

            value = fat_entries[subpath_index]
            dirty_flags[subpath_index] = True

            if value == FAT_ERROR_FLAG:
                raise ConstructError("Encountered ERROR_FLAG in FAT.")

            if value in (FAT_RESERVED_FLAG, FAT_FREE_FLAG):
                if len(subpath_links) > 0:
                    if value == FAT_RESERVED_FLAG:
                        err_type = "RESERVE_FLAG"
                    else:
                        err_type = "FREE_FLAG"
                    raise ConstructError(f"Unexpected {err_type} in FAT.")
                else:
                    break

            subpath_links.append(subpath_index)

            if FAT_IS_END_F(value):
                add_to_sector_links(subpath_links, sector_links)
                break

            subpath_index = value
            continue

    fat =RolandFileAllocationTable(
        container.fat_data_stream,
        FAT_NUM_ENTRIES,
        sector_links
    )

    result = FatArea(
        version,
        num_remaining_clusters,
        fat
    )
    return result


def run(fn, container):
    try:
        area = fn(container)
    except Exception as e:  # noqa: BLE001 - we compare whatever is raised
        return ("exc", type(e).__name__, str(e))
    links = tuple((l.next, l.end) for l in area.fat.sector_links)
    return ("ok", area.version, area.num_remaining_clusters, area.fat.size,
            area.fat.parent_stream, links)


def live_decode(container):
    return live.FatAreaParser._decode(container, {}, "")


def make_container(entries, fat_id=FAT_AREA_ID, unused=123,
                   v1=FAT_VERSION_1_FLAG, v2=FAT_VERSION_1_FLAG):
    entries = list(entries)
    # the real struct is a Union: metadata overlays entries 0,1 and the last 2
    meta = FatAreaMetadataContainer(fat_id, unused, v1, v2)
    return FatAreaContainer(entries, meta, 0, "STREAM-SENTINEL")


def empty_fat():
    return [FAT_FREE_FLAG] * FAT_NUM_ENTRIES


def chained_fat(rng, n_files=20, max_len=40, scatter=False):
    """A valid FAT holding n_files chains."""
    fat = empty_fat()
    if scatter:
        free = list(range(2, FAT_NUM_ENTRIES - 9))
        rng.shuffle(free)
    else:
        free = list(range(2, FAT_NUM_ENTRIES - 9))
    pos = 0
    for _ in range(n_files):
        ln = rng.randint(1, max_len)
        chain = free[pos:pos + ln]
        pos += ln
        for a, b in zip(chain, chain[1:]):
            fat[a] = b
        fat[chain[-1]] = rng.choice([0xfff8, 0xffff, 0xfffe, 0xfff9])
    return fat


def cases():
    rng = random.Random(13)
    special = [FAT_FREE_FLAG, FAT_RESERVED_FLAG, FAT_ERROR_FLAG, 0xfff8,
               0xffff, 0xfffe, 0xfff6, 2, 3, 0xfff5, 0xfff7 - 9, 0xffef,
               0xfff0, 0x8000]

    # header / version handling
    yield "empty", make_container(empty_fat())
    yield "bad-id", make_container(empty_fat(), fat_id=0x1234)
    for v1 in (FAT_VERSION_1_FLAG, FAT_VERSION_2_FLAG, 0, 7):
        for v2 in (FAT_VERSION_1_FLAG, FAT_VERSION_2_FLAG, 0x55):
            yield f"ver-{v1:x}-{v2:x}", make_container(empty_fat(), v1=v1, v2=v2)

    # all entries one value
    for v in special:
        yield f"all-{v:x}", make_container([v] * FAT_NUM_ENTRIES)

    # small hand-made shapes
    f = empty_fat(); f[2] = 2
    yield "self-loop", make_container(f)
    f = empty_fat(); f[2] = 3; f[3] = 2
    yield "two-cycle", make_container(f)
    f = empty_fat(); f[500] = 501; f[501] = 500
    yield "two-cycle-mid", make_container(f)
    f = empty_fat(); f[2] = 3; f[3] = 4; f[4] = 3
    yield "rho", make_container(f)
    f = empty_fat(); f[2] = 3; f[3] = FAT_FREE_FLAG
    yield "chain-into-free", make_container(f)
    f = empty_fat(); f[2] = 3; f[3] = FAT_RESERVED_FLAG
    yield "chain-into-reserved", make_container(f)
    f = empty_fat(); f[2] = 3; f[3] = FAT_ERROR_FLAG
    yield "chain-into-error", make_container(f)
    f = empty_fat(); f[2] = 0xfff6
    yield "link-into-tail-region", make_container(f)
    f = empty_fat(); f[2] = 0xfff6; f[0xfff6] = 0xffff
    yield "tail-region-end", make_container(f)
    f = empty_fat(); f[2] = 5; f[3] = 5; f[5] = 0xffff
    yield "two-chains-merge", make_container(f)
    f = empty_fat(); f[2] = 1; f[1] = 0xffff
    yield "link-to-1", make_container(f)
    f = empty_fat(); f[2] = 0xfff7 - 1
    yield "link-to-fff6-free", make_container(f)
    f = empty_fat(); f[10] = 9; f[9] = 8; f[8] = 0xffff
    yield "backward-chain", make_container(f)
    f = empty_fat(); f[0xfff6] = 2; f[2] = 0xffff
    yield "last-scanned-start", make_container(f)
    # largest value that is still a plain link (0xfff7 is ERROR, >= 0xfff8 is END,
    # so the `>= FAT_NUM_ENTRIES` exit is never the one taken in practice)
    f = empty_fat(); f[2] = 3; f[3] = 0xfff8 - 1
    yield "max-plain-link", make_container(f)

    # valid images
    for k in range(8):
        yield f"valid-{k}", make_container(chained_fat(rng, 30, 60, scatter=(k % 2 == 1)))

    # valid image + 1..k corruptions (random and targeted)
    for k in range(60):
        fat = chained_fat(rng, 25, 50, scatter=(k % 3 == 0))
        used = [i for i, v in enumerate(fat) if v != FAT_FREE_FLAG]
        for _ in range(rng.randint(1, 4)):
            idx = rng.choice(used) if rng.random() < 0.8 else rng.randrange(FAT_NUM_ENTRIES)
            r = rng.random()
            if r < 0.4:
                fat[idx] = rng.choice(special)
            elif r < 0.8:
                fat[idx] = rng.choice(used)      # in-range link -> cycles / merges
            else:
                fat[idx] = rng.randrange(0x10000)
        yield f"corrupt-{k}", make_container(fat)

    # pure noise
    for k in range(15):
        yield f"noise-{k}", make_container([rng.randrange(0x10000) for _ in range(FAT_NUM_ENTRIES)])
    # noise without special flags -> long walks, cycles
    for k in range(10):
        yield f"links-only-{k}", make_container(
            [rng.randrange(2, 0xfff0) for _ in range(FAT_NUM_ENTRIES)])
    # sparse noise
    for k in range(15):
        fat = empty_fat()
        for _ in range(rng.randint(1, 200)):
            fat[rng.randrange(FAT_NUM_ENTRIES)] = rng.randrange(0x10000)
        yield f"sparse-{k}", make_container(fat)


def main():
    bad = 0
    n = 0
    outcomes = {}
    for name, container in cases():
        n += 1
        a = run(original_decode, container)
        b = run(live_decode, container)
        key = a[0] if a[0] == "ok" else a[2]
        outcomes[key] = outcomes.get(key, 0) + 1
        if a != b:
            bad += 1
            print(f"MISMATCH {name}: original={a[:4]} live={b[:4]}")
    print(f"{n} cases, {bad} mismatches")
    for k, v in sorted(outcomes.items()):
        print(f"  {v:4d}  {k}")
    return 1 if bad else 0


if __name__ == "__main__":
    sys.exit(main())
