"""Equivalence demo for r14: generalized/wav.py WavSampleAdapter._encode
(destination-encoding construction and the "does this sample need a smpl
chunk" predicate moved out into the private module-level helpers
_make_dest_encoding / _requires_smpl_chunk, the predicate rewritten with
De Morgan: any(x is not None) -> not all(x is None)) versus an inline copy of
the ORIGINAL _encode.

For a few thousand generated samples (mono, L/R pairs merged by
combine_stereo with equal and unequal lengths, interleaved stereo streams,
no stream at all, wrong channel counts, every combination of None / 0 / value
for midi_note, pitch_offset_semi, pitch_offset_cents, with and without loop
regions) the demo compares
  * the Container returned by _encode (chunk ids, fmt / smpl fields, and the
    PCM blocks produced by the transcoder of the data chunk),
  * the bytes of the complete RIFF file (Adapter.build and export_wav into a
    fresh temporary directory),
  * the exact sequence of seek()/read() calls made on every source stream,
  * exception type and message where one is raised.
Exit 0 when everything agrees, 1 otherwise.
"""
import io
import itertools
import os
import random
import shutil
import sys
import tempfile

from construct import Adapter
from construct import Container

from smpl_extract.data_streams import DataStream
from smpl_extract.data_streams import Endianess
from smpl_extract.data_streams import NoDataStream
from smpl_extract.data_streams import StreamEncoding
from smpl_extract.formats.wav import RiffStruct
from smpl_extract.formats.wav import WavRiffChunkType
from smpl_extract.generalized import wav as wav_module
from smpl_extract.generalized.sample import ChannelConfig
from smpl_extract.generalized.sample import combine_stereo
from smpl_extract.generalized.sample import LoopRegion
from smpl_extract.generalized.sample import LoopType
from smpl_extract.generalized.sample import Sample
from smpl_extract.generalized.wav import get_fmt_chunk_data
from smpl_extract.generalized.wav import get_smpl_chunk_data
from smpl_extract.generalized.wav import WavSampleAdapter
from smpl_extract.midi import MidiNote
from smpl_extract.transcoder import make_transcoder


# --------------------------------------------------------------------------
# ORIGINAL implementation (verbatim body)
# --------------------------------------------------------------------------
class OriginalWavSampleAdapter(Adapter):

    def _encode(self, obj, context, path):
        del context, path  # Unused
        sample = obj

        if len(sample.data_streams) < 1:
            raise NoDataStream("Sample has no data stream")

        dest_encoding = StreamEncoding(
            endianess=Endianess.LITTLE,  # WAV Specification
            sample_width=sample.data_streams[0].encoding.sample_width,
            num_interleaved_channels=sample.num_channels
        )

        riff_chunks = []

        # fmt chunk
        riff_chunks.append(Container({
            "riff_id":  WavRiffChunkType.FMT,
            "data":     get_fmt_chunk_data(sample, dest_encoding)
        }))

        # smpl chunk
        requires_smpl_chunk = any((x is not None for x in (
                sample.midi_note,
                sample.pitch_offset_cents,
                sample.pitch_offset_semi
            ))) or len(sample.loop_regions) > 0

        if requires_smpl_chunk:
            riff_chunks.append(Container({
                "riff_id":  WavRiffChunkType.SMPL,
                "data":     get_smpl_chunk_data(sample)
            }))

        # data chunk
        data_generator = make_transcoder(sample.data_streams, dest_encoding)
        riff_chunks.append(Container({
            "riff_id":  WavRiffChunkType.DATA,
            "data":     data_generator
        }))

        result = Container({
            "data": Container({
                "chunks": riff_chunks
            })
        })
        return result

    def _decode(self, obj, context, path):
        raise NotImplementedError


CURRENT = WavSampleAdapter(RiffStruct)
ORIGINAL = OriginalWavSampleAdapter(RiffStruct)


# --------------------------------------------------------------------------
# Fixtures
# --------------------------------------------------------------------------
class LoggedStream(io.BytesIO):
    """BytesIO that records the reads / seeks performed on it."""

    def __init__(self, data, log, tag):
        super().__init__(data)
        self._log = log
        self._tag = tag

    def read(self, size=-1):
        data = super().read(size)
        self._log.append((self._tag, "read", size, len(data)))
        return data

    def seek(self, offset, whence=0):
        self._log.append((self._tag, "seek", offset, whence))
        return super().seek(offset, whence)


def make_stream(spec, log, tag):
    data, width, endianess, interleaved, signed = spec
    encoding = StreamEncoding(endianess, width, interleaved, signed)
    return DataStream(LoggedStream(data, log, tag), encoding)


def build_sample(recipe):
    """recipe -> (Sample, log); always builds brand new objects."""
    log = []
    kind = recipe["kind"]
    meta = dict(
        sample_rate=recipe["sample_rate"],
        midi_note=recipe["midi_note"],
        pitch_offset_semi=recipe["semi"],
        pitch_offset_cents=recipe["cents"],
        loop_regions=[LoopRegion(**kw) for kw in recipe["loops"]],
    )
    if kind == "none":
        sample = Sample(name="EMPTY", data_streams=[], **meta)
    elif kind == "mono":
        sample = Sample(name="MONO",
                        data_streams=[make_stream(recipe["a"], log, "a")],
                        **meta)
    elif kind == "interleaved":
        sample = Sample(name="INTER",
                        channel_config=ChannelConfig.STEREO_SINGLE_STREAM,
                        num_channels=2,
                        data_streams=[make_stream(recipe["a"], log, "a")],
                        **meta)
    elif kind == "pair":
        left = Sample(name="PAD L", _path=["V", "PAD L"],
                      data_streams=[make_stream(recipe["a"], log, "a")],
                      **meta)
        right = Sample(name="PAD R", _path=["V", "PAD R"],
                       data_streams=[make_stream(recipe["b"], log, "b")])
        sample = combine_stereo(left, right, "PAD")
    elif kind == "badcount":
        sample = Sample(name="BAD", num_channels=recipe["num_channels"],
                        data_streams=[make_stream(recipe["a"], log, "a"),
                                      make_stream(recipe["b"], log, "b")],
                        **meta)
    else:
        raise AssertionError(kind)
    return sample, log


def plain(value):
    if isinstance(value, MidiNote):
        return ("MidiNote", value.to_midi_byte())
    if isinstance(value, (list, tuple)):
        return [plain(x) for x in value]
    if isinstance(value, dict):
        return [(k, plain(v)) for k, v in value.items()]
    return value


def normalize_container(container):
    out = []
    top = list(container.keys())
    inner = list(container["data"].keys())
    for chunk in container["data"]["chunks"]:
        keys = list(chunk.keys())
        riff_id = chunk["riff_id"]
        data = chunk["data"]
        if riff_id == WavRiffChunkType.DATA:
            payload = (type(data).__name__, [bytes(x) for x in data])
        else:
            payload = (type(data).__name__, plain(dict(data)))
        out.append((keys, str(riff_id), payload))
    return (top, inner, out)


def run_encode(adapter, recipe):
    sample, log = build_sample(recipe)
    try:
        container = adapter._encode(sample, None, "(demo)")
        result = ("ok", normalize_container(container))
    except Exception as e:  # noqa
        result = ("exc", type(e).__name__, str(e))
    return result, log


def run_build(adapter, recipe):
    sample, log = build_sample(recipe)
    try:
        result = ("ok", adapter.build(sample))
    except Exception as e:  # noqa
        result = ("exc", type(e).__name__, str(e).split("\n")[0])
    return result, log


def run_export(original, recipe, directory, tag):
    sample, log = build_sample(recipe)
    target = os.path.join(directory, tag + ".wav")
    saved = wav_module.WavSampleBuilder
    if original:
        wav_module.WavSampleBuilder = ORIGINAL
    try:
        try:
            returned = wav_module.export_wav(sample, target)
            with open(target, "rb") as f:
                result = ("ok", returned, f.read())
        except Exception as e:  # noqa
            result = ("exc", type(e).__name__, str(e).split("\n")[0])
    finally:
        wav_module.WavSampleBuilder = saved
    return result, log


# --------------------------------------------------------------------------
# Recipes
# --------------------------------------------------------------------------
rng = random.Random(50514)
NOTES = [None, MidiNote.from_string("C4"), MidiNote.from_string("A#2"),
         MidiNote.from_midi_byte(0), MidiNote.from_midi_byte(100)]
OFFSETS = [None, 0, 1, -3, 49, 50, -50, 120]
LOOPS = [
    [],
    [dict(start_sample=0, end_sample=10)],
    [dict(start_sample=3, end_sample=3, repeat_forever=False, duration=1.0)],
    [dict(start_sample=2, end_sample=50, loop_type=LoopType.ALTERNATING,
          play_cnt=4),
     dict(start_sample=5, end_sample=8, loop_type=LoopType.REVERSE,
          repeat_forever=False, duration=0.01)],
]


def random_stream_spec(width=None, interleaved=1, length=None):
    width = width or rng.choice([1, 2, 2, 2, 4])
    if length is None:
        length = rng.choice([0, 1, 2, 3, 7, 64, 100, 4096, 4097, 9000])
    data = bytes(rng.getrandbits(8) for _ in range(length))
    endianess = rng.choice([Endianess.LITTLE, Endianess.BIG])
    signed = rng.choice([True, True, False])
    return (data, width, endianess, interleaved, signed)


def random_recipe(kind=None, note=None, semi=None, cents=None, loops=None,
                  explicit=False):
    kind = kind or rng.choice(["mono", "mono", "pair", "pair", "pair",
                               "interleaved", "badcount", "none"])
    recipe = dict(
        kind=kind,
        sample_rate=rng.choice([44100, 22050, 0, 48000, 1]),
        midi_note=note if explicit else rng.choice(NOTES),
        semi=semi if explicit else rng.choice(OFFSETS),
        cents=cents if explicit else rng.choice(OFFSETS),
        loops=loops if explicit else rng.choice(LOOPS),
        num_channels=rng.choice([0, 1, 3]),
    )
    width = rng.choice([1, 2, 2, 4])
    if kind == "interleaved":
        recipe["a"] = random_stream_spec(width, 2)
    else:
        recipe["a"] = random_stream_spec(width)
        same_width = width if rng.random() < 0.8 else None
        if rng.random() < 0.5:
            recipe["b"] = random_stream_spec(same_width,
                                             length=len(recipe["a"][0]))
        else:
            recipe["b"] = random_stream_spec(same_width)
    return recipe


recipes = []
# every combination of the fields that decide about the smpl chunk
for note, semi, cents, loops in itertools.product(
        [None, NOTES[1], NOTES[3]], [None, 0, 7], [None, 0, -20], LOOPS[:2]):
    for kind in ("mono", "pair"):
        recipes.append(random_recipe(kind, note, semi, cents, loops, True))
for _ in range(150):    # plain samples: no tuning info, no loops
    recipes.append(random_recipe(None, None, None, None, [], True))
for _ in range(1500):
    recipes.append(random_recipe())


# --------------------------------------------------------------------------
# Compare
# --------------------------------------------------------------------------
failures = []


def check(cond, what):
    if not cond:
        failures.append(what)
        if len(failures) <= 20:
            print("MISMATCH:", what)


def describe(recipe):
    short = dict(recipe)
    for key in ("a", "b"):
        if key in short:
            spec = short[key]
            short[key] = (len(spec[0]),) + tuple(spec[1:])
    return repr(short)


tmp_dir = tempfile.mkdtemp(prefix="r14_demo_")
stats = {"ok": 0, "exc": 0, "smpl": 0, "stereo": 0, "built": 0}
try:
    for n, recipe in enumerate(recipes):
        got, got_log = run_encode(CURRENT, recipe)
        want, want_log = run_encode(ORIGINAL, recipe)
        check(got == want, f"_encode result {describe(recipe)}\n {got!r}\n {want!r}")
        check(got_log == want_log, f"_encode stream access {describe(recipe)}")
        stats[got[0]] += 1
        if got[0] == "ok":
            ids = [c[1] for c in got[1][2]]
            stats["smpl"] += "SMPL" in ids
            stats["stereo"] += recipe["kind"] == "pair"

        got, got_log = run_build(CURRENT, recipe)
        want, want_log = run_build(ORIGINAL, recipe)
        check(got == want, f"build result {describe(recipe)}")
        stats["built"] += got[0] == "ok"
        check(got_log == want_log, f"build stream access {describe(recipe)}")

        if n % 3 == 0:
            got, got_log = run_export(False, recipe, tmp_dir, f"cur{n}")
            want, want_log = run_export(True, recipe, tmp_dir, f"org{n}")
            check(got == want, f"export_wav result {describe(recipe)}")
            check(got_log == want_log,
                  f"export_wav stream access {describe(recipe)}")
finally:
    shutil.rmtree(tmp_dir, ignore_errors=True)

print(f"recipes: {len(recipes)}, encoded ok: {stats['ok']} "
      f"(with smpl chunk: {stats['smpl']}, merged pairs: {stats['stereo']}), "
      f"raised: {stats['exc']}, RIFF files built: {stats['built']}, mismatches: {len(failures)}")
sys.exit(1 if failures else 0)
