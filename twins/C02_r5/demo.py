"""Equivalence demo for r5: SampleFile.to_generalized (loop mode dispatch table
hoisted to a module-level constant).

Compares SampleFile.to_generalized() of the working tree against
  (a) an inline copy of the ORIGINAL method body, and
  (b) an independent model (byte slicing of the source PCM).
Exit 0 when everything agrees, 1 otherwise.
"""
import io
import itertools
import random
import sys

from smpl_extract.data_streams import DataStream
from smpl_extract.data_streams import Endianess
from smpl_extract.data_streams import StreamEncoding
from smpl_extract.generalized.sample import ChannelConfig
from smpl_extract.generalized.sample import LoopRegion
from smpl_extract.generalized.sample import LoopType
from smpl_extract.generalized.sample import Sample
from smpl_extract.midi import MidiNote
from smpl_extract.roland.s7xx import sample_file as sf
from smpl_extract.roland.s7xx.data_types import RolandLoopMode
from smpl_extract.roland.s7xx.sample_entry import SampleParamLoopPoint
from smpl_extract.roland.s7xx.sample_file import RolandLoopPoints
from smpl_extract.roland.s7xx.sample_file import SampleFile


# ---------------------------------------------------------------- original --
def original_to_generalized(self) -> Sample:

    points = RolandLoopPoints(
        self.start_sample.address,
        self.sustain_loop_start.address,
        self.sustain_loop_end.address,
        self.release_loop_start.address,
        self.release_loop_end.address
    )

    get_params_map = {
        RolandLoopMode.FORWARD_END:       sf._get_forward_end_params,
        RolandLoopMode.FORWARD_RELEASE:   sf._get_forward_release_params,
        RolandLoopMode.ONESHOT:           sf._get_oneshot_params,
        RolandLoopMode.FORWARD_ONESHOT:   sf._get_forward_oneshot_params,
        RolandLoopMode.ALTERNATE:         sf._get_alternate_params,
        RolandLoopMode.REVERSE_ONESHOT:   sf._get_reverse_oneshot_params,
        RolandLoopMode.REVERSE_LOOP:      sf._get_reverse_loop_params,
    }

    f_get_params = get_params_map.get(
        self.loop_mode,
        sf._get_forward_end_params
    )

    data_stream, loop_regions = f_get_params(
        self._data_stream,
        points
    )

    stream_encoding = StreamEncoding(
        endianess=Endianess.LITTLE,
        sample_width=self.bytes_per_sample,
        num_interleaved_channels=1
    )
    data_streams = [
        DataStream(stream=data_stream, encoding=stream_encoding)
    ]
    result = Sample(
        name=self.name,
        channel_config=ChannelConfig.MONO,
        sample_rate=self.sampling_frequency,
        num_channels=1,
        midi_note=self.original_key,
        pitch_offset_semi=0,
        pitch_offset_cents=0,
        loop_regions=loop_regions,
        data_streams=data_streams,
        _parent=self.parent,
        _path=self.path,
        _safe_name=self.safe_name,
        _export_name=self.export_name
    )
    return result


# ------------------------------------------------------- independent model --
def model(pcm: bytes, mode, st, ss, se, rs, re_):
    """Expected (bytes, loops) from the property statement."""
    def rel(x):
        return max(0, x - st)
    end_by_mode = {
        RolandLoopMode.FORWARD_END: se,
        RolandLoopMode.FORWARD_RELEASE: re_,
        RolandLoopMode.ONESHOT: se,
        RolandLoopMode.FORWARD_ONESHOT: re_,
        RolandLoopMode.ALTERNATE: se,
        RolandLoopMode.REVERSE_ONESHOT: se,
        RolandLoopMode.REVERSE_LOOP: se,
    }
    end = end_by_mode.get(mode, se)
    words = [pcm[2 * i:2 * i + 2] for i in range(st, end + 1)]
    if mode in (RolandLoopMode.REVERSE_ONESHOT, RolandLoopMode.REVERSE_LOOP):
        words.reverse()
    data = b"".join(words)
    if mode == RolandLoopMode.FORWARD_RELEASE:
        loops = [
            (rel(ss), rel(se), False, LoopType.FORWARD),
            (rel(rs), rel(re_), True, LoopType.FORWARD),
        ]
    elif mode in (RolandLoopMode.ONESHOT, RolandLoopMode.REVERSE_ONESHOT):
        loops = []
    elif mode == RolandLoopMode.FORWARD_ONESHOT:
        loops = [(rel(ss), rel(se), False, LoopType.FORWARD)]
    elif mode == RolandLoopMode.ALTERNATE:
        loops = [(rel(ss), rel(se), False, LoopType.ALTERNATING)]
    elif mode == RolandLoopMode.REVERSE_LOOP:
        loops = [(max(0, se - st), max(0, se - ss), True, LoopType.FORWARD)]
    else:
        loops = [(rel(ss), rel(se), True, LoopType.FORWARD)]
    return data, loops


def read_all(stream) -> bytes:
    stream.seek(0, io.SEEK_SET)
    chunks = []
    while True:
        try:
            chunk = stream.read(4096)
        except Exception as e:  # noqa
            chunks.append(("EXC", type(e).__name__))
            break
        if not chunk:
            break
        chunks.append(chunk)
        if len(chunks) > 10000:
            break
    return chunks


def loops_key(loops):
    return [
        (lp.start_sample, lp.end_sample, lp.repeat_forever, lp.loop_type)
        for lp in loops
    ]


def describe(sample: Sample):
    ds = sample.data_streams
    return dict(
        name=sample.name,
        channel_config=sample.channel_config,
        sample_rate=sample.sample_rate,
        num_channels=sample.num_channels,
        num_audio_samples=sample.num_audio_samples,
        midi_note=sample.midi_note,
        semi=sample.pitch_offset_semi,
        cents=sample.pitch_offset_cents,
        loops=loops_key(sample.loop_regions),
        n_streams=len(ds),
        enc=[(d.encoding.endianess, d.encoding.sample_width,
              d.encoding.num_interleaved_channels, d.encoding.is_signed)
             for d in ds],
        stream_types=[type(d.stream).__name__ for d in ds],
        data=[read_all(d.stream) for d in ds],
        parent=sample._parent,
        path=sample._path,
        safe=sample._safe_name,
        export=sample._export_name,
        type=type(sample).__name__,
    )


def run(f, *a):
    try:
        return ("ok", describe(f(*a)))
    except BaseException as e:  # noqa
        return ("exc", type(e).__name__, str(e))


def make(pcm, mode, pts, rate, key, name, path):
    return SampleFile(
        loop_mode=mode,
        original_key=key,
        start_sample=SampleParamLoopPoint(0, pts[0]),
        sustain_loop_start=SampleParamLoopPoint(3, pts[1]),
        sustain_loop_end=SampleParamLoopPoint(7, pts[2]),
        release_loop_start=SampleParamLoopPoint(1, pts[3]),
        release_loop_end=SampleParamLoopPoint(2, pts[4]),
        sampling_frequency=rate,
        name=name,
        _data_stream=io.BytesIO(pcm),
        _parent=None,
        _path=path,
    )


def main() -> int:
    rnd = random.Random(20260928)
    n_words = 600
    pcm = bytes(rnd.randrange(256) for _ in range(2 * n_words))
    failures = 0
    checked = 0
    n_ok = [0]

    modes = list(RolandLoopMode) + [None, 99, "FORWARD_END", 6, 0]
    rates = [48000, 44100, 24000, 22050, 30000, 15000]
    point_sets = [
        (0, 0, 0, 0, 0),
        (0, 10, 20, 30, 40),
        (5, 10, 20, 30, 40),
        (5, 5, 5, 5, 5),
        (100, 50, 300, 20, 599),       # loop starts before start -> clamps
        (0, 0, 599, 0, 599),
        (599, 599, 599, 599, 599),
        (7, 300, 299, 400, 399),
        (17, 18, 19, 18, 19),
    ]
    for _ in range(60):
        st = rnd.randrange(0, 300)
        se = rnd.randrange(st, 600)
        re_ = rnd.randrange(st, 600)
        ss = rnd.randrange(0, 600)
        rs = rnd.randrange(0, 600)
        point_sets.append((st, ss, se, rs, re_))

    for mode, pts in itertools.product(modes, point_sets):
        rate = rnd.choice(rates)
        key = MidiNote.from_midi_byte(rnd.randrange(21, 109))
        name = "SMP%03d" % rnd.randrange(1000)
        path = ["vol", "perf", name]
        new = run(lambda: make(pcm, mode, pts, rate, key, name, path)
                  .to_generalized())
        old = run(lambda: original_to_generalized(
            make(pcm, mode, pts, rate, key, name, path)))
        checked += 1
        if new != old:
            failures += 1
            print("MISMATCH vs original", mode, pts)
            continue
        if new[0] == "ok":
            n_ok[0] += 1
            exp_data, exp_loops = model(pcm, mode, *pts)
            got = b"".join(c for c in new[1]["data"][0]
                           if isinstance(c, bytes))
            if got != exp_data or new[1]["loops"] != exp_loops:
                failures += 1
                print("MISMATCH vs model", mode, pts)
            if new[1]["sample_rate"] != rate or new[1]["midi_note"] != key:
                failures += 1
                print("MISMATCH meta", mode, pts)

    # malformed objects: same exception either way
    class Broken:
        pass
    for attr in ("start_sample", "sustain_loop_end", "release_loop_end"):
        def build():
            s = make(pcm, RolandLoopMode.ONESHOT, (0, 1, 2, 3, 4), 48000,
                     MidiNote.from_midi_byte(60), "x", ["x"])
            setattr(s, attr, Broken())
            return s
        new = run(lambda: build().to_generalized())
        old = run(lambda: original_to_generalized(build()))
        checked += 1
        if new != old or new[0] != "exc":
            failures += 1
            print("MISMATCH broken", attr, new, old)
    # unhashable loop mode
    def build_unhashable():
        return make(pcm, [1], (0, 1, 2, 3, 4), 48000,
                    MidiNote.from_midi_byte(60), "x", ["x"])
    new = run(lambda: build_unhashable().to_generalized())
    old = run(lambda: original_to_generalized(build_unhashable()))
    checked += 1
    if new != old:
        failures += 1
        print("MISMATCH unhashable", new, old)

    print("checked %d cases (%d returned a Sample), %d failures"
          % (checked, n_ok[0], failures))
    if n_ok[0] < 800:
        print("too few successful conversions - demo is not exercising code")
        return 1
    return 1 if failures else 0


if __name__ == "__main__":
    sys.exit(main())
