"""Equivalence demo for r24: smpl_extract/formats/wav.py WavSampleChunkStruct
(the `smpl` chunk body, built inside the Prefixed(Int32ul, Switch(...)) of
WavRiffChunkStruct, itself inside the length-prefixed body of RiffStruct).

The two count fields
    "sample_loop_cnt"   / Rebuild(Int32ul, len_(this.sample_loops))
    "sampler_data_size" / Rebuild(Int32ul, len_(this.sampler_data))
are now produced by a small factory `_make_count_field(counted_field_name)`
(which spells the path with item access, this[name]), and the two counted
arrays `WavLoopStruct[this.sample_loop_cnt]` / `Byte[this.sampler_data_size]`
are spelled `Array(count, subcon)`, which is what the subscript creates.

The demo re-creates the ORIGINAL struct verbatim (and, on top of it, the
original WavRiffChunkStruct / WavRiffBodyStruct / RiffStruct, using the live
other structs) and compares with the live definitions:
  * construct tree (types, names), text of the count expressions, sizeof,
  * the count callables on contexts (lists, bytes, tuples, missing fields,
    unsized values, non-mapping contexts, a context that logs its look-ups),
  * build of the smpl struct from WavSampleChunkContainer / Container / dict
    objects: 0..many loops, sampler data as bytes / bytearray / lists, wrong
    or missing fields, explicit (ignored) counts, out-of-range values - bytes
    or exception type and text; also checked against struct.pack,
  * parse of the built bytes, of every prefix of them, with inflated or
    deflated counts, and of random bytes; stream position afterwards,
  * whole RIFF files: build from chunk lists whose data comes from lists,
    generators that stop early and real transcoders over complete and
    truncated sector chains; parse back,
  * WavSampleBuilder / export_wav (generalized/wav.py) for samples with
    loops whose data streams are cut short; files written to a fresh
    temporary directory.
Exit 0 when everything agrees, 1 otherwise.
"""
from io import BytesIO
import os
import random
import shutil
import struct
import sys
import tempfile

from construct.core import Byte
from construct.core import Const
from construct.core import Enum as EnumConstruct
from construct.core import ExprAdapter
from construct.core import GreedyRange
from construct.core import Int32ul
from construct.core import Prefixed
from construct.core import Rebuild
from construct.core import Struct
from construct.core import Switch
from construct.expr import len_
from construct.expr import this
from construct.lib.containers import Container
from construct.lib.containers import ListContainer

from smpl_extract.data_streams import DataStream
from smpl_extract.data_streams import Endianess
from smpl_extract.data_streams import StreamEncoding
from smpl_extract.formats import wav as live
from smpl_extract.formats.wav import SmpteFormat
from smpl_extract.formats.wav import WavDataChunkStruct
from smpl_extract.formats.wav import WavFormatChunkContainer
from smpl_extract.formats.wav import WavFormatChunkStruct
from smpl_extract.formats.wav import WavLoopContainer
from smpl_extract.formats.wav import WavLoopStruct
from smpl_extract.formats.wav import WavLoopType
from smpl_extract.formats.wav import WavRiffChunkType
from smpl_extract.formats.wav import WavSampleChunkContainer
from smpl_extract.generalized import wav as gen_wav
from smpl_extract.generalized.sample import LoopRegion
from smpl_extract.generalized.sample import LoopType
from smpl_extract.generalized.sample import Sample
from smpl_extract.midi import MidiNote
from smpl_extract.transcoder import make_transcoder
from smpl_extract.util.fat import FileStream


# --------------------------------------------------------------------------
# ORIGINAL definitions (verbatim copies, renamed)
# --------------------------------------------------------------------------
WavSampleChunkStructOrig = Struct(
    "manufacturer"      / Int32ul,
    "product"           / Int32ul,
    "sample_period"     / Int32ul,
    "midi_note"         / ExprAdapter(
                            Int32ul,
                            lambda x,y: MidiNote.from_midi_byte(x),
                            lambda x,y: x.to_midi_byte()  # type: ignore
                        ),
    "pitch_fraction"    / Int32ul,
    "smpte_format"      / EnumConstruct(
                            Int32ul,
                            SmpteFormat
                        ),
    "smpte_offset"      / Int32ul,
    "sample_loop_cnt"   / Rebuild(
        Int32ul,
        len_(this.sample_loops)
    ),
    "sampler_data_size" / Rebuild(
        Int32ul,
        len_(this.sampler_data)
    ),
    "sample_loops"      / WavLoopStruct[this.sample_loop_cnt],
    "sampler_data"      / Byte[this.sampler_data_size],
)

WavRiffChunkStructOrig = Struct(
    "riff_id"   / WavRiffChunkType,
    "data"      / Prefixed(Int32ul,
        Switch(this.riff_id, {
            WavRiffChunkType.FMT:  WavFormatChunkStruct,
            WavRiffChunkType.SMPL: WavSampleChunkStructOrig,
            WavRiffChunkType.DATA: WavDataChunkStruct
        })
    )
)

WavRiffBodyStructOrig = Struct(
    "fourcc"    / Const(b"WAVE"),
    "chunks"    / GreedyRange(WavRiffChunkStructOrig)
)

RiffStructOrig = Struct(
    "fourcc"    / Const(b"RIFF"),
    "data"      / Prefixed(Int32ul, WavRiffBodyStructOrig),
)


# --------------------------------------------------------------------------
failures = 0
checks = 0


def check(cond, what):
    global failures, checks
    checks += 1
    if not cond:
        failures += 1
        if failures <= 20:
            print("MISMATCH:", str(what)[:600])


def outcome(f):
    try:
        return ("ok", f())
    except BaseException as e:  # noqa
        return ("exc", type(e).__name__, str(e))


def plain(x):
    """Parsed values in a form that compares by content."""
    if isinstance(x, Container):
        return ("C", [(k, plain(v)) for k, v in x.items()
                      if not str(k).startswith("_")])
    if isinstance(x, (list, ListContainer, tuple)):
        return ("L", type(x).__name__, [plain(v) for v in x])
    if isinstance(x, MidiNote):
        return ("note", x.to_midi_byte(), str(x))
    if callable(x) and not isinstance(x, type):
        # Lazy data: evaluate
        return ("lazy", plain(outcome(x)))
    return (type(x).__name__, str(x), repr(x))


# --------------------------------------------------------------------------
# 1. tree, expressions, sizeof
# --------------------------------------------------------------------------
def shape(con, depth=0, seen=None):
    out = [(depth, type(con).__name__, getattr(con, "name", None))]
    for sub in getattr(con, "subcons", []) or []:
        out += shape(sub, depth + 1)
    sub = getattr(con, "subcon", None)
    if sub is not None:
        out += shape(sub, depth + 1)
    cases = getattr(con, "cases", None)
    if isinstance(cases, dict):
        for key in sorted(cases, key=str):
            out.append((depth + 1, "case", str(key)))
            out += shape(cases[key], depth + 2)
    return out


def field(con, name):
    return [x for x in con.subcons if x.name == name][0]


def test_shape():
    a, b = WavSampleChunkStructOrig, live.WavSampleChunkStruct
    check(shape(a) == shape(b), "smpl tree shape differs")
    check(shape(RiffStructOrig) == shape(live.RiffStruct),
          "riff tree shape differs")
    for name in ("sample_loop_cnt", "sampler_data_size"):
        fa, fb = field(a, name).subcon, field(b, name).subcon
        check(type(fa) is type(fb) is Rebuild, f"{name}: not a Rebuild")
        check(fa.subcon is fb.subcon is Int32ul, f"{name}: other int type")
        check(repr(fa.func) == repr(fb.func),
              f"{name}: {fa.func!r} != {fb.func!r}")
    for name in ("sample_loops", "sampler_data"):
        fa, fb = field(a, name).subcon, field(b, name).subcon
        check(type(fa) is type(fb), f"{name}: array type differs")
        check(repr(fa.count) == repr(fb.count), f"{name}: count differs")
        check(fa.subcon is fb.subcon, f"{name}: element construct differs")
        check(fa.discard == fb.discard, f"{name}: discard differs")
    check(outcome(a.sizeof) == outcome(b.sizeof), "sizeof differs")
    for ctx in (dict(sample_loop_cnt=0, sampler_data_size=0),
                dict(sample_loop_cnt=3, sampler_data_size=5),
                dict(sample_loop_cnt=3), dict()):
        check(
            outcome(lambda: a.sizeof(**ctx)) == outcome(lambda: b.sizeof(**ctx)),
            f"sizeof {ctx} differs"
        )


# --------------------------------------------------------------------------
# 2. the count callables
# --------------------------------------------------------------------------
class LoggingContext(dict):
    def __init__(self, *a, **kw):
        super().__init__(*a, **kw)
        self.log = []

    def __getitem__(self, key):
        self.log.append(key)
        return super().__getitem__(key)


def test_count_callables():
    a, b = WavSampleChunkStructOrig, live.WavSampleChunkStruct
    values = [
        [], [1], [1, 2, 3], (), (1, 2), b"", b"abc", bytearray(b"12345"),
        "text", range(7), {1: 2}, None, 5, 2.5, object, iter([1, 2]),
        ListContainer([Container(a=1)]), Container(a=1, b=2),
    ]
    for name, counted in (("sample_loop_cnt", "sample_loops"),
                          ("sampler_data_size", "sampler_data")):
        fa = field(a, name).subcon.func
        fb = field(b, name).subcon.func
        for v in values:
            for make in (
                lambda: Container({counted: v}),
                lambda: {counted: v},
                lambda: Container({counted: v, "_": Container({counted: [9]})}),
            ):
                ra = outcome(lambda: fa(make()))
                rb = outcome(lambda: fb(make()))
                check(ra == rb, f"{name} of {v!r}: {ra} != {rb}")
        for make in (lambda: Container(), lambda: {}, lambda: None,
                     lambda: 5, lambda: [1, 2], lambda: "ctx",
                     lambda: Container(other=[1])):
            ra = outcome(lambda: fa(make()))
            rb = outcome(lambda: fb(make()))
            check(ra == rb, f"{name} odd ctx: {ra} != {rb}")
        ca = LoggingContext({counted: [1, 2], "x": 1})
        cb = LoggingContext({counted: [1, 2], "x": 1})
        check(fa(ca) == fb(cb) == 2, f"{name} logging ctx value")
        check(ca.log == cb.log == [counted], f"{name} look-ups differ")


# --------------------------------------------------------------------------
# 3. build / parse of the smpl struct
# --------------------------------------------------------------------------
def loops(rng, n):
    return [
        WavLoopContainer(
            cue_id=rng.randrange(2**32),
            loop_type=rng.choice(list(WavLoopType)),
            start_byte=rng.randrange(2**32),
            end_byte=rng.randrange(2**32),
            fraction=rng.randrange(2**32),
            play_cnt=rng.randrange(2**32),
        )
        for _ in range(n)
    ]


def expected_smpl(c):
    # (item access: the dataclass defaults shadow attribute access)
    out = struct.pack(
        "<9I", c["manufacturer"], c["product"], c["sample_period"],
        c["midi_note"].to_midi_byte(), c["pitch_fraction"],
        int(c["smpte_format"]), c["smpte_offset"], len(c["sample_loops"]),
        len(c["sampler_data"])
    )
    for lp in c["sample_loops"]:
        out += struct.pack(
            "<6I", lp["cue_id"], int(lp["loop_type"]), lp["start_byte"],
            lp["end_byte"], lp["fraction"], lp["play_cnt"]
        )
    return out + bytes(c["sampler_data"])


def smpl_objects(rng):
    objs = []
    for n in (0, 1, 2, 3, 8, 40):
        for data in (b"", b"\x00", b"abc", bytes(range(256)),
                     [1, 2, 3], bytearray(b"xyz"), (7, 8)):
            objs.append(("good", WavSampleChunkContainer(
                manufacturer=rng.randrange(2**32),
                product=rng.randrange(2**32),
                sample_period=rng.randrange(2**32),
                midi_note=MidiNote.from_midi_byte(rng.randrange(21, 120)),
                pitch_fraction=rng.randrange(2**32),
                smpte_format=rng.choice(list(SmpteFormat)),
                smpte_offset=rng.randrange(2**32),
                sample_loops=loops(rng, n),
                sampler_data=data,
            )))
    objs.append(("good", WavSampleChunkContainer()))
    base = dict(
        manufacturer=1, product=2, sample_period=3,
        midi_note=MidiNote.from_string("C4"), pitch_fraction=4,
        smpte_format=SmpteFormat.FPS25, smpte_offset=5,
        sample_loops=loops(rng, 2), sampler_data=b"hi",
    )
    objs.append(("dict", dict(base)))
    objs.append(("container", Container(base)))
    # explicit counts are ignored by Rebuild
    objs.append(("counts given", dict(base, sample_loop_cnt=77,
                                      sampler_data_size=0)))
    for key in list(base):
        broken = dict(base)
        del broken[key]
        objs.append((f"missing {key}", broken))
    objs += [
        ("loops None", dict(base, sample_loops=None)),
        ("loops int", dict(base, sample_loops=3)),
        ("loops tuple", dict(base, sample_loops=tuple(base["sample_loops"]))),
        ("loops of dicts", dict(base, sample_loops=[
            dict(cue_id=1, loop_type=0, start_byte=2, end_byte=3,
                 fraction=4, play_cnt=5),
            dict(cue_id=1, loop_type="REVERSE", start_byte=2, end_byte=3,
                 fraction=4, play_cnt=5),
        ])),
        ("loop incomplete", dict(base, sample_loops=[dict(cue_id=1)])),
        ("loop out of range", dict(base, sample_loops=[
            dict(cue_id=2**32, loop_type=0, start_byte=2, end_byte=3,
                 fraction=4, play_cnt=5),
        ])),
        ("loops generator", dict(base, sample_loops=(
            x for x in base["sample_loops"]
        ))),
        ("data None", dict(base, sampler_data=None)),
        ("data str", dict(base, sampler_data="abc")),
        ("data big ints", dict(base, sampler_data=[1, 256])),
        ("data negative", dict(base, sampler_data=[-1])),
        ("data floats", dict(base, sampler_data=[1.0])),
        ("data int", dict(base, sampler_data=9)),
        ("note int", dict(base, midi_note=60)),
        ("note None", dict(base, midi_note=None)),
        ("smpte int", dict(base, smpte_format=30)),
        ("smpte str", dict(base, smpte_format="FPS24")),
        ("smpte bad", dict(base, smpte_format="nope")),
        ("period big", dict(base, sample_period=2**32)),
        ("period negative", dict(base, sample_period=-1)),
        ("None", None),
        ("list", [1, 2]),
    ]
    return objs


def test_build_parse(rng):
    a, b = WavSampleChunkStructOrig, live.WavSampleChunkStruct
    built = []
    for label, obj in smpl_objects(rng):
        if label == "loops generator":
            # a generator can be consumed once - make one per side
            src = list(obj["sample_loops"])
            oa = dict(obj, sample_loops=(x for x in src))
            ob = dict(obj, sample_loops=(x for x in src))
        else:
            oa = ob = obj
        ra = outcome(lambda: a.build(oa))
        rb = outcome(lambda: b.build(ob))
        check(ra == rb, f"build {label}: {ra} != {rb}")
        if label == "good":
            check(rb[0] == "ok" and rb[1] == expected_smpl(obj),
                  f"build good: not the expected bytes")
            built.append(rb[1])

    def parse_both(data, label):
        sa, sb = BytesIO(data), BytesIO(data)
        ra = outcome(lambda: plain(a.parse_stream(sa)))
        rb = outcome(lambda: plain(b.parse_stream(sb)))
        check(ra == rb, f"parse {label}: {ra} != {rb}")
        check(sa.tell() == sb.tell(), f"parse {label}: position differs")
        return rb

    for i, data in enumerate(built):
        r = parse_both(data, f"built {i}")
        check(r[0] == "ok", f"parse built {i} failed: {r}")
        parse_both(data + b"trailing", f"built {i} + tail")
    # every prefix of some
    for i in (0, 9, 17, 23):
        data = built[i % len(built)]
        for cut in range(len(data) + 1):
            parse_both(data[:cut], f"built {i} cut {cut}")
    # counts that do not match what follows
    sample = built[16]
    for cnt in (0, 1, 2, 3, 4, 100, 2**31, 2**32 - 1):
        for size in (0, 1, 3, 4, 1000, 2**32 - 1):
            data = sample[:28] + struct.pack("<2I", cnt, size) + sample[36:]
            parse_both(data, f"counts {cnt} {size}")
    for n in range(400):
        data = bytes(rng.getrandbits(8) for _ in range(
            rng.choice([0, 1, 35, 36, 37, 60, 61, 120, 400])
        ))
        if rng.random() < 0.5 and len(data) >= 36:
            # keep the counts small so that the arrays are really parsed
            data = data[:28] + struct.pack(
                "<2I", rng.randrange(4), rng.randrange(30)
            ) + data[36:]
            # a valid loop type / smpte format now and then
            data = data[:20] + struct.pack("<I", rng.choice([0, 24, 7])) \
                + data[24:]
        parse_both(data, f"random {n}")


# --------------------------------------------------------------------------
# 4. whole RIFF files
# --------------------------------------------------------------------------
def pattern_bytes(n, seed):
    r = random.Random(seed)
    return bytes(r.randrange(256) for _ in range(n))


IMAGE = pattern_bytes(0x2400, 24)
LE = StreamEncoding(Endianess.LITTLE, 2, 1)
BE = StreamEncoding(Endianess.BIG, 2, 1)
STEREO = StreamEncoding(Endianess.LITTLE, 2, 2)


def stopping_generator(blocks, fail_after):
    for i, block in enumerate(blocks):
        if i == fail_after:
            return
        yield block


def riff_object(rng, data_kind, image, smpl):
    chunks = [Container(
        riff_id=WavRiffChunkType.FMT,
        data=WavFormatChunkContainer(
            audio_format=1, channel_cnt=1, sample_rate=44100,
            bits_per_sample=16
        )
    )]
    if smpl is not None:
        chunks.append(Container(riff_id=WavRiffChunkType.SMPL, data=smpl))
    if data_kind == "list":
        data = [b"abcd", b"", b"efgh" * 100]
    elif data_kind == "generator":
        data = stopping_generator([b"12" * 50] * 10, 4)
    elif data_kind == "mono":
        s = FileStream(BytesIO(image), 0x100, [1, 2, 3, 9, 10, 30, 31])
        data = make_transcoder([DataStream(s, LE)], LE)
    elif data_kind == "swap":
        s = FileStream(BytesIO(image), 0x100, [1, 2, 3, 9, 10, 30, 31])
        data = make_transcoder([DataStream(s, BE)], LE)
    else:
        left = FileStream(BytesIO(image), 0x80, list(range(2, 20)))
        right = FileStream(BytesIO(image), 0x80, list(range(40, 52)))
        data = make_transcoder(
            [DataStream(left, BE), DataStream(right, LE)], STEREO
        )
    chunks.append(Container(riff_id=WavRiffChunkType.DATA, data=data))
    return Container(data=Container(chunks=chunks))


def check_riff_lengths(blob, label):
    """independent walk over the file: every length prefix is consistent"""
    ok = blob[:4] == b"RIFF" and blob[8:12] == b"WAVE"
    ok = ok and struct.unpack("<I", blob[4:8])[0] == len(blob) - 8
    pos = 12
    ids = []
    while ok and pos < len(blob):
        ids.append(blob[pos:pos + 4])
        n = struct.unpack("<I", blob[pos + 4:pos + 8])[0]
        pos += 8 + n
    ok = ok and pos == len(blob)
    check(ok, f"{label}: inconsistent length prefixes")
    return ids


def test_riff(rng):
    smpls = [
        None,
        WavSampleChunkContainer(),
        WavSampleChunkContainer(
            sample_period=22675, midi_note=MidiNote.from_string("A3"),
            sample_loops=loops(rng, 3), sampler_data=b"\x01\x02\x03"
        ),
        WavSampleChunkContainer(sample_loops=loops(rng, 1)),
    ]
    cuts = [0x2400, 0x2000, 0x1f00, 0x1e01, 0xb00, 0xa80, 0x400, 0x3ff,
            0x101, 0x100, 0]
    for si, smpl in enumerate(smpls):
        for kind in ("list", "generator", "mono", "swap", "stereo"):
            for cut in (cuts if kind in ("mono", "swap", "stereo")
                        else cuts[:1]):
                image = IMAGE[:cut]
                label = f"riff smpl#{si} {kind} cut {cut:#x}"
                ra = outcome(lambda: RiffStructOrig.build(
                    riff_object(rng, kind, image, smpl)))
                rb = outcome(lambda: live.RiffStruct.build(
                    riff_object(rng, kind, image, smpl)))
                check(ra == rb, f"{label}: build differs")
                if rb[0] != "ok":
                    continue
                ids = check_riff_lengths(rb[1], label)
                check(
                    ids == ([b"fmt "] + ([b"smpl"] if smpl is not None
                                         else []) + [b"data"]),
                    f"{label}: chunk ids {ids}"
                )
                pa = outcome(lambda: plain(RiffStructOrig.parse(rb[1])))
                pb = outcome(lambda: plain(live.RiffStruct.parse(rb[1])))
                check(pa == pb and pb[0] == "ok", f"{label}: parse differs")
                # a file cut short / with a smpl chunk claiming more loops
                for end in (len(rb[1]) - 1, 60, 45, 21, 12, 3):
                    pa = outcome(
                        lambda: plain(RiffStructOrig.parse(rb[1][:end])))
                    pb = outcome(
                        lambda: plain(live.RiffStruct.parse(rb[1][:end])))
                    check(pa == pb, f"{label}: parse of {end} bytes differs")
                if smpl is not None:
                    # smpl chunk body starts at 12 + 24 + 8 = 44; loop
                    # count at +28
                    damaged = rb[1][:72] + struct.pack("<I", 9) + rb[1][76:]
                    pa = outcome(lambda: plain(RiffStructOrig.parse(damaged)))
                    pb = outcome(lambda: plain(live.RiffStruct.parse(damaged)))
                    check(pa == pb, f"{label}: parse of damaged differs")


# --------------------------------------------------------------------------
# 5. generalized/wav.py on top
# --------------------------------------------------------------------------
def test_export(rng, tmpdir):
    orig_builder = gen_wav.WavSampleAdapter(RiffStructOrig)
    regions = [
        [],
        [LoopRegion(10, 200)],
        [LoopRegion(10, 200, LoopType.ALTERNATING, play_cnt=3),
         LoopRegion(0, 0, LoopType.REVERSE, repeat_forever=False,
                    duration=1.5),
         LoopRegion(5, 4415, LoopType.FORWARD, repeat_forever=False,
                    duration=0.35)],
    ]
    case = 0
    for cut in (0x2400, 0x1e01, 0xa80, 0x3ff, 0x100, 0):
        image = IMAGE[:cut]
        for ri, region in enumerate(regions):
            for kind in ("mono", "swap", "stereo"):
                for note in (None, MidiNote.from_string("F#2")):
                    case += 1

                    def sample():
                        if kind == "stereo":
                            streams = [
                                DataStream(FileStream(
                                    BytesIO(image), 0x80, list(range(2, 20))
                                ), BE),
                                DataStream(FileStream(
                                    BytesIO(image), 0x80, list(range(40, 52))
                                ), BE),
                            ]
                        else:
                            streams = [DataStream(FileStream(
                                BytesIO(image), 0x100,
                                [1, 2, 3, 9, 10, 30, 31]
                            ), LE if kind == "mono" else BE)]
                        return Sample(
                            name="s", data_streams=streams,
                            num_channels=len(streams),
                            sample_rate=rng_rate, loop_regions=list(region),
                            midi_note=note,
                            pitch_offset_cents=None if note is None else -30,
                        )

                    rng_rate = rng.choice([44100, 22050, 0, 48000])
                    label = f"export {case} cut {cut:#x} {kind} r{ri}"
                    ra = outcome(lambda: orig_builder.build(sample()))
                    rb = outcome(
                        lambda: gen_wav.WavSampleBuilder.build(sample()))
                    check(ra == rb, f"{label}: builder output differs")
                    path = os.path.join(tmpdir, f"case{case}.wav")
                    rc = outcome(lambda: gen_wav.export_wav(sample(), path))
                    if ra[0] == "ok":
                        with open(path, "rb") as f:
                            blob = f.read()
                        check(rc == ("ok", None) and blob == ra[1],
                              f"{label}: exported file differs")
                        ids = check_riff_lengths(blob, label)
                        want_smpl = note is not None or len(region) > 0
                        check((b"smpl" in ids) == want_smpl,
                              f"{label}: smpl chunk presence")
                    else:
                        check(rc[:2] == ra[:2], f"{label}: export outcome")


def main():
    rng = random.Random(0xC15D24)
    test_shape()
    test_count_callables()
    test_build_parse(rng)
    test_riff(rng)
    tmpdir = tempfile.mkdtemp(prefix="r24_demo_")
    try:
        test_export(rng, tmpdir)
    finally:
        shutil.rmtree(tmpdir, ignore_errors=True)
    print(f"{checks} checks, {failures} mismatches")
    return 0 if failures == 0 else 1


if __name__ == "__main__":
    sys.exit(main())
