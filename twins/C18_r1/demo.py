"""Equivalence demo for r1: _fast_akai_to_ascii_byte with hoisted look-ups.

Compares the live smpl_extract.akai.akai_string functions against an inline
copy of the ORIGINAL implementation over every byte value, out-of-range
integers, odd argument types, and many byte strings.
Exit 0 = everything agrees, 1 = a difference was found.
"""
import itertools
import random
import sys

from smpl_extract.akai import akai_string as live
from smpl_extract.akai.data_types import CHAR_MAP_A
from smpl_extract.akai.data_types import CHAR_MAP_MINUS
from smpl_extract.akai.data_types import CHAR_MAP_NINE
from smpl_extract.akai.data_types import CHAR_MAP_PERIOD
from smpl_extract.akai.data_types import CHAR_MAP_PLUS
from smpl_extract.akai.data_types import CHAR_MAP_POUND
from smpl_extract.akai.data_types import CHAR_MAP_SPACE
from smpl_extract.akai.data_types import CHAR_MAP_Z
from smpl_extract.akai.data_types import CHAR_MAP_ZERO
from smpl_extract.akai.data_types import CharFormat
from smpl_extract.akai.data_types import InvalidCharacter


# ---------------------------------------------------------------- original
def orig_fast_akai_to_ascii_byte(byte_in: int):
    if CHAR_MAP_ZERO[CharFormat.AKAI] <= byte_in <= CHAR_MAP_NINE[CharFormat.AKAI]:
        return byte_in + CHAR_MAP_ZERO[CharFormat.ASCII] - CHAR_MAP_ZERO[CharFormat.AKAI]

    if CHAR_MAP_A[CharFormat.AKAI] <= byte_in <= CHAR_MAP_Z[CharFormat.AKAI]:
        return byte_in + CHAR_MAP_A[CharFormat.ASCII] - CHAR_MAP_A[CharFormat.AKAI]

    symbol_map = {
        CHAR_MAP_SPACE[CharFormat.AKAI]:   CHAR_MAP_SPACE[CharFormat.ASCII],
        CHAR_MAP_POUND[CharFormat.AKAI]:   CHAR_MAP_POUND[CharFormat.ASCII],
        CHAR_MAP_PLUS[CharFormat.AKAI]:    CHAR_MAP_PLUS[CharFormat.ASCII],
        CHAR_MAP_MINUS[CharFormat.AKAI]:   CHAR_MAP_MINUS[CharFormat.ASCII],
        CHAR_MAP_PERIOD[CharFormat.AKAI]:  CHAR_MAP_PERIOD[CharFormat.ASCII],
    }
    resulting_symbol = symbol_map.get(byte_in)

    if resulting_symbol is None:
        raise InvalidCharacter

    return resulting_symbol


def orig_fast_akai_to_ascii(bytes_in):
    out_str = list()
    for byte in bytes_in:
        out_str.append(chr(orig_fast_akai_to_ascii_byte(byte)))
    return "".join(out_str)


# ----------------------------------------------------------------- harness
def outcome(fn, *args):
    try:
        value = fn(*args)
    except BaseException as exc:  # noqa: BLE001 - we compare the failure too
        return ("raise", type(exc), exc.args)
    return ("return", type(value), value)


failures = 0
checked = 0


def compare(label, new_fn, old_fn, *args):
    global failures, checked
    checked += 1
    got = outcome(new_fn, *args)
    want = outcome(old_fn, *args)
    if got != want:
        failures += 1
        if failures <= 20:
            print(f"MISMATCH {label}{args!r}: live={got!r} original={want!r}")


# single bytes: whole byte domain, beyond it, and unusual argument types
scalars = list(range(-300, 600))
scalars += [True, False, 0.0, 9.0, 9.5, 10.0, 36.0, 40.0, 40.5, 1e9,
            float("inf"), float("-inf"), float("nan"), 2 ** 70, -2 ** 70]
for value in scalars:
    compare("_fast_akai_to_ascii_byte", live._fast_akai_to_ascii_byte,
            orig_fast_akai_to_ascii_byte, value)
for value in [None, "A", b"A", "", (1,), [1], {}, 1j, object]:
    compare("_fast_akai_to_ascii_byte", live._fast_akai_to_ascii_byte,
            orig_fast_akai_to_ascii_byte, value)

# strings: all 41 valid characters, in both container types
valid = bytes(range(0x29))
compare("char_akai_to_ascii", live.char_akai_to_ascii,
        orig_fast_akai_to_ascii, valid)
compare("char_akai_to_ascii", live.char_akai_to_ascii,
        orig_fast_akai_to_ascii, list(valid))
compare("char_akai_to_ascii", live.char_akai_to_ascii,
        orig_fast_akai_to_ascii, b"")
compare("char_akai_to_ascii", live.char_akai_to_ascii,
        orig_fast_akai_to_ascii, None)

# every string of length <= 2 over the full byte range 0..0x30
for length in (1, 2):
    for combo in itertools.product(range(0x31), repeat=length):
        compare("_fast_akai_to_ascii", live._fast_akai_to_ascii,
                orig_fast_akai_to_ascii, bytes(combo))

# sampled strings up to length 12, valid alphabet and with invalid bytes mixed
rng = random.Random(18)
for _ in range(20000):
    length = rng.randint(0, 12)
    if rng.random() < 0.7:
        data = bytes(rng.randrange(0x29) for _ in range(length))
    else:
        data = bytes(rng.randrange(256) for _ in range(length))
    compare("char_akai_to_ascii", live.char_akai_to_ascii,
            orig_fast_akai_to_ascii, data)

# round trip through the (untouched) encoder stays the identity
for _ in range(5000):
    data = bytes(rng.randrange(0x29) for _ in range(rng.randint(0, 12)))
    checked += 1
    if live.char_ascii_to_akai(live.char_akai_to_ascii(data)) != data:
        failures += 1
        print("ROUND TRIP MISMATCH", data)

print(f"{checked} comparisons, {failures} mismatches")
sys.exit(1 if failures else 0)
