"""Equivalence demo for r17: WavRiffBodyStruct / RiffStruct
(smpl_extract/formats/wav.py) - the two outer layers of the nested
length-prefixed RIFF layout.

An inline copy of the ORIGINAL declarations (the `"name" / subcon` spelling)
is built on top of the tree's unchanged WavRiffChunkStruct and compared with
the structs exported by the tree:
 1. declaration shape: subcon names, wrapper/inner classes, docs, parsed
    hooks, flagbuildnone, sizeof behaviour;
 2. build: many chunk lists (fmt only, fmt+data, fmt+smpl+data with 0..5
    loops, data from bytes lists and from generators, empty data, odd sizes,
    mono/stereo, many rates) -> identical bytes or identical exception
    (type and text), also for malformed objects (missing keys, wrong types);
 3. parse: every built image plus truncated / corrupted variants -> same
    parsed tree (Lazy data chunks forced) or same exception;
 4. whole files: export_wav on generalized Samples compared with an adapter
    wrapped around the original RiffStruct; every file is walked with an
    independent RIFF walker and opened with the stdlib wave module.
Exit 0 when everything agrees, 1 otherwise.
"""
import io
import itertools
import os
import shutil
import struct
import sys
import tempfile
import wave

from construct.core import Const
from construct.core import GreedyRange
from construct.core import Int32ul
from construct.core import Prefixed
from construct.core import Struct
from construct.lib.containers import Container
from construct.lib.containers import ListContainer

from smpl_extract.data_streams import DataStream
from smpl_extract.data_streams import Endianess
from smpl_extract.data_streams import StreamEncoding
from smpl_extract.formats import wav as fw
from smpl_extract.formats.wav import WavFormatChunkContainer
from smpl_extract.formats.wav import WavLoopContainer
from smpl_extract.formats.wav import WavLoopType
from smpl_extract.formats.wav import WavRiffChunkStruct
from smpl_extract.formats.wav import WavRiffChunkType
from smpl_extract.formats.wav import WavSampleChunkContainer
from smpl_extract.generalized import wav as gw
from smpl_extract.generalized.sample import LoopRegion
from smpl_extract.generalized.sample import LoopType
from smpl_extract.generalized.sample import Sample
from smpl_extract.midi import MidiNote


# ---- verbatim copy of the original declarations -------------------------
OrigWavRiffBodyStruct = Struct(
    "fourcc"    / Const(b"WAVE"),
    "chunks"    / GreedyRange(WavRiffChunkStruct)
)


OrigRiffStruct = Struct(
    "fourcc"    / Const(b"RIFF"),
    "data"      / Prefixed(Int32ul, OrigWavRiffBodyStruct),
)
# -------------------------------------------------------------------------

failures = []
checks = 0


def check(cond, msg):
    global checks
    checks += 1
    if not cond:
        failures.append(msg)
        if len(failures) <= 20:
            print("MISMATCH:", msg)


def outcome(f):
    try:
        return ("ok", f())
    except Exception as e:  # noqa: BLE001 - comparing arbitrary failures
        return ("exc", type(e).__name__, str(e))


def plain(obj):
    """Parsed tree -> plain python data (forces Lazy data chunks)."""
    if callable(obj) and not isinstance(obj, (dict, list)):
        return ("lazy", plain(obj()))
    if isinstance(obj, dict):
        return {k: plain(v) for k, v in obj.items() if k != "_io"}
    if isinstance(obj, (list, tuple)):
        return [plain(x) for x in obj]
    if isinstance(obj, MidiNote):
        return ("note", obj.to_midi_byte())
    if isinstance(obj, (bytes, int, str, float)) or obj is None:
        return (type(obj).__name__, str(obj), obj if isinstance(obj, bytes) else int(obj) if isinstance(obj, int) else None)
    return repr(obj)


# ---- 1. declaration shape ------------------------------------------------
def shape(st):
    out = [type(st).__name__, st.name, st.flagbuildnone, st.docs, st.parsed]
    for sc in st.subcons:
        out.append((
            type(sc).__name__, sc.name, sc.docs, sc.parsed, sc.flagbuildnone,
            type(sc.subcon).__name__, sc.subcon.name,
        ))
    out.append(sorted(st._subcons.keys()))
    return out


check(shape(fw.WavRiffBodyStruct) == shape(OrigWavRiffBodyStruct),
      "shape of WavRiffBodyStruct differs")
check(shape(fw.RiffStruct)[:4] == shape(OrigRiffStruct)[:4]
      and shape(fw.RiffStruct)[5:] == shape(OrigRiffStruct)[5:],
      "shape of RiffStruct differs")
check([sc.name for sc in fw.RiffStruct.subcons] == ["fourcc", "data"],
      "RiffStruct field names")
check([sc.name for sc in fw.WavRiffBodyStruct.subcons] == ["fourcc", "chunks"],
      "WavRiffBodyStruct field names")
check(fw.RiffStruct.subcons[0].subcon.value == b"RIFF", "RIFF const")
check(fw.WavRiffBodyStruct.subcons[0].subcon.value == b"WAVE", "WAVE const")
check(fw.RiffStruct.subcons[1].subcon.lengthfield is Int32ul, "length field")
check(fw.RiffStruct.subcons[1].subcon.subcon is fw.WavRiffBodyStruct,
      "RiffStruct wraps the tree's WavRiffBodyStruct")
check(fw.WavRiffBodyStruct.subcons[1].subcon.subcon is WavRiffChunkStruct,
      "body repeats WavRiffChunkStruct")
for a, b in ((fw.RiffStruct, OrigRiffStruct),
             (fw.WavRiffBodyStruct, OrigWavRiffBodyStruct)):
    check(outcome(a.sizeof) == outcome(b.sizeof), "sizeof differs")


# ---- 2. build ------------------------------------------------------------
def fmt_chunk(channels, rate, bits=16):
    return Container({
        "riff_id": WavRiffChunkType.FMT,
        "data": WavFormatChunkContainer(
            audio_format=1, channel_cnt=channels, sample_rate=rate,
            bits_per_sample=bits),
    })


def smpl_chunk(num_loops, rate, note, fraction):
    loops = [
        WavLoopContainer(
            cue_id=i, loop_type=list(WavLoopType)[i % 4], start_byte=7 * i,
            end_byte=1000 * i + 3, fraction=0, play_cnt=(i * 37) % 5)
        for i in range(num_loops)
    ]
    return Container({
        "riff_id": WavRiffChunkType.SMPL,
        "data": WavSampleChunkContainer(
            sample_period=round(10**9 / rate),
            midi_note=MidiNote.from_midi_byte(note),
            pitch_fraction=fraction, sample_loops=loops),
    })


def data_chunk(blocks, as_generator):
    data = (b for b in list(blocks)) if as_generator else list(blocks)
    return Container({"riff_id": WavRiffChunkType.DATA, "data": data})


def pcm(n, seed):
    return bytes((seed * 31 + i * 7) % 256 for i in range(n))


BLOCK_SETS = [
    [],
    [b""],
    [pcm(2, 1)],
    [pcm(4, 2), pcm(4, 3)],
    [pcm(4096, 4), pcm(4096, 5), pcm(20, 6)],
    [pcm(3, 7)],                     # odd sized, the struct does not care
    [pcm(1, 8), b"", pcm(5, 9)],
]
RATES = [1, 8000, 22050, 44100, 48000, 96000, 0xFFFFFFFF]
built_images = []


def make_obj(chunks):
    return Container({"data": Container({"chunks": chunks})})


def compare_build(label, factory):
    a = outcome(lambda: fw.RiffStruct.build(factory()))
    b = outcome(lambda: OrigRiffStruct.build(factory()))
    check(a == b, "build differs for %s: %r vs %r" % (label, a[:2], b[:2]))
    if a[0] == "ok" and a == b:
        built_images.append(a[1])
        raw = a[1]
        check(raw[:4] == b"RIFF" and raw[8:12] == b"WAVE", label + ": magic")
        check(struct.unpack("<I", raw[4:8])[0] == len(raw) - 8,
              label + ": RIFF size")
    # build_stream as used by export_wav
    sa, sb = io.BytesIO(), io.BytesIO()
    a2 = outcome(lambda: fw.RiffStruct.build_stream(factory(), sa))
    b2 = outcome(lambda: OrigRiffStruct.build_stream(factory(), sb))
    check(a2[0] == b2[0] and (a2[0] == "ok" or a2 == b2),
          "build_stream outcome differs for " + label)
    check(sa.getvalue() == sb.getvalue(),
          "build_stream bytes differ for " + label)


for (channels, rate, blocks, gen) in itertools.product(
        (1, 2), RATES, BLOCK_SETS, (False, True)):
    compare_build(
        "fmt+data c=%d r=%d" % (channels, rate),
        lambda: make_obj([fmt_chunk(channels, rate),
                          data_chunk(blocks, gen)]))

for (num_loops, rate, note, fraction, blocks) in itertools.product(
        range(6), (8000, 44100), (0, 60, 127), (0, 0x7FFFFFFF, 0xFFFFFFFF),
        BLOCK_SETS[:5]):
    compare_build(
        "fmt+smpl+data loops=%d" % num_loops,
        lambda: make_obj([fmt_chunk(2, rate),
                          smpl_chunk(num_loops, rate, note, fraction),
                          data_chunk(blocks, True)]))

compare_build("no chunks", lambda: make_obj([]))
compare_build("fmt only", lambda: make_obj([fmt_chunk(1, 44100)]))
compare_build("explicit fourcc values", lambda: Container({
    "fourcc": b"RIFF",
    "data": Container({"fourcc": b"WAVE", "chunks": [fmt_chunk(1, 44100)]}),
}))
compare_build("wrong outer fourcc", lambda: Container({
    "fourcc": b"RIFX", "data": Container({"chunks": []})}))
compare_build("wrong inner fourcc", lambda: Container({
    "data": Container({"fourcc": b"AVI ", "chunks": []})}))
compare_build("missing data", lambda: Container({}))
compare_build("missing chunks", lambda: Container({"data": Container({})}))
compare_build("data is None", lambda: Container({"data": None}))
compare_build("chunks is None",
              lambda: Container({"data": Container({"chunks": None})}))
compare_build("chunks is int",
              lambda: Container({"data": Container({"chunks": 5})}))
compare_build("obj is None", lambda: None)
compare_build("obj is list", lambda: [1, 2])
compare_build("chunk without riff_id", lambda: make_obj(
    [Container({"data": WavFormatChunkContainer()})]))
compare_build("chunk with unknown riff_id", lambda: make_obj(
    [Container({"riff_id": 1234, "data": b"xx"})]))
compare_build("fmt with too large rate", lambda: make_obj(
    [fmt_chunk(2, 2**32)]))
compare_build("plain dicts", lambda: {
    "data": {"chunks": [
        {"riff_id": "FMT", "data": dict(
            audio_format=1, channel_cnt=1, sample_rate=5, bits_per_sample=16)},
        {"riff_id": "DATA", "data": [b"ab", b"cd"]},
    ]}})


# ---- 3. parse ------------------------------------------------------------
def compare_parse(label, raw):
    a = outcome(lambda: plain(fw.RiffStruct.parse(raw)))
    b = outcome(lambda: plain(OrigRiffStruct.parse(raw)))
    check(a == b, "parse differs for %s" % label)
    a = outcome(lambda: plain(fw.WavRiffBodyStruct.parse(raw[8:])))
    b = outcome(lambda: plain(OrigWavRiffBodyStruct.parse(raw[8:])))
    check(a == b, "body parse differs for %s" % label)


seen = set()
for raw in built_images:
    if raw in seen:
        continue
    seen.add(raw)
    compare_parse("built image", raw)
    parsed = fw.RiffStruct.parse(raw)
    check(list(parsed.keys()) == list(OrigRiffStruct.parse(raw).keys()),
          "parsed key order")
    if len(seen) % 9 == 0:
        for cut in (0, 3, 4, 7, 8, 11, 12, 19, len(raw) - 1, len(raw) // 2):
            compare_parse("truncated", raw[:max(0, cut)])
        compare_parse("bad magic", b"RIFX" + raw[4:])
        compare_parse("bad wave", raw[:8] + b"WAVX" + raw[12:])
        compare_parse("short size", raw[:4] + struct.pack("<I", 5) + raw[8:])
        compare_parse("big size",
                      raw[:4] + struct.pack("<I", len(raw) + 9) + raw[8:])
        compare_parse("trailing", raw + b"junkjunk")
        compare_parse("unknown chunk", raw + b"LIST\x04\x00\x00\x00abcd")
compare_parse("empty", b"")


# ---- 4. whole files through export_wav ----------------------------------
def walk_riff(raw):
    assert raw[:4] == b"RIFF" and raw[8:12] == b"WAVE"
    assert struct.unpack("<I", raw[4:8])[0] == len(raw) - 8
    pos, chunks = 12, []
    while pos < len(raw):
        cid, size = struct.unpack("<4sI", raw[pos:pos + 8])
        chunks.append((cid, size, raw[pos + 8:pos + 8 + size]))
        pos += 8 + size
    assert pos == len(raw)
    return chunks


def make_sample(channels, rate, num_frames, num_loops, note, streams):
    data_streams = []
    if streams == 1:
        enc = StreamEncoding(Endianess.LITTLE, 2, channels, True)
        data_streams.append(DataStream(
            io.BytesIO(pcm(2 * channels * num_frames + (num_frames % 2), 3)),
            enc))
    else:
        for k in range(channels):
            enc = StreamEncoding(
                Endianess.BIG if k else Endianess.LITTLE, 2, 1, True)
            data_streams.append(DataStream(
                io.BytesIO(pcm(2 * (num_frames + k), 5 + k)), enc))
    loops = [
        LoopRegion(start_sample=i, end_sample=i + 10 * (i + 1),
                   loop_type=list(LoopType)[i % 3],
                   repeat_forever=(i % 2 == 0), duration=0.5 * i)
        for i in range(num_loops)
    ]
    return Sample(
        name="s", sample_rate=rate, num_channels=channels,
        data_streams=data_streams, loop_regions=loops,
        midi_note=None if note is None else MidiNote.from_midi_byte(note),
        pitch_offset_semi=None if note is None else 3,
        pitch_offset_cents=None if note is None else -20)


OrigBuilder = gw.WavSampleAdapter(OrigRiffStruct)
tmp_dir = tempfile.mkdtemp(prefix="r17_demo_")
try:
    n = 0
    for (channels, rate, num_frames, num_loops, note, streams) in \
            itertools.product((1, 2), (8000, 44100, 48000),
                              (0, 1, 5, 2048, 2049, 5000), (0, 1, 3),
                              (None, 60), (1, 2)):
        if streams == 2 and channels == 1:
            continue
        n += 1
        path = os.path.join(tmp_dir, "f%d.wav" % n)
        a = outcome(lambda: gw.export_wav(
            make_sample(channels, rate, num_frames, num_loops, note, streams),
            path))
        raw = open(path, "rb").read() if os.path.exists(path) else None
        sink = io.BytesIO()
        b = outcome(lambda: OrigBuilder.build_stream(
            make_sample(channels, rate, num_frames, num_loops, note, streams),
            sink))
        check(a[0] == b[0] and (a[0] == "ok" or a == b),
              "export outcome differs for file %d" % n)
        check(raw == sink.getvalue(), "file bytes differ for file %d" % n)
        if a[0] != "ok":
            continue
        try:
            chunks = walk_riff(raw)
            ids = [c[0] for c in chunks]
            want = [b"fmt "] + ([b"smpl"] if (num_loops or note is not None)
                                else []) + [b"data"]
            check(ids == want, "chunk order in file %d: %r" % (n, ids))
            fmt = struct.unpack("<HHIIHH", chunks[0][2])
            check(chunks[0][1] == 16 and fmt[0] == 1 and fmt[1] == channels
                  and fmt[2] == rate and fmt[4] == channels * 2
                  and fmt[3] == rate * fmt[4] and fmt[5] == 16,
                  "fmt fields in file %d" % n)
            check(chunks[-1][1] % (2 * channels) == 0,
                  "data not frame aligned in file %d" % n)
            if len(chunks) == 3:
                cnt = struct.unpack("<I", chunks[1][2][28:32])[0]
                check(chunks[1][1] == 36 + 24 * cnt,
                      "smpl size in file %d" % n)
            with wave.open(path, "rb") as w:
                check(w.getnchannels() == channels and w.getsampwidth() == 2
                      and w.getframerate() == rate
                      and w.getnframes() == chunks[-1][1] // (2 * channels),
                      "wave module disagrees for file %d" % n)
        except Exception as e:  # noqa: BLE001
            check(False, "file %d not walkable: %r" % (n, e))
finally:
    shutil.rmtree(tmp_dir, ignore_errors=True)

print("%d checks, %d failures" % (checks, len(failures)))
sys.exit(1 if failures else 0)
