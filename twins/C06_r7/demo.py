"""Equivalence demo for Element.safe_name / Element.export_name (C06, r7).

The live properties are compared against inline copies of the ORIGINAL
property bodies on many kinds of elements: initialised and uninitialised ones,
class-level and instance-level name attributes, ``name`` properties that raise,
falsy-but-not-None assigned names, generalized ``Sample`` dataclasses, elements
whose names were assigned by the real naming routines, and export_path().
"""
import itertools
import sys

from smpl_extract.base import Element
from smpl_extract.generalized.sample import Sample
from smpl_extract.structural import Image
from smpl_extract.structural import Traversable


def original_safe_name(self):
    result = self.name
    if hasattr(self, "_safe_name"):
        if self._safe_name is not None:
            result = self._safe_name
    return result


def original_export_name(self):
    result = self.name
    if hasattr(self, "_export_name"):
        if self._export_name is not None:
            result = self._export_name
    return result


def outcome(fn, element):
    try:
        value = fn()
        # which stored object (if any) was handed back, by identity
        same_as = tuple(
            key for key in ("_safe_name", "_export_name", "name")
            if key in vars(element) and vars(element)[key] is value
        )
        return ("ok", type(value).__name__, repr(value), same_as)
    except BaseException as exc:  # noqa: BLE001
        return ("exc", type(exc).__name__, str(exc))


class Plain(Element):
    """Regular element: __init__ runs, name is an instance attribute."""
    type_name = "plain"

    def __init__(self, name, **kwargs):
        super().__init__(**kwargs)
        self.name = name

    def get_info(self):
        raise NotImplementedError


class NoInit(Element):
    """Element.__init__ never runs: the _safe_name attributes do not exist."""
    name = "class-level-name"

    def __init__(self):
        pass

    def get_info(self):
        raise NotImplementedError


class ClassLevel(NoInit):
    """Assigned names live on the class (as in structural.Image for _path)."""
    _safe_name = "class safe"
    _export_name = None


class PropertyName(Element):
    def __init__(self, value):
        super().__init__()
        self._value = value

    @property
    def name(self):
        return self._value.strip()

    def get_info(self):
        raise NotImplementedError


class RaisingName(Element):
    def __init__(self, exc):
        super().__init__()
        self._exc = exc

    @property
    def name(self):
        raise self._exc

    def get_info(self):
        raise NotImplementedError


class NoName(Element):
    """No ``name`` at all -> AttributeError from the first statement."""

    def get_info(self):
        raise NotImplementedError


class Weird(str):
    def __eq__(self, other):
        return True

    __hash__ = str.__hash__


def build_elements():
    elements = []
    assigned_values = [None, "", "0", "safe", " spaced ", "a/b", "..", 0, False,
                       (), [], 7, 2.5, b"bytes", Weird("w"), object()]
    for name in ("", "RAW", "raw name L", None, 5):
        for safe, export in itertools.product(assigned_values, repeat=2):
            element = Plain(name)
            element._safe_name = safe
            element._export_name = export
            elements.append(element)
        elements.append(Plain(name))
        lacking = Plain(name)
        del lacking._safe_name
        elements.append(lacking)
        lacking = Plain(name)
        del lacking._export_name
        elements.append(lacking)

    elements.append(NoInit())
    half = NoInit()
    half._safe_name = "only safe"
    elements.append(half)
    half = NoInit()
    half._export_name = "only export"
    elements.append(half)
    half = NoInit()
    half._export_name = None
    elements.append(half)
    elements.append(ClassLevel())
    shadow = ClassLevel()
    shadow._safe_name = None
    shadow._export_name = "instance export"
    elements.append(shadow)

    for value in ("  padded  ", "", "x"):
        element = PropertyName(value)
        elements.append(element)
        element = PropertyName(value)
        element._safe_name = "S"
        element._export_name = "E"
        elements.append(element)
    for exc in (AttributeError("name gone"), KeyError("k"), ValueError("v"),
                RuntimeError("r")):
        element = RaisingName(exc)
        element._safe_name = "S"
        elements.append(element)
    elements.append(NoName())
    named = NoName()
    named._safe_name = "S"
    named._export_name = "E"
    elements.append(named)

    for safe, export in itertools.product((None, "", "s p"), (None, "", "e_p")):
        elements.append(Sample(name="SMP L", _safe_name=safe, _export_name=export))
    elements.append(Sample())

    # names assigned by the real routines of an Image
    image = Image(lambda ctx: [])
    raw_names = ["A/B", "A:B", "A B", "..", "", "'", "dup", "dup", "dup (2)",
                 "PIANO L", "PIANO R", "PIANO -L", "x.", "x. ", "-lead", "\\\\"]
    routed = [Plain(n, path=["vol", n]) for n in raw_names]
    for element in routed:
        element.type_id = 2
    routed = image.make_safe_names_routine(routed)
    routed = image.make_export_names_routine(routed)
    elements.extend(routed)
    directory = Traversable(lambda ctx: [], path=["vol"], type_name="dir")
    directory.name = "VOL: 1"
    elements.append(directory)
    elements = image.make_export_names_routine(elements[-1:]) and elements
    return elements


def main():
    elements = build_elements()
    failures = 0
    checked = 0
    for element in elements:
        pairs = (
            (lambda: element.safe_name, lambda: original_safe_name(element)),
            (lambda: element.export_name, lambda: original_export_name(element)),
            (lambda: type(element).safe_name.fget(element),
             lambda: original_safe_name(element)),
            (lambda: type(element).export_name.fget(element),
             lambda: original_export_name(element)),
        )
        for live, orig in pairs:
            before = dict(vars(element))
            got = outcome(live, element)
            after = dict(vars(element))
            want = outcome(orig, element)
            checked += 1
            if got != want or before != after:
                failures += 1
                if failures <= 10:
                    print("MISMATCH", type(element).__name__, before, got, want)

    # export_path() is assembled from export_name: check a small tree
    root = Plain("root")
    level1 = Plain("lvl/1", path=["lvl/1"], parent=root)
    level1._export_name = "lvl 1"
    level2 = Plain("leaf", path=["lvl/1", "leaf"], parent=level1)
    level3 = Sample(name="smp", _path=["lvl/1", "leaf", "smp"], _parent=level2,
                    _export_name="")
    for node, want in ((root, []), (level1, ["lvl 1"]),
                       (level2, ["lvl 1", "leaf"]),
                       (level3, ["lvl 1", "leaf", ""])):
        checked += 1
        if node.export_path() != want:
            failures += 1
            print("MISMATCH export_path", node.export_path(), want)

    print(f"checked {checked} cases, {failures} mismatches")
    return 1 if failures else 0


if __name__ == "__main__":
    sys.exit(main())
