"""Equivalence demo for r11: smpl_extract.akai.image.AkaiImageParser
(__init__, the lazy `partitions` property, _sanitize_string).

The demo carries a verbatim copy of the ORIGINAL class (`AkaiImageParserOrig`)
and drives it and the live class over synthetic AKAI images with 0..4
partitions that are complete, cut at many byte positions (inside the
partition header, the volume table, the allocation table, the data area and
on sector boundaries), followed by garbage, or not seekable at all.
Compared: constructor outcome (file_size, stream position, attribute state or
the exception), the partitions / children lists (names, paths, list identity
on repeated access, effect of routines), parse_path results and error
messages (which go through _sanitize_string), _sanitize_string on a table of
strings, and the exact sequence of seek/tell/read calls on the image stream.
Exit 0 when everything agrees, 1 otherwise.
"""
from construct.core import ConstructError
from io import BytesIO
from io import IOBase
from io import SEEK_END
from io import SEEK_SET
from io import UnsupportedOperation
import random
import struct
import sys
from typing import List, cast

from smpl_extract.akai.data_types import AKAI_PARTITION_MAGIC
from smpl_extract.akai.data_types import AKAI_SAT_ENTRY_CNT
from smpl_extract.akai.data_types import AKAI_SECTOR_SIZE
from smpl_extract.akai.data_types import AKAI_VOLUME_ENTRY_CNT
from smpl_extract.akai.image import AkaiImageParser
from smpl_extract.akai.partition import InvalidPartition
from smpl_extract.akai.partition import Partition
from smpl_extract.akai.partition import PartitionParser
from smpl_extract.base import ElementTypes
from smpl_extract.structural import Image


# --------------------------------------------------------------------------
# ORIGINAL implementation (verbatim copy of the class)
# --------------------------------------------------------------------------
class AkaiImageParserOrig(Image):


    name = "AKAI Image"
    type_name = "AKAI Image"
    type_id = ElementTypes.DirectoryEntry


    def __init__(
            self,
            file: IOBase
    ) -> None:
        self.file = file
        # get files size
        self.file_size = self.file.seek(0, SEEK_END)
        self.file.seek(0, SEEK_SET)

        self._partitions = []
        self._partitions_loaded_flag = False


    def _load_partitions(self):
        partition_cnt = 0
        partitions = []
        while self.file.tell() < self.file_size:
            name = chr(ord("A") + partition_cnt)
            try:
                partition = PartitionParser.parse_stream(
                    self.file,  # type: ignore
                    _elem_name=name,
                    _elem_parent=self,
                    _elem_routines=self._routines
                )  
            except (InvalidPartition, ConstructError, struct.error) as e:  # as in the tree after the struct.error fix
                break
            partitions.append(partition)
            partition_cnt += 1

        for routine in self._routines.values():
            partitions = routine(partitions)
        self._partitions = cast(List[Partition], partitions)
        self._partitions_loaded_flag = True

    
    @property
    def partitions(self)->List[Partition]:
        if not self._partitions_loaded_flag:
            self._load_partitions()
        return self._partitions

    
    @property
    def children(self):
        return self.partitions


    def _sanitize_string(
            self, 
            input_str: str
    ):
        result = input_str.upper().strip()
        if len(result) > 0 and result[-1] == ":":
            result = result[:-1]
        return result


# --------------------------------------------------------------------------
# Instrumented image stream
# --------------------------------------------------------------------------
class LoggedFile:
    def __init__(self, data, log, seekable=True):
        self.inner = BytesIO(data)
        self.log = log
        self.seekable = seekable

    def seek(self, offset, whence=SEEK_SET):
        if not self.seekable:
            self.log.append(("seek-refused", offset, whence))
            raise UnsupportedOperation("not seekable")
        res = self.inner.seek(offset, whence)
        self.log.append(("seek", offset, whence, res))
        return res

    def tell(self):
        res = self.inner.tell()
        self.log.append(("tell", res))
        return res

    def read(self, size=-1):
        pos = self.inner.tell()
        res = self.inner.read(size)
        self.log.append(("read", size, pos, len(res)))
        return res


def header(size):
    x = size // 128 - 1
    return (
        size.to_bytes(2, "little") + b"\0\0" + AKAI_PARTITION_MAGIC
        + bytes([0x55 if x % 2 == 0 else 0xD5, (x // 2 + 0xBA) & 0xFF])
        + b"\x2f\x00"
    )


def partition(size, bad=None):
    body = header(size)
    if bad == "magic":
        body = body[:50] + b"\xEE" + body[51:]
    elif bad == "zero":
        body = b"\0\0" + body[2:]
    elif bad == "name":
        pass
    body += (b"\xFF" * 12 + b"\0" * 4 if bad == "name" else b"\0" * 16)
    body += b"\0" * (16 * (AKAI_VOLUME_ENTRY_CNT - 1))
    body += b"\0" * (2 * AKAI_SAT_ENTRY_CNT)
    return body + b"\0" * (size * AKAI_SECTOR_SIZE - len(body))


SANITIZE_INPUTS = [
    "", ":", "::", " : ", "a", "a:", "A:", " a: ", "a: ", ":a", "a::", "a :",
    "b:\n", "\t c:\t", "volume 1", "Volume 1:", "straße:", "ǆ:", "ı:", "a:b",
    ":::", " ", "\n", "sample-L", "é:", "x" * 50 + ":", "a:\x00",
]
PATHS = [
    "", "A", "a", "A:", "a:", " a: ", "B", "b:/", "C:", "D", "E:", "A:/x",
    "A::", ":", "/", "A/", "B:\\", "z:", "A:/", "c",
]


def observe(cls, data, seekable, routines, order):
    log = []
    file = LoggedFile(data, log, seekable)
    out = []
    try:
        image = cls(file)
    except BaseException as e:  # noqa
        return [("ctor-exc", type(e), str(e))], log
    out.append(("ctor", image.file is file, image.file_size,
                file.inner.tell(), image._partitions,
                image._partitions_loaded_flag, sorted(vars(image))))
    image.set_routines(routines(out))

    def describe(parts):
        return [(type(p).__name__, p.name, p.path, p.parent is image)
                for p in parts]

    for step in order:
        try:
            if step == "partitions":
                first = image.partitions
                second = image.partitions
                res = (describe(first), first is second,
                       first is image._partitions)
            elif step == "children":
                first = image.children
                res = (describe(first), first is image.partitions)
            elif step == "sanitize":
                res = [image._sanitize_string(x) for x in SANITIZE_INPUTS]
            elif step == "volumes":
                res = [[v.name for v in p.volumes] for p in image.partitions]
            else:
                kind, path = step
                node = image.parse_path(path)
                res = (type(node).__name__.replace("Orig", ""), node.name,
                       node is image)
            out.append((step, "ok", res, image._partitions_loaded_flag,
                        file.inner.tell()))
        except BaseException as e:  # noqa
            out.append((step, "exc", type(e), str(e),
                        image._partitions_loaded_flag, file.inner.tell()))
    return out, log


def routines_none(out):
    return {}


def routines_reverse_and_log(out):
    def reverse(elements):
        out.append(("routine-reverse", [e.name for e in elements]))
        return list(reversed(elements))

    def drop_first(elements):
        out.append(("routine-drop", [e.name for e in elements]))
        return elements[1:]

    return {"reverse": reverse, "drop": drop_first}


def main():
    rnd = random.Random(1111)
    failures = 0
    checked = 0

    images = {
        "empty": b"",
        "one": partition(3),
        "two": partition(3) + partition(4),
        "four": partition(3) + partition(4) + partition(3) + partition(3),
        "two+garbage": partition(3) + partition(3) + bytes(
            rnd.randrange(256) for _ in range(5000)),
        "bad-magic-second": partition(3) + partition(3, "magic")
        + partition(3),
        "zero-size-second": partition(4) + partition(3, "zero"),
        "bad-name-first": partition(3, "name") + partition(3),
        "garbage": bytes(rnd.randrange(256) for _ in range(30000)),
        "zeros": b"\0" * 30000,
    }

    part_len = 3 * AKAI_SECTOR_SIZE
    interesting = [
        0, 1, 2, 3, 4, 100, 197, 198, 201, 202, 203, 218, 1000, 1801, 1802,
        1803, 10000, 24573, 24574, 24575, part_len - 1, part_len,
        part_len + 1, part_len + 2, part_len + 150, part_len + 202,
        part_len + 1802, part_len + 24574, AKAI_SECTOR_SIZE,
        2 * AKAI_SECTOR_SIZE, part_len + AKAI_SECTOR_SIZE,
        part_len + 4 * AKAI_SECTOR_SIZE - 1, part_len + 4 * AKAI_SECTOR_SIZE,
    ]

    scenarios = []
    for label, data in images.items():
        scenarios.append((label, data))
    for label in ("two", "four"):
        data = images[label]
        cuts = set(c for c in interesting if c < len(data))
        cuts.update(rnd.randrange(len(data)) for _ in range(12))
        for cut in sorted(cuts):
            scenarios.append((f"{label} cut at {cut}", data[:cut]))

    base_steps = ["partitions", "children", "sanitize", "volumes"] + [
        ("path", p) for p in PATHS]
    for label, data in scenarios:
        for routines in (routines_none, routines_reverse_and_log):
            order = list(base_steps)
            rnd.shuffle(order)
            order = order[:10]
            new = observe(AkaiImageParser, data, True, routines, order)
            old = observe(AkaiImageParserOrig, data, True, routines, order)
            checked += 1
            if new != old:
                failures += 1
                if failures <= 10:
                    print("MISMATCH", label, routines.__name__)
                    for a, b in zip(new[0], old[0]):
                        if a != b:
                            print("  new:", str(a)[:300])
                            print("  old:", str(b)[:300])
                            break
                    else:
                        print("  stream logs / lengths differ")

    # every path and every sanitize input on one complete image
    new = observe(AkaiImageParser, images["four"], True, routines_none,
                  base_steps)
    old = observe(AkaiImageParserOrig, images["four"], True, routines_none,
                  base_steps)
    checked += 1
    if new != old:
        failures += 1
        print("MISMATCH full step list")

    # an image stream that cannot seek: the constructor must fail the same way
    new = observe(AkaiImageParser, images["one"], False, routines_none, [])
    old = observe(AkaiImageParserOrig, images["one"], False, routines_none,
                  [])
    checked += 1
    if new != old or new[0][0][0] != "ctor-exc":
        failures += 1
        print("MISMATCH non-seekable stream", new, old)

    # _sanitize_string on random strings over a small alphabet
    new_img = AkaiImageParser(BytesIO(b""))
    old_img = AkaiImageParserOrig(BytesIO(b""))
    alphabet = [":", " ", "a", "B", "\t", "\n", "ß", "1", "-", "\x1c"]
    for _ in range(20000):
        s = "".join(rnd.choice(alphabet) for _ in range(rnd.randrange(0, 7)))
        checked += 1
        if new_img._sanitize_string(s) != old_img._sanitize_string(s):
            failures += 1
            if failures <= 10:
                print("MISMATCH _sanitize_string", repr(s))
    for bad in (None, 5, b"a:"):
        res = []
        for img in (new_img, old_img):
            try:
                res.append(("ok", img._sanitize_string(bad)))
            except BaseException as e:  # noqa
                res.append(("exc", type(e)))
        checked += 1
        if res[0] != res[1]:
            failures += 1
            print("MISMATCH _sanitize_string", repr(bad), res)

    print(f"{checked} cases compared, {failures} mismatches")
    return 1 if failures else 0


if __name__ == "__main__":
    sys.exit(main())
