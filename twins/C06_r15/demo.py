"""Equivalence demo for actions.ls_action / actions.export_samples_to_wav
(C06, r15): the wiring that installs the sibling de-duplication routines.

The live actions are compared against inline copies of the ORIGINAL bodies
(wrapped with the unchanged actions._wrap_filestream decorator) on
 * recording fake images: every attribute read, set_routines / parse_path /
   export_samples call is logged together with the exact routines dict
   (key order, value identity) and the ExportManager handed over; fakes that
   miss one of the attributes, or whose methods raise, check that failures
   happen at the same point with the same exception;
 * real CDDA images built from generated bin/cue pairs with colliding and
   hostile titles, given both as Image objects and as cue file names:
   stdout of `ls` for several paths, stdout of `export` and the produced
   directory tree (fresh temporary directories) are compared byte for byte;
 * in-memory Image trees with nested directories.
Exit status 0 when everything agrees, 1 otherwise.
"""
import contextlib
import io
import os
import random
import shutil
import sys
import tempfile
from typing import Dict

from smpl_extract import actions
from smpl_extract.base import Element
from smpl_extract.cdda.image import BYTES_PER_FRAME
from smpl_extract.cdda.image import CompactDiskAudioImageAdapter
from smpl_extract.cuesheet import parse_cue_sheet
from smpl_extract.generalized.sample import Sample
import smpl_extract.structural as structural
from smpl_extract.structural import ErrorInvalidPath
from smpl_extract.structural import ExportManager
from smpl_extract.structural import Image
from smpl_extract.structural import SampleElement
from smpl_extract.structural import T_ROUTINE
from smpl_extract.structural import T_SAMPLE_ROUTINE
from smpl_extract.structural import Traversable


# --------------------------------------------------------------------------
# ORIGINAL implementations (verbatim bodies, same decorator)
# --------------------------------------------------------------------------
@actions._wrap_filestream
def original_ls_action(image: Image, path: str):

    routines: Dict[str, T_ROUTINE] = {
        "make_safe_names": image.make_safe_names_routine,
        "make_export_names": image.make_export_names_routine
    }

    image.set_routines(routines)

    try:
        item = image.parse_path(path)
    except ErrorInvalidPath as e:
        print(e)
        return

    info = item.get_info()
    result_str = info.to_string()
    print(result_str)


@actions._wrap_filestream
def original_export_samples_to_wav(image: Image, base_dir: str):

    routines: Dict[str, T_ROUTINE] = {
        "make_safe_names": image.make_safe_names_routine,
        "make_export_names": image.make_export_names_routine
    }
    sample_routines: Dict[str, T_SAMPLE_ROUTINE] = {
        "combine_stereo": image.combine_stereo_routine
    }

    image.set_routines(routines)
    export_manager = ExportManager(base_dir, sample_routines)
    image.export_samples(export_manager)
    return


FAILURES = []


def check(label, left, right):
    if left != right:
        FAILURES.append(label)
        print("MISMATCH", label)
        print("   original:", repr(left)[:500])
        print("   live    :", repr(right)[:500])


def outcome(func, *args, **kwargs):
    captured = io.StringIO()
    try:
        with contextlib.redirect_stdout(captured):
            value = func(*args, **kwargs)
        return ("ok", value, captured.getvalue())
    except BaseException as error:  # noqa: BLE001 - compared, not hidden
        # the inline copies carry an "original_" prefix in their __name__
        message = str(error).replace("original_", "")
        return ("raised", type(error).__name__, message, captured.getvalue())


# --------------------------------------------------------------------------
# part 1: recording fake images
# --------------------------------------------------------------------------
ALL_ATTRIBUTES = (
    "make_safe_names_routine", "make_export_names_routine",
    "combine_stereo_routine", "set_routines", "parse_path", "export_samples",
)


class FakeInfo:
    def __init__(self, log):
        self.log = log

    def to_string(self):
        self.log.append("to_string")
        return "INFO TEXT"


class FakeItem:
    def __init__(self, log, fail):
        self.log = log
        self.fail = fail

    def get_info(self):
        self.log.append("get_info")
        if self.fail == "get_info":
            raise ValueError("get_info failed")
        return FakeInfo(self.log)


class FakeImage:
    """Not a str, so _wrap_filestream hands it through untouched."""

    def __init__(self, missing=(), fail=None):
        self.__dict__["log"] = []
        self.__dict__["missing"] = missing
        self.__dict__["fail"] = fail
        self.__dict__["markers"] = {}

    def __getattr__(self, name):
        log = self.__dict__["log"]
        log.append("read " + name)
        if name in self.__dict__["missing"] or name not in ALL_ATTRIBUTES:
            raise AttributeError(name)
        if self.__dict__["fail"] == "read " + name:
            raise OSError("cannot read " + name)
        if name.endswith("_routine"):
            marker = self.__dict__["markers"].setdefault(name, lambda items: items)
            return marker
        return getattr(self, "_do_" + name)

    def describe(self, mapping):
        markers = self.__dict__["markers"]
        reverse = {id(v): k for k, v in markers.items()}
        return [(key, reverse.get(id(value), "?")) for key, value in mapping.items()]

    def _do_set_routines(self, *args, **kwargs):
        self.log.append(("set_routines", len(args), sorted(kwargs),
                         type(args[0]).__name__, self.describe(args[0])))
        if self.fail == "set_routines":
            raise RuntimeError("set_routines failed")

    def _do_parse_path(self, *args, **kwargs):
        self.log.append(("parse_path", args, kwargs))
        if self.fail == "parse_path":
            raise ErrorInvalidPath("The entity was not found.")
        if self.fail == "parse_path other":
            raise KeyError("other")
        return FakeItem(self.log, self.fail)

    def _do_export_samples(self, *args, **kwargs):
        manager = args[0]
        self.log.append(("export_samples", len(args), sorted(kwargs),
                         type(manager).__name__, manager.output_directory,
                         type(manager.routines).__name__,
                         self.describe(manager.routines),
                         list(manager.samples), manager.level))
        if self.fail == "export_samples":
            raise RuntimeError("export failed")


def part_fakes():
    failure_points = [None, "set_routines", "parse_path", "parse_path other",
                      "get_info", "export_samples"]
    failure_points += ["read " + name for name in ALL_ATTRIBUTES]
    missing_sets = [()] + [(name,) for name in ALL_ATTRIBUTES]
    missing_sets += [("make_safe_names_routine", "set_routines"),
                     ("make_export_names_routine", "combine_stereo_routine"),
                     ALL_ATTRIBUTES]
    arguments = ["", "/", "A/VOL 1", "dest", "x" * 50]
    pairs = [
        ("ls", original_ls_action, actions.ls_action),
        ("export", original_export_samples_to_wav, actions.export_samples_to_wav),
    ]
    for label, original, live in pairs:
        for fail in failure_points:
            for missing in missing_sets:
                for argument in arguments:
                    results = []
                    for func in (original, live):
                        image = FakeImage(missing, fail)
                        result = outcome(func, image, argument)
                        results.append((result, image.log))
                    check(f"fake {label} fail={fail} missing={missing} arg={argument!r}",
                          results[0], results[1])
        # wrong arity / keyword use goes through the unchanged wrapper
        for args, kwargs in (((), {}), (("a", "b"), {}), ((), {"path": "p"}),
                             ((), {"base_dir": "d"}), ((), {"bogus": 1})):
            results = []
            for func in (original, live):
                image = FakeImage()
                results.append((outcome(func, image, *args, **kwargs), image.log))
            check(f"fake {label} call shape {args} {kwargs}", results[0], results[1])
    for original, live in ((original_ls_action, actions.ls_action),
                           (original_export_samples_to_wav, actions.export_samples_to_wav)):
        check("wrapper metadata",
              (original.__wrapped__.__code__.co_varnames[:2], original.__wrapped__.__defaults__),
              (live.__wrapped__.__code__.co_varnames[:2], live.__wrapped__.__defaults__))
        check("name", live.__name__, original.__name__.replace("original_", ""))


# --------------------------------------------------------------------------
# part 2: real CDDA images
# --------------------------------------------------------------------------
TITLES = [
    "Kick", "Kick", "kick", "Kick!", "Kick?", "Snare -L", "Snare -R", "Snare",
    "a/b", "a\\\\b", "..", ".", "...", "", " ", "'quoted'", "`tick`", "x:y", ":x",
    "Kick (2)", "Kick (2)", "Pad L", "Pad R", "Pad", "\t tab", "CON", "name.",
    "name .", "-lead", "#1", "@home", "a=b", "a&b", "a+b", "x" * 70, "Bass-L",
    "Bass-R", "Bass", "Bass (2)", "0",
]


def make_cue(root, titles, name="disc", frames_each=2, final_frames=3):
    bin_path = os.path.join(root, name + ".bin")
    cue_path = os.path.join(root, name + ".cue")
    total_frames = frames_each * (len(titles) - 1) + final_frames
    rng = random.Random(len(titles))
    with open(bin_path, "wb") as handle:
        handle.write(bytes(rng.randrange(256) for _ in range(total_frames * BYTES_PER_FRAME)))
    lines = [f'FILE "{name}.bin" BINARY']
    for index, title in enumerate(titles):
        frame = index * frames_each
        lines.append(f"  TRACK {index + 1:02d} AUDIO")
        if title is not None:
            lines.append(f'    TITLE "{title}"')
        lines.append("    INDEX 01 %02d:%02d:%02d" % (frame // 4500, (frame // 75) % 60, frame % 75))
    with open(cue_path, "w", encoding="ascii") as handle:
        handle.write("\n".join(lines) + "\n")
    return cue_path, bin_path, lines


def title_sets():
    rng = random.Random(1506)
    sets = [TITLES, ["only"], [None, None, None], ["same"] * 6]
    for _ in range(20):
        sets.append([rng.choice(TITLES) for _ in range(rng.randint(2, 12))])
    return sets


def tree(root):
    found = {}
    for directory, _, files in os.walk(root):
        for file_name in files:
            full = os.path.join(directory, file_name)
            with open(full, "rb") as handle:
                found[os.path.relpath(full, root)] = handle.read()
    return found


def part_cdda(root):
    exported = 0
    for number, titles in enumerate(title_sets()):
        source = os.path.join(root, f"src{number}")
        os.makedirs(source)
        cue_path, bin_path, lines = make_cue(source, titles)
        ls_paths = ["", "/", "Kick", "kick", "Kick (2)", "nothing here", "a b", "0.", "Snare -L/"]
        for by_name in (True, False):
            results = []
            for ls, export in ((original_ls_action, original_export_samples_to_wav),
                               (actions.ls_action, actions.export_samples_to_wav)):
                which = len(results)
                destination = os.path.join(root, f"out{number}_{int(by_name)}_{which}", "a", "b", "c")
                os.makedirs(destination)
                with open(bin_path, "rb") as stream:
                    def source_object():
                        if by_name:
                            return cue_path
                        return CompactDiskAudioImageAdapter.from_bin_cue(
                            stream, parse_cue_sheet(list(lines)))
                    listing = [outcome(ls, source_object(), path) for path in ls_paths]
                    shared = source_object()
                    twice = [outcome(ls, shared, ""), outcome(export, shared, destination),
                             outcome(ls, shared, "Kick")]
                    if not by_name:
                        twice.append(list(shared._routines))
                        twice.append([(t.title, t.safe_name, t.export_name) for t in shared.children])
                results.append((listing, twice, tree(destination)))
            exported += len(results[1][2])
            check(f"cdda {number} by_name={by_name}", results[0], results[1])
    if exported < 200:
        FAILURES.append("cdda part exported too little to be meaningful")
        print("only", exported, "files exported")


# --------------------------------------------------------------------------
# part 3: in-memory image trees
# --------------------------------------------------------------------------
class MemSample(SampleElement):
    type_name = "Mem Sample"

    def __init__(self, name, path, parent):
        Element.__init__(self, path, parent)
        self.name = name

    def to_generalized(self):
        return Sample(name=self.name, _parent=self.parent, _path=self.path,
                      _safe_name=self.safe_name, _export_name=self.export_name)


class MemDirectory(Traversable):
    def __init__(self, name, path, parent, spec, routines):
        super().__init__(self._realize, routines=routines, path=path, parent=parent)
        self.name = name
        self.spec = spec

    def _realize(self, additions):
        return build_children(self.spec, self.path, self, additions["_elem_routines"])


class MemImage(Image):
    name = "Mem Image"
    type_name = "Mem Image"

    def __init__(self, spec):
        super().__init__(self._realize)
        self.spec = spec

    def _realize(self, additions):
        return build_children(self.spec, self.path, self, additions["_elem_routines"])


def build_children(spec, path, parent, routines):
    children = []
    for entry in spec:
        if isinstance(entry, tuple):
            name, inner = entry
            children.append(MemDirectory(name, path + [name], parent, inner, routines))
        else:
            children.append(MemSample(entry, path + [entry], parent))
    return children


def random_spec(rng, depth):
    names = ["Kick", "Kick", "kick!", "Kick?", "Snare -L", "Snare -R", "Snare",
             "a/b", "a\\b", "..", ".", "", "'q'", "x:y", "Kick (2)", "Pad L",
             "Pad R", "name.", "-lead", "#1", "Bass-L", "Bass-R"]
    spec = []
    for _ in range(rng.randint(1, 7)):
        name = rng.choice(names)
        if depth < 3 and rng.random() < 0.35:
            spec.append((name, random_spec(rng, depth + 1)))
        else:
            spec.append(name)
    return spec


def part_memory(root):
    def fake_export_wav(sample, total_path):
        with open(total_path, "ab") as handle:
            handle.write(sample.name.encode("utf-8") + b"\n")

    saved = structural.export_wav
    structural.export_wav = fake_export_wav
    try:
        rng = random.Random(1515)
        for number in range(50):
            spec = random_spec(rng, 0)
            first_directory = next((e[0] for e in spec if isinstance(e, tuple)), "Kick")
            results = []
            for ls, export in ((original_ls_action, original_export_samples_to_wav),
                               (actions.ls_action, actions.export_samples_to_wav)):
                destination = os.path.join(root, f"mem{number}_{len(results)}", "a", "b", "c", "d")
                os.makedirs(destination)
                image = MemImage(spec)
                run = [outcome(ls, image, ""), outcome(ls, image, first_directory),
                       outcome(export, image, destination),
                       outcome(ls, MemImage(spec), "Kick (2)"),
                       outcome(export, MemImage(spec), destination)]
                results.append((run, tree(destination)))
            check(f"memory image {number}", results[0], results[1])
    finally:
        structural.export_wav = saved


def main():
    root = tempfile.mkdtemp(prefix="r15demo_")
    try:
        part_fakes()
        part_cdda(root)
        part_memory(root)
    finally:
        shutil.rmtree(root, ignore_errors=True)
    if FAILURES:
        print(f"{len(FAILURES)} mismatches")
        return 1
    print("all scenarios agree")
    return 0


if __name__ == "__main__":
    sys.exit(main())
