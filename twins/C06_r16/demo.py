"""Equivalence demo for Image.make_export_name (C06, r16).

The live method is compared against an inline copy of the ORIGINAL body on
 * every string of length <= 3 over a hostile alphabet and a large sample of
   length 4..6 strings, with is_file True, False and omitted;
 * every BMP code point (plus a stride through the astral planes) alone,
   after a letter and before a letter;
 * random long strings, real-world style names, str subclasses;
 * non-string input (bytes, None, int, list) - same exception type/message;
 * Image subclasses that log calls to make_safe_name (it must still be called
   exactly once, first, with the same argument), that make it raise, and that
   replace the _SAFE_ENDING / _INVALID_FILE_NAME class patterns;
 * the whole de-duplication routine (make_export_names_routine) over sibling
   lists, and a complete export of in-memory image trees into a fresh
   temporary directory, once live and once with the ORIGINAL patched in.
Exit status 0 when everything agrees, 1 otherwise.
"""
import contextlib
import io
import itertools
import os
import random
import re
import shutil
import sys
import tempfile

import smpl_extract.structural as structural
from smpl_extract.base import Element
from smpl_extract.base import ElementTypes
from smpl_extract.generalized.sample import Sample
from smpl_extract.structural import ExportManager
from smpl_extract.structural import Image
from smpl_extract.structural import SampleElement
from smpl_extract.structural import Traversable


# --------------------------------------------------------------------------
# ORIGINAL implementation (verbatim)
# --------------------------------------------------------------------------
def original_make_export_name(self, name, is_file=True) -> str:
    export_name = self.make_safe_name(name)
    export_name = self._INVALID_FILE_NAME.sub(" ", name).strip()
    match = self._SAFE_ENDING.match(export_name)
    if match:
        export_name = match.group(1)
    if len(export_name) <= 0:
        export_name = "0"
    match = re.match(r"\w", export_name)
    if not match:
        export_name = "0" + export_name
    if not is_file:
        if export_name[-1] in (".", "-"):
            export_name = export_name + "0"
    return export_name


LIVE = Image.__dict__["make_export_name"]

FAILURES = []


def check(label, left, right):
    if left != right:
        FAILURES.append(label)
        if len(FAILURES) <= 25:
            print("MISMATCH", label)
            print("   original:", repr(left)[:400])
            print("   live    :", repr(right)[:400])


def outcome(func, *args, **kwargs):
    try:
        value = func(*args, **kwargs)
        return ("ok", type(value).__name__, value)
    except BaseException as error:  # noqa: BLE001 - compared, not hidden
        return ("raised", type(error).__name__, str(error))


class PlainImage(Image):
    name = "Plain"
    type_name = "Plain"

    def __init__(self):
        super().__init__(lambda additions: [])


# --------------------------------------------------------------------------
# part 1: strings
# --------------------------------------------------------------------------
ALPHABET = ["a", "Z", "0", "_", " ", ".", "-", "#", "/", "\\", "'", ":", "(", ")",
            "\t", "\n", "é", "L", "R"]


def compare_name(image, label, name):
    for mode in ("default", True, False, 0, 1, None, "", "x"):
        if mode == "default":
            expected = outcome(original_make_export_name, image, name)
            actual = outcome(LIVE, image, name)
        else:
            expected = outcome(original_make_export_name, image, name, mode)
            actual = outcome(LIVE, image, name, mode)
        check(f"{label} name={name!r} is_file={mode!r}", expected, actual)
    check(f"{label} name={name!r} keyword",
          outcome(original_make_export_name, image, name=name, is_file=False),
          outcome(LIVE, image, name=name, is_file=False))


def compare_fast(image, name):
    for is_file in (True, False):
        expected = outcome(original_make_export_name, image, name, is_file)
        actual = outcome(LIVE, image, name, is_file)
        if expected != actual:
            check(f"fast name={name!r} is_file={is_file}", expected, actual)


def part_strings():
    image = PlainImage()
    for length in range(0, 4):
        for letters in itertools.product(ALPHABET, repeat=length):
            compare_fast(image, "".join(letters))
    rng = random.Random(16)
    for _ in range(60000):
        compare_fast(image, "".join(rng.choice(ALPHABET) for _ in range(rng.randint(4, 6))))
    code_points = list(range(0x10000)) + list(range(0x10000, 0x110000, 37))
    for code_point in code_points:
        character = chr(code_point)
        compare_fast(image, character)
        compare_fast(image, "a" + character)
        compare_fast(image, character + "a")
    for _ in range(5000):
        length = rng.randint(1, 60)
        compare_fast(image, "".join(chr(rng.choice([rng.randrange(32, 127), rng.randrange(0x3000)]))
                                    for _ in range(length)))
    named = ["Kick", "Kick (2)", "Snare -L", "Snare -R", "..", ".", "...", "", " ", "  .  ",
             "a/b", "a\\b", "../../etc/passwd", "C:\\x", "name.", "name .", "name. .", "-lead",
             "lead-", "lead.", "#1", "(1)", "été", "录音", "x" * 500, "\x00", "a\x00b",
             "CON", "nul.", " lead", "lead ", "_", "__", "-", ".-", "-.", "0", "L", "R"]

    class Loud(str):
        def strip(self, *args):
            return Loud(str.strip(self, *args))

    for name in named:
        compare_name(image, "named", name)
        compare_name(image, "str subclass", Loud(name))
    for bad in (b"bytes", b"", None, 5, 1.5, ["a"], ("a",), bytearray(b"x"), object):
        compare_name(image, "non-string", bad)
    return named


# --------------------------------------------------------------------------
# part 2: subclasses
# --------------------------------------------------------------------------
class LoggingImage(PlainImage):
    def __init__(self, fail=False):
        super().__init__()
        self.log = []
        self.fail = fail

    def make_safe_name(self, name, is_file=True):
        self.log.append(("make_safe_name", name, is_file))
        if self.fail:
            raise ValueError("safe name failed for " + repr(name))
        return super().make_safe_name(name, is_file)


class OtherPatterns(PlainImage):
    _SAFE_ENDING = re.compile(r"(.+?)[\s_]*$")
    _INVALID_FILE_NAME = re.compile(r"[^a-z.]+")


class NeverMatches(PlainImage):
    _SAFE_ENDING = re.compile(r"(?!)")


def part_subclasses(named):
    for name in named + [b"x", None]:
        for fail in (False, True):
            for is_file in (True, False):
                results = []
                for impl in (original_make_export_name, LIVE):
                    image = LoggingImage(fail)
                    result = outcome(impl, image, name, is_file)
                    results.append((result, image.log))
                check(f"logging subclass fail={fail} name={name!r} is_file={is_file}",
                      results[0], results[1])
        for cls in (OtherPatterns, NeverMatches):
            image = cls()
            compare_name(image, cls.__name__, name)


# --------------------------------------------------------------------------
# part 3: de-duplication routine and whole export
# --------------------------------------------------------------------------
class MemSample(SampleElement):
    type_name = "Mem Sample"

    def __init__(self, name, path, parent):
        Element.__init__(self, path, parent)
        self.name = name

    def to_generalized(self):
        return Sample(name=self.name, _parent=self.parent, _path=self.path,
                      _safe_name=self.safe_name, _export_name=self.export_name)


class MemDirectory(Traversable):
    def __init__(self, name, path, parent, spec, routines):
        super().__init__(self._realize, routines=routines, path=path, parent=parent)
        self.name = name
        self.spec = spec

    def _realize(self, additions):
        return build_children(self.spec, self.path, self, additions["_elem_routines"])


class MemImage(Image):
    name = "Mem Image"
    type_name = "Mem Image"

    def __init__(self, spec):
        super().__init__(self._realize)
        self.spec = spec

    def _realize(self, additions):
        return build_children(self.spec, self.path, self, additions["_elem_routines"])


def build_children(spec, path, parent, routines):
    children = []
    for entry in spec:
        if isinstance(entry, tuple):
            name, inner = entry
            children.append(MemDirectory(name, path + [name], parent, inner, routines))
        else:
            children.append(MemSample(entry, path + [entry], parent))
    return children


NAMES = ["Kick", "Kick", "kick!", "Kick?", "Snare -L", "Snare -R", "Snare", "a/b",
         "a\\b", "..", ".", "", "'q'", "x:y", "Kick (2)", "Pad L", "Pad R", "name.",
         "-lead", "lead-", "#1", "été", "Bass-L", "Bass-R", "dir.", "dir-", " "]


def random_spec(rng, depth):
    spec = []
    for _ in range(rng.randint(1, 8)):
        name = rng.choice(NAMES)
        if depth < 3 and rng.random() < 0.35:
            spec.append((name, random_spec(rng, depth + 1)))
        else:
            spec.append(name)
    return spec


@contextlib.contextmanager
def implementation(use_original):
    if use_original:
        Image.make_export_name = original_make_export_name
    try:
        yield
    finally:
        Image.make_export_name = LIVE


def part_routine():
    rng = random.Random(1616)
    for number in range(300):
        spec = random_spec(rng, 3)       # flat sibling list, files and directories
        spec = [(e, []) if rng.random() < 0.3 else e for e in spec]
        views = []
        for use_original in (True, False):
            with implementation(use_original):
                image = MemImage(spec)
                siblings = build_children(spec, [], image, {})
                result = outcome(image.make_export_names_routine, siblings)
                views.append((result[0], [(s.name, s.export_name, s.safe_name) for s in siblings]))
        check(f"routine {number}", views[0], views[1])


def tree(root):
    found = {}
    for directory, _, files in os.walk(root):
        for file_name in files:
            full = os.path.join(directory, file_name)
            with open(full, "rb") as handle:
                found[os.path.relpath(full, root)] = handle.read()
    return found


def export_run(spec, destination, use_original):
    def fake_export_wav(sample, total_path):
        with open(total_path, "ab") as handle:
            handle.write(sample.name.encode("utf-8") + b"\n")

    saved_wav = structural.export_wav
    structural.export_wav = fake_export_wav
    captured = io.StringIO()
    try:
        with implementation(use_original):
            image = MemImage(spec)
            image.set_routines({
                "make_safe_names": image.make_safe_names_routine,
                "make_export_names": image.make_export_names_routine,
            })
            manager = ExportManager(destination, {"combine_stereo": image.combine_stereo_routine})
            with contextlib.redirect_stdout(captured):
                result = outcome(image.export_samples, manager)
    finally:
        structural.export_wav = saved_wav
    return result, captured.getvalue(), tree(destination)


def part_export(root):
    rng = random.Random(161616)
    exported = 0
    for number in range(60):
        spec = random_spec(rng, 0)
        runs = []
        for use_original in (True, False):
            destination = os.path.join(root, f"out{number}_{int(use_original)}", "a", "b", "c", "d")
            os.makedirs(destination)
            runs.append(export_run(spec, destination, use_original))
        exported += len(runs[1][2])
        check(f"export {number}", runs[0], runs[1])
    if exported < 100:
        FAILURES.append("export part exported too little to be meaningful")
        print("only", exported, "files exported")


def main():
    root = tempfile.mkdtemp(prefix="r16demo_")
    try:
        named = part_strings()
        part_subclasses(named)
        part_routine()
        part_export(root)
    finally:
        shutil.rmtree(root, ignore_errors=True)
    if FAILURES:
        print(f"{len(FAILURES)} mismatches")
        return 1
    print("all scenarios agree")
    return 0


if __name__ == "__main__":
    sys.exit(main())
