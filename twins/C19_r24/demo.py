"""Equivalence demo for the ChickSysCustomIirFilter.__init__ refactoring (iir.pyx).

ChickSysCustomIirFilter.__init__ turns the (b0, b1, a1) triple of a ChickenSys
de-emphasis preset into the polynomials B = [b0, b1] and A = [1.0, -a1] used
by the saturating kernel (_c_chickensys_process divides every sum by A[0] and
then limits it to +-32767 with _c_bound).  The edit names that A[0] with a new
module constant `_CHICK_SYS_IIR_K_GAIN = 1.0`, renames the locals B / A to
feed_forward / feedback and spells `np.asarray([...])` of a fresh list literal
as `np.array([...])`.

iir.pyx ships pre-built and Cython is not installed, so the edited text has no
runtime effect on the compiled module.  To still exercise the *edited text*,
the module-level constants and the pure-Python `class IirFilter` /
`class ChickSysCustomIirFilter` blocks are cut out of
smpl_extract/filters/iir.pyx and exec'd with the compiled kernels bound in
their namespace.  They are compared against
  (a) an inline copy of the ORIGINAL class text, exec'd the same way, and
  (b) the compiled classes (for genuine float triples).

Scenarios: constructors for coefficient triples of every kind (floats, ints,
bools, numpy scalars of several widths, Fractions, Decimals, complex, huge
ints, strings, nested lists, arrays, too short / too long / not subscriptable
containers, containers that log the order of their reads and negations), the
arrays handed to IirFilter.__init__ (dtype, shape, bytes, flags, freshness),
the event order of attribute stores; then streaming through the saturating
kernel: presets and gains that overdrive the recursion in both directions,
every composition of short extreme-valued signals, random splits of long
ones, reset and flush, outputs inside +-32767.

Exit 0 when everything agrees, 1 otherwise.
"""
import decimal
import fractions
import os
import re
import random
import sys
import warnings
from typing import Tuple

import numpy as np

import smpl_extract.filters.iir as compiled
from smpl_extract.filters import common

warnings.simplefilter("ignore")

PYX = os.path.join(os.path.dirname(os.path.abspath(compiled.__file__)), "iir.pyx")

ORIGINAL_CLASSES = '''\
class IirFilter:


    def __init__(self, B: np.ndarray, A: np.ndarray) -> None:
        self.B = B
        self.A = A
        self.n_x_prev = max(0, len(B) - 1)
        self.n_y_prev = max(0, len(A) - 1)
        self.reset_state()


    def reset_state(
            self,
            **kwargs
    ):
        x_prev = kwargs.get("x_prev", None)
        y_prev = kwargs.get("y_prev", None)
        x_prev = x_prev or np.zeros(self.n_x_prev, dtype=np.float64)
        y_prev = y_prev or np.zeros(self.n_y_prev, dtype=np.float64)
        self.x_prev = x_prev.astype(np.float64)
        self.y_prev = y_prev.astype(np.float64)


    def process(self, x: np.ndarray) -> np.ndarray:
        x = x.astype(dtype=np.float64)
        y = np.zeros((x.size,)).astype(np.float64)
        _c_process(
            x,
            y,
            self.B,
            self.A,
            self.x_prev,
            self.y_prev
        )
        return y


    def get_remaining(self) -> np.ndarray:
        y = np.zeros((0,), dtype=np.float64)
        self.reset_state()
        return y


class ChickSysCustomIirFilter(IirFilter):


    def __init__(self, coeffs: Tuple[float, float, float]) -> None:
        B = np.asarray([coeffs[0], coeffs[1]])
        A = np.asarray([1.0, -coeffs[2]])
        super().__init__(B, A)


    def process(self, x: np.ndarray) -> np.ndarray:
        y = np.zeros((x.size,)).astype(np.int16)
        _c_chickensys_process(
            x,
            y,
            self.B,
            self.A,
            self.x_prev,
            self.y_prev
        )
        y = y.astype(np.int16)
        return y
'''


def _cut_class(lines, name):
    start = next(i for i, l in enumerate(lines) if l.startswith("class " + name))
    end = len(lines)
    for j in range(start + 1, len(lines)):
        l = lines[j]
        if l.strip() and not l[0].isspace():
            end = j
            break
    return "".join(lines[start:end])


def _namespace():
    return {"np": np, "Tuple": Tuple, "_c_process": compiled._c_process,
            "_c_chickensys_process": compiled._c_chickensys_process}


def load_original():
    ns = _namespace()
    exec(compile(ORIGINAL_CLASSES, "<original iir.pyx classes>", "exec"), ns)
    return ns["IirFilter"], ns["ChickSysCustomIirFilter"]


def load_text():
    with open(PYX, "r", encoding="utf-8") as fh:
        lines = fh.readlines()
    ns = _namespace()
    # module-level constants of the .pyx (plain `_NAME = literal` lines), if any
    for l in lines:
        if re.match(r"^_[A-Za-z0-9_]+ = [-+0-9.eE]+\s*(#.*)?$", l):
            exec(compile(l, "<iir.pyx constant>", "exec"), ns)
    exec(compile(_cut_class(lines, "IirFilter"), "<iir.pyx IirFilter text>", "exec"), ns)
    exec(compile(_cut_class(lines, "ChickSysCustomIirFilter"), "<iir.pyx ChickSysCustomIirFilter text>", "exec"), ns)
    return ns["IirFilter"], ns["ChickSysCustomIirFilter"]


OrigIir, OrigChick = load_original()
TextIir, TextChick = load_text()
IIRS = [OrigIir, TextIir, compiled.IirFilter]
CHICKS = [OrigChick, TextChick, compiled.ChickSysCustomIirFilter]

failures = []
checks = 0

EVENTS = []


class Coeffs:
    """coefficient container under observation: logs every len() call"""

    def __init__(self, name, n):
        self.name, self.n = name, n

    def __len__(self):
        EVENTS.append(("len", self.name))
        if isinstance(self.n, BaseException):
            raise self.n
        return self.n


def payload(v):
    """array contents; raw bytes unless those hold pointers (object) or padding (long double)"""
    if v.dtype == object:
        return tuple((type(e).__name__, repr(e)) for e in v.ravel().tolist())
    if v.dtype in (np.dtype(np.longdouble), np.dtype(np.clongdouble)):
        return tuple(repr(e) for e in v.ravel())
    return v.tobytes()


def describe(v):
    if isinstance(v, np.ndarray):
        return ("nd", str(v.dtype), v.shape, payload(v), v.flags.writeable)
    if isinstance(v, (list, tuple)):
        return (type(v).__name__,) + tuple(describe(e) for e in v)
    if isinstance(v, Coeffs):
        return ("Coeffs", v.name, repr(v.n))
    if isinstance(v, dict):
        return ("dict",) + tuple((k, describe(v[k])) for k in sorted(v))
    if type(v).__name__ == "generator":
        return ("generator",)            # its repr carries an address
    return (type(v).__name__, repr(v))


def outcome(fn):
    try:
        return ("ok", describe(fn()))
    except BaseException as exc:  # noqa: BLE001 - compared, not swallowed
        return ("exc", type(exc).__name__, str(exc))


def check(label, *results):
    global checks
    checks += 1
    if any(r != results[0] for r in results[1:]):
        failures.append(label)
        print("MISMATCH", label)
        for r in results:
            print("   ", str(r)[:400])


def state(f):
    d = vars(f)
    return tuple((k, describe(d[k])) for k in sorted(d))


def logged(cls):
    """subclass of cls that logs attribute stores and reset_state calls"""

    class Logged(cls):
        def __setattr__(self, key, value):
            EVENTS.append(("set", key, describe(value)))
            object.__setattr__(self, key, value)

        def reset_state(self, **kwargs):
            EVENTS.append(("reset_state", tuple(sorted(kwargs)), tuple(sorted(vars(self)))))
            return super().reset_state(**kwargs)

    return Logged


def build(cls, B, A):
    """construct without losing a half-built instance when __init__ raises"""
    del EVENTS[:]
    f = cls.__new__(cls)
    r = outcome(lambda: f.__init__(B, A))
    return (r, state(f), tuple(EVENTS), vars(f).get("B") is B, vars(f).get("A") is A)


def compositions(n):
    for mask in range(1 << (n - 1)):
        parts, start = [], 0
        for i in range(n - 1):
            if mask >> i & 1:
                parts.append((start, i + 1))
                start = i + 1
        parts.append((start, n))
        yield parts


def stream(make, blocks, reset_after=None):
    f = make()
    trace = [state(f)]
    for k, b in enumerate(blocks):
        trace.append(outcome(lambda: f.process(b)))
        trace.append(state(f))
        if reset_after is not None and k == reset_after:
            trace.append(outcome(lambda: f.reset_state()))
            trace.append(state(f))
    trace.append(outcome(f.get_remaining))
    trace.append(state(f))
    return trace



class Triple:
    """coefficient container under observation: logs reads and negations"""

    def __init__(self, values):
        self.values = values

    def __getitem__(self, i):
        EVENTS.append(("getitem", i))
        v = self.values[i]
        return Num(v) if isinstance(v, float) else v


class Num(float):
    def __neg__(self):
        EVENTS.append(("neg", float(self)))
        return -float(self)


def describe_arrays(f):
    out = []
    for name in ("B", "A", "x_prev", "y_prev"):
        v = vars(f).get(name)
        if isinstance(v, np.ndarray):
            out.append((name, str(v.dtype), v.shape, payload(v), v.flags.c_contiguous, v.flags.writeable,
                        v.flags.owndata, v.base is None))
        else:
            out.append((name, describe(v)))
    return tuple(out)


def build(cls, coeffs):
    del EVENTS[:]
    L = logged(cls)
    f = L.__new__(L)
    r = outcome(lambda: f.__init__(coeffs))
    return (r, state(f), describe_arrays(f), tuple(EVENTS))


def is_float_triple(c):
    return isinstance(c, tuple) and len(c) == 3 and all(type(v) is float for v in c)


def coefficient_values():
    F, D = fractions.Fraction, decimal.Decimal
    vals = [
        (0.5923, 0.1516, 0.2560), (0.7071, 0.1213, 0.1716), (22082 / 32767, 4967 / 32767, 8411 / 32767),
        (1.0, 0.0, 0.0), (0.0, 0.0, 0.0), (-0.0, -0.0, -0.0), (1.9, 0.9, 0.99), (1.5, 1.5, 0.9), (-1.5, -1.5, 0.9),
        (3.0, 0.0, -0.99), (100.0, -100.0, -1.0), (float("inf"), 1.0, 0.5), (1.0, float("nan"), 0.5),
        (1.0, 1.0, float("-inf")), (1e308, 1e-308, 5e-324), (1, 2, 3), (1, 0.5, 2), (True, False, True),
        (0.5, 0.25, True), (2 ** 70, 1, 2), (1, 2, 2 ** 70), (1.0, 2.0, -2 ** 63), (1, 2, -2 ** 63),
        (np.float32(0.5), np.float32(0.25), np.float32(0.125)), (np.float16(0.5), 1, np.float16(2)),
        (np.int16(3), np.int16(4), np.int16(-32768)), (np.int8(-128), 1, np.int8(-128)),
        (np.uint8(3), np.uint8(4), np.uint8(5)), (np.uint64(3), 1.0, np.uint64(2 ** 63)),
        (np.float64(0.5), 0.25, np.float64(0.125)), (np.longdouble(0.5), 0.25, np.longdouble(0.125)),
        (F(1, 3), F(1, 4), F(1, 5)), (D("0.5"), D("0.25"), D("0.125")), (0.5, 0.25, D("0.125")),
        (1 + 2j, 0.5, 0.25), (0.5, 0.25, 1 - 2j), ("a", "b", "c"), ("a", "b", 0.5), (0.5, 0.25, "c"),
        (None, None, None), (0.5, 0.25, None), (None, 0.25, 0.5), ([1.0, 2.0], [3.0, 4.0], 0.5),
        ([1.0, 2.0], [3.0], 0.5), (0.5, 0.25, [1.0, 2.0]), (0.5, 0.25, np.asarray([1.0, 2.0])),
        (np.asarray([1.0, 2.0]), np.asarray([3.0, 4.0]), np.asarray([5.0, 6.0])),
        (0.5, 0.25, np.asarray(3.0)), (np.asarray(0.5), np.asarray(0.25), np.asarray(0.125)),
        (0.5, 0.25, np.asarray([True])), (0.5, 0.25, np.bool_(True)),
        [0.5, 0.25, 0.125], np.asarray([0.5, 0.25, 0.125]), np.asarray([1, 2, 3]), np.asarray([1, 2, 3], dtype=np.uint8),
        np.asarray([0.5, 0.25, 0.125], dtype=np.float32), np.eye(3), np.asarray(["a", "b", "c"]),
        (), (1.0,), (1.0, 2.0), (1.0, 2.0, 3.0, 4.0), list(range(10)), "abc", "ab", b"abc", bytearray(b"abc"),
        None, 3, 2.5, {0: 1.0, 1: 2.0, 2: 3.0}, {0: 1.0, 1: 2.0}, {"a": 1}, range(3), range(2), iter((1.0, 2.0, 3.0)),
        Triple((0.5, 0.25, 0.125)), Triple((0.5, 0.25)), Triple(()), Triple({0: 0.5, 1: 0.25, 2: 0.125}),
        Triple({0: 0.5, 2: 0.125}), Triple((0.5, "x", 0.125)), Triple(("x", 0.5, "y")),
    ]
    return vals


def main():
    rng = random.Random(2419)
    nprng = np.random.default_rng(2419)

    # --- 0. the constant ---------------------------------------------------
    glob = TextChick.__init__.__globals__
    if "_CHICK_SYS_IIR_K_GAIN" in glob:
        k = glob["_CHICK_SYS_IIR_K_GAIN"]
        check("constant", (type(k).__name__, repr(k)), ("float", "1.0"))

    # --- 1. constructors ----------------------------------------------------
    n_vals = len(coefficient_values())
    for i in range(n_vals):
        res = []
        c_for_label = coefficient_values()[i]
        classes = CHICKS if is_float_triple(c_for_label) else CHICKS[:2]
        # (the compiled class converts `coeffs: Tuple[float, float, float]` to a C tuple of three
        #  doubles before the body runs - Cython typing, nothing to do with this edit)
        for cls in classes:
            res.append(build(cls, coefficient_values()[i]))
        check("ctor %d %.60r" % (i, c_for_label), *res)
        plain = []
        for cls in classes:
            c = coefficient_values()[i]
            r = outcome(lambda: cls(c))
            plain.append(r[:2] if r[0] == "exc" else r[0])
        check("ctor plain %d" % i, *plain)
    for trial in range(400):
        c = tuple(float(v) for v in nprng.uniform(-2, 2, 3))
        check("ctor random %d" % trial, *[build(cls, c) for cls in CHICKS])
    for cls in CHICKS:
        f, g = cls((0.5, 0.25, 0.125)), cls((0.5, 0.25, 0.125))
        check("fresh arrays per instance " + cls.__module__,
              (f.B is g.B, f.A is g.A, f.x_prev is g.x_prev, describe(f.B), describe(f.A)),
              (False, False, False, describe(np.asarray([0.5, 0.25])), describe(np.asarray([1.0, -0.125]))))
        f.A[0] = 7.0        # writing into one filter's polynomial must not leak anywhere
        h = cls((0.5, 0.25, 0.125))
        check("gain not shared " + cls.__module__, describe(h.A), describe(np.asarray([1.0, -0.125])))
    for args, kwargs in [((), {}), ((1.0, 2.0, 3.0), {}), ((), {"coeffs": (0.5, 0.25, 0.125)}),
                         (((0.5, 0.25, 0.125),), {"coeffs": (0.5, 0.25, 0.125)}), ((), {"B": 1, "A": 2})]:
        res = []
        for cls in CHICKS:
            r = outcome(lambda: state(cls(*args, **kwargs)))
            res.append(r[:2] if r[0] == "exc" else r)
        check("ctor call %r %r" % (args, kwargs), *res)
    for cls_name in ("ChickSysStandardDeemphFilter", "ChickSysDarkerDeemphFilter", "ChickSysSpecialDeemphFilter"):
        f = getattr(common, cls_name)()
        c = (float(f.B[0]), float(f.B[1]), float(-f.A[1]))
        check("preset state " + cls_name, state(f), state(TextChick(c)), state(OrigChick(c)))

    # --- 2. streaming through the saturating kernel -------------------------
    hot = [(0.5923, 0.1516, 0.2560), (0.7071, 0.1213, 0.1716), (22082 / 32767, 4967 / 32767, 8411 / 32767),
           (1.0, 0.0, 0.0), (1.9, 0.9, 0.99), (1.5, 1.5, 0.9), (-1.5, -1.5, 0.9), (3.0, 0.0, -0.99),
           (100.0, -100.0, -1.0), (1.00003, 0.0, 0.0), (-0.5, 0.0, 0.0), (1.0, 1.0, 1.0)]
    extremes = np.asarray([32767, -32768, 32767, 32767, -32768, -32767, 32766, 0, 1, -1], dtype=np.int16)
    peak = 0
    for ci, c in enumerate(hot):
        for n in range(1, 9):
            sig = extremes[nprng.integers(0, len(extremes), size=n)]
            for parts in compositions(n):
                blocks = [sig[s:e] for s, e in parts]
                check("compositions c%d n=%d %r" % (ci, n, parts),
                      *[stream(lambda cls=cls: cls(c), blocks) for cls in CHICKS])
        for trial in range(20):
            n = rng.randint(8, 400)
            kind = trial % 3
            if kind == 0:
                sig = nprng.integers(-32768, 32768, size=n).astype(np.int16)
            elif kind == 1:
                sig = extremes[nprng.integers(0, len(extremes), size=n)]
            else:
                sig = np.full(n, rng.choice([32767, -32768]), dtype=np.int16)
            cuts = sorted(set(rng.sample(range(1, n), rng.randint(0, 10))))
            edges = [0] + cuts + [n]
            blocks = [sig[s:e] for s, e in zip(edges, edges[1:])]
            ra = rng.choice([None, 0, len(blocks) - 1])
            check("random c%d t%d" % (ci, trial),
                  *[stream(lambda cls=cls: cls(c), blocks, ra) for cls in CHICKS])
            y = TextChick(c).process(sig)
            peak = max(peak, int(np.abs(y.astype(np.int64)).max()))
            check("limits c%d t%d" % (ci, trial), bool(y.dtype == np.int16 and y.min() >= -32767 and y.max() <= 32767),
                  True)
    check("saturation reached", peak, 32767)

    print("checks:", checks, "failures:", len(failures))
    return 1 if failures else 0


if __name__ == "__main__":
    sys.exit(main())
