"""Equivalence demo for r9: smpl_extract.cuesheet.parse_cue_sheet.

An inline copy of the ORIGINAL function is compiled with the globals of the
live smpl_extract.cuesheet module (so both use the same regexes, adapters and
get_nonempty_entry).  For many hand written and generated cue sheets we
compare:
  * the returned CueSheetFile (dataclass equality + repr),
  * the exception (type and args) if one is raised,
  * the state of the caller's list after the call (it is consumed in place
    up to the first FILE line),
  * the ordered trace of calls made to get_nonempty_entry and
    CueSheetFileAdapter.parse (arguments and results).
Finally a real cue/bin pair is exported and the PCM windows checked.
Exit 0 on full agreement, 1 otherwise.
"""
import copy
import os
import random
import shutil
import sys
import tempfile

from smpl_extract import cuesheet


ORIGINAL_SOURCE = '''
def original_parse_cue_sheet(lines):
    cue_sheet_files = []
    while len(lines):
        text, lines = get_nonempty_entry(lines)
        match_result = _FILE_LINE_REGEX.match(text)
        if match_result:
            lines = [text] + lines
            cue_sheet_file, lines = CueSheetFileAdapter.parse(lines)
            cue_sheet_files.append(cue_sheet_file)

    if len(cue_sheet_files) <= 0:
        raise BadCueSheet("No FILE entry")

    result = cue_sheet_files[0]
    return result
'''
_namespace = {}
exec(compile(ORIGINAL_SOURCE, "<original>", "exec"), cuesheet.__dict__,
     _namespace)
original_parse_cue_sheet = _namespace["original_parse_cue_sheet"]


def run_plain(func, lines):
    work = list(lines)
    try:
        result = func(work)
    except Exception as e:
        return ("EXC", type(e).__name__, e.args, work)
    return ("OK", type(result).__name__, repr(result), result, work)


def run_traced(func, lines):
    """Same as run_plain but records the calls made to the two callees."""
    events = []
    real_entry = cuesheet.get_nonempty_entry
    real_adapter = cuesheet.CueSheetFileAdapter

    def traced_entry(arg):
        before = list(arg)
        out = real_entry(arg)
        events.append(("entry", before, out[0], list(out[1]),
                       out[1] is arg))
        return out

    class TracedAdapter:
        @classmethod
        def parse(cls, arg):
            before = list(arg)
            try:
                out = real_adapter.parse(arg)
            except Exception as e:
                events.append(("file-exc", before, type(e).__name__, e.args))
                raise
            events.append(("file", before, repr(out[0]), list(out[1])))
            return out

    cuesheet.get_nonempty_entry = traced_entry
    cuesheet.CueSheetFileAdapter = TracedAdapter
    try:
        outcome = run_plain(func, lines)
    finally:
        cuesheet.get_nonempty_entry = real_entry
        cuesheet.CueSheetFileAdapter = real_adapter
    # the nested adapters call get_nonempty_entry too; those events are the
    # same for both versions and are kept in the trace.
    return outcome, events


def msf(total):
    return "%02d:%02d:%02d" % (total // 4500, (total // 75) % 60, total % 75)


def make_cue(rng):
    lines = []
    for _ in range(rng.choice([0, 0, 0, 1, 2])):
        lines.append(rng.choice([
            "REM comment\n", "\n", "   \n", "PERFORMER \"x\"\n",
            "TRACK 09 AUDIO\n", "INDEX 01 00:00:00\n", "FILE noquotes BINARY\n",
            "FILE \"x.wav\" WAVE\n",
        ]))
    n_files = rng.choice([0, 1, 1, 1, 1, 2, 3])
    position = rng.randint(0, 3)
    for f in range(n_files):
        lines.append(rng.choice([
            "FILE \"disc%d.bin\" BINARY\n" % f,
            "file \"disc%d.bin\" binary\n" % f,
            "  FILE   \"disc %d.bin\"   BINARY  \n" % f,
            "FILE \"\" BINARY\n",
        ]))
        if rng.random() < 0.1:
            lines.append("\n")
        for t in range(rng.randint(0, 5)):
            mode = rng.choice(["AUDIO", "AUDIO", "audio", "MODE1/2352"])
            lines.append("  TRACK %02d %s\n" % (t+1, mode))
            if rng.random() < 0.5:
                lines.append("    TITLE \"%s\"\n" % rng.choice(
                    ["One", "Two", "", "a \"quoted\" b"]))
            for k in range(rng.choice([0, 1, 1, 2])):
                lines.append("    INDEX %02d %s\n" % (k, msf(position)))
                position += rng.choice([0, 1, 2, 75, 4500])
            if rng.random() < 0.15:
                lines.append(rng.choice(
                    ["    FLAGS DCP\n", "\n", "    ISRC ABC\n"]))
        if rng.random() < 0.08:
            # garbage where a TRACK is expected -> BadCueSheet from inside a
            # later FILE entry (must be raised by both versions)
            lines.append(rng.choice(["GARBAGE\n", "INDEX 01 00:00:00\n"]))
            lines.append("TRACK 01 AUDIO\n")
    return lines


def export_check():
    from smpl_extract import actions
    failures = 0
    rng = random.Random(99)
    base = tempfile.mkdtemp(prefix="r9demo_")
    try:
        data = bytes(rng.getrandbits(8) for _ in range(9*2352 + 1177))
        with open(os.path.join(base, "tail.bin"), "wb") as f:
            f.write(data)
        cue_path = os.path.join(base, "disc.cue")
        with open(cue_path, "w", encoding="ascii") as f:
            f.write(
                "REM leading line\n\n"
                "FILE \"tail.bin\" BINARY\n"
                "  TRACK 01 AUDIO\n    INDEX 01 00:00:01\n"
                "  TRACK 02 AUDIO\n    TITLE \"Two\"\n"
                "    INDEX 00 00:00:03\n    INDEX 01 00:00:04\n"
                "  TRACK 03 AUDIO\n    INDEX 01 00:00:07\n"
            )
        destination = os.path.join(base, "out")
        os.mkdir(destination)
        actions.export_samples_to_wav(cue_path, destination)
        found = []
        for root, _dirs, files in sorted(os.walk(destination)):
            for name in sorted(files):
                with open(os.path.join(root, name), "rb") as f:
                    found.append(f.read())
        windows = [
            data[1*2352:3*2352], data[3*2352:7*2352],
            data[7*2352:len(data) - ((len(data) - 7*2352) % 4)],
        ]
        if len(found) != 3:
            failures += 1
            print("MISMATCH (export) number of files", len(found))
        for window in windows:
            if not any(blob.endswith(window) and len(blob) - len(window) == 44
                       for blob in found):
                failures += 1
                print("MISMATCH (export pcm window)", len(window))
    finally:
        shutil.rmtree(base, ignore_errors=True)
    return failures


def main():
    failures = 0
    rng = random.Random(0xC0309)
    cases = [
        [],
        [""],
        ["\n", "   \n"],
        ["REM only\n"],
        ["FILE \"a.bin\" BINARY\n"],
        ["FILE \"a.bin\" BINARY"],
        ["\n", "FILE \"a.bin\" BINARY\n", "\n"],
        ["FILE \"a.bin\" WAVE\n", "TRACK 01 AUDIO\n"],
        ["TRACK 01 AUDIO\n", "INDEX 01 00:00:00\n"],
        ["FILE \"a.bin\" BINARY\n", "TRACK 01 AUDIO\n", "INDEX 01 00:00:00\n"],
        ["FILE \"a.bin\" BINARY\n", "GARBAGE\n"],
        ["FILE \"a.bin\" BINARY\n", "TRACK 01 AUDIO\n", "INDEX 01 00:00:00\n",
         "FILE \"b.bin\" BINARY\n", "TRACK 02 AUDIO\n", "INDEX 01 00:02:00\n"],
        ["FILE \"a.bin\" BINARY\n", "TRACK 01 AUDIO\n",
         "FILE \"b.bin\" BINARY\n", "GARBAGE\n", "TRACK 02 AUDIO\n"],
        ["junk\n", "FILE \"a.bin\" BINARY\n", "TRACK 01 AUDIO\n",
         "TITLE \"t\"\n", "INDEX 00 00:00:00\n", "INDEX 01 00:00:02\n",
         "TRACK 02 AUDIO\n", "INDEX 01 01:02:03\n", "\n", "\n"],
        ["FILE \"a.bin\" BINARY\n", "TRACK 01 AUDIO\n",
         "INDEX 01 " + "9"*5000 + ":00:00\n"],
    ]
    for _ in range(1500):
        cases.append(make_cue(rng))

    live = cuesheet.parse_cue_sheet
    outcomes = {}
    for number, lines in enumerate(cases):
        expected = run_plain(original_parse_cue_sheet, copy.deepcopy(lines))
        actual = run_plain(live, copy.deepcopy(lines))
        key = expected[0] if expected[0] == "OK" else expected[1]
        outcomes[key] = outcomes.get(key, 0) + 1
        if expected != actual:
            failures += 1
            print("MISMATCH (plain) in case", number, lines)
            print("   expected", expected)
            print("   actual  ", actual)
        expected = run_traced(original_parse_cue_sheet, lines)
        actual = run_traced(live, lines)
        if expected != actual:
            failures += 1
            print("MISMATCH (traced) in case", number, lines)
            print("   expected", expected)
            print("   actual  ", actual)

    # non-list argument types that the original accepts or rejects
    for odd in (None, 5, (), ("FILE \"a.bin\" BINARY\n",), "", "abc"):
        def call(func):
            try:
                return ("OK", repr(func(odd)))
            except Exception as e:
                return ("EXC", type(e).__name__, str(e))
        expected = call(original_parse_cue_sheet)
        actual = call(live)
        if expected != actual:
            failures += 1
            print("MISMATCH (odd argument)", repr(odd), expected, actual)

    failures += export_check()
    print("cases:", len(cases), "outcomes:", outcomes, "failures:", failures)
    return 1 if failures else 0


if __name__ == "__main__":
    sys.exit(main())
