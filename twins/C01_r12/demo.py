"""Equivalence demo for r12 (smpl_extract/akai/sample.py,
SampleAdapter._decode_element).  An inline copy of the ORIGINAL method is
grafted onto a subclass of SampleAdapter and compared with the live one:
  (a) direct calls with synthetic header containers: every AkaiLoopType, loop
      tables of all shapes (empty, all zero durations, mixed, generator-backed,
      entries whose attribute access raises), every interesting Int16ul
      sampling rate (0, 1, 44100, 65535, ...), several ChildInfo shapes;
      the access order on the header is logged and must match too;
  (b) real parses of 140-byte AKAI sample headers followed by PCM data, through
      <adapter>(SampleHeaderConstruct).parse_stream: every field of the
      resulting AkaiSample, the bytes readable from its data stream, the
      generalized Sample and the WAV file built from it must be identical.
Exit 0 = all agree."""
import io
import random
import struct
import sys
from typing import Any
from typing import Dict

from construct.lib.containers import Container

from smpl_extract.akai.data_types import AKAI_SAMPLE_WORDLENGTH
from smpl_extract.akai.data_types import DEFAULT_SAMPLE_RATE
from smpl_extract.akai.data_types import AkaiLoopType
from smpl_extract.akai.data_types import SampleType
from smpl_extract.akai.sample import AkaiSample
from smpl_extract.akai.sample import LoopEntry
from smpl_extract.akai.sample import SampleAdapter
from smpl_extract.akai.sample import SampleHeaderConstruct
from smpl_extract.akai.sample import SampleHeaderContainer
from smpl_extract.generalized.wav import WavSampleBuilder
from smpl_extract.midi import MidiNote
from smpl_extract.util.constructs import ChildInfo


# ---- inline copy of the ORIGINAL implementation -------------------------
class OrigSampleAdapter(SampleAdapter):


    def _decode_element(
            self,
            obj: SampleHeaderContainer,
            child_info: ChildInfo,
            context: Dict[str, Any],
            path: str
    ):
        del context, path  # Unused

        sample_header = obj
        file_name = child_info.name
        parent = child_info.parent
        sample_path = child_info.next_path

        loop_entries = []
        if sample_header.loop_type != AkaiLoopType.LOOP_INACTIVE:
            for loop_entry in sample_header.loop_data_table:
                loop_duration = loop_entry.loop_duration
                if loop_duration > 0:
                    loop_entries.append(loop_entry)

        sample_rate = sample_header.sampling_rate
        if sample_rate == 0:
            sample_rate = DEFAULT_SAMPLE_RATE

        result = AkaiSample(
            file_name,
            sample_header.sample_name,
            sample_header.id,
            sample_rate,
            AKAI_SAMPLE_WORDLENGTH,
            sample_header.samples_cnt,
            sample_header.play_start,
            sample_header.play_end,
            sample_header.note_pitch,
            sample_header.pitch_offset_cents,
            sample_header.pitch_offset_semi,
            sample_header.loop_type,
            loop_entries,
            _data_stream=sample_header.data_stream,
            _parent=parent,
            _path=sample_path
        )
        return result
# -------------------------------------------------------------------------


failures = 0
checks = 0


def check(label, a, b):
    global failures, checks
    checks += 1
    if a != b:
        failures += 1
        if failures <= 10:
            print("MISMATCH", label, "\n   live:", repr(a)[:700], "\n   orig:", repr(b)[:700])


class Boom(Exception):
    pass


class LoggedHeader:
    """Header whose attribute reads are logged (order matters for streams)."""
    def __init__(self, fields, log):
        object.__setattr__(self, "_fields", fields)
        object.__setattr__(self, "_log", log)

    def __getattr__(self, name):
        self._log.append(("get", name))
        try:
            value = self._fields[name]
        except KeyError:
            raise AttributeError(name) from None
        if callable(value):
            return value()
        return value


class TouchyEntry:
    def __init__(self, log, n):
        self.log = log
        self.n = n

    @property
    def loop_duration(self):
        self.log.append(("duration", self.n))
        if self.n == 3:
            raise Boom("entry 3")
        return self.n % 2


def describe(sample, loop_entries_in):
    if not isinstance(sample, AkaiSample):
        return ("not a sample", repr(sample))
    d = dict(vars(sample))
    entries = d["loop_entries"]
    return (
        type(sample).__name__,
        sorted((k, repr(v)) for k, v in d.items() if k != "loop_entries"),
        type(entries).__name__,
        [next((i for i, e in enumerate(loop_entries_in) if e is x), "new") for x in entries],
        [type(sample.sample_rate).__name__, sample.type_name, sample.name],
    )


def call(adapter, fields, child_info, table_factory):
    log = []
    table = table_factory(log)
    materialised = list(table) if isinstance(table, (list, tuple)) else None
    fields = dict(fields)
    fields["loop_data_table"] = table
    header = LoggedHeader(fields, log)
    try:
        r = adapter._decode_element(header, child_info, {"ctx": 1}, "path")
        out = ("OK", describe(r, materialised if materialised is not None else []))
    except Exception as e:  # noqa: BLE001
        out = ("EXC", type(e).__name__, str(e))
    return out, log


def part_a():
    rnd = random.Random(12)
    live = SampleAdapter(SampleHeaderConstruct)
    orig = OrigSampleAdapter(SampleHeaderConstruct)
    data_stream = io.BytesIO(b"abcd")
    parent = object()

    def entries(durations):
        return [LoopEntry(10 * n, 10 * n + 5, d, d >= 9999) for n, d in enumerate(durations)]

    table_factories = [
        ("empty", lambda log: []),
        ("zeros", lambda log: entries([0] * 8)),
        ("all", lambda log: entries([1, 2, 3, 4, 5, 6, 7, 9999])),
        ("mixed", lambda log: entries([0, 5, 0, 9999, 0, 0, 1, 0])),
        ("negative", lambda log: entries([-1, 0, 1])),
        ("tuple", lambda log: tuple(entries([3, 0, 4]))),
        ("generator", lambda log: (e for e in entries([0, 2, 0, 7]))),
        ("touchy", lambda log: [TouchyEntry(log, n) for n in range(3)]),
        ("touchy-raises", lambda log: [TouchyEntry(log, n) for n in range(6)]),
        ("not iterable", lambda log: 5),
        ("random", lambda log: entries([random.Random(7).choice((0, 0, 3, 9999)) for _ in range(8)])),
    ]
    loop_types = list(AkaiLoopType) + [2, 0, 7]
    rates = [0, 1, 2, 8000, 22050, 44100, 44101, 48000, 65535, False, True]
    child_infos = [
        ChildInfo(parent=parent, parent_path=["A:", "VOL"], next_path=["A:", "VOL", "S"],
                  routines={}, name="S"),
        ChildInfo(parent=None, parent_path=[], next_path=[], routines=[], name=None),
        ChildInfo(parent=parent, parent_path=[], next_path=["X"], routines={}, name=""),
    ]
    base = {
        "id": SampleType.S1000,
        "note_pitch": MidiNote.from_string("C4"),
        "sample_name": "SAMPLE NAME",
        "pitch_offset_cents": 0,
        "pitch_offset_semi": 0,
        "samples_cnt": 100,
        "play_start": 0,
        "play_end": 100,
        "data_stream": data_stream,
    }
    for loop_type in loop_types:
        for rate in rates:
            for tname, tf in table_factories:
                fields = dict(base)
                fields["loop_type"] = loop_type
                fields["sampling_rate"] = rate
                fields["id"] = rnd.choice(list(SampleType))
                fields["play_start"] = rnd.randrange(0, 50)
                fields["pitch_offset_semi"] = rnd.randrange(-50, 50)
                fields["pitch_offset_cents"] = rnd.choice((0, -12.5, 49.8))
                ci = rnd.choice(child_infos)
                check(("direct", loop_type, rate, tname),
                      call(live, fields, ci, tf), call(orig, fields, ci, tf))
    # a header with a missing field: same AttributeError at the same point
    for missing in ("loop_type", "sampling_rate", "sample_name", "data_stream", "play_end"):
        fields = dict(base)
        fields["loop_type"] = AkaiLoopType.LOOP_IN_RELEASE
        fields["sampling_rate"] = 0
        del fields[missing]
        tf = table_factories[3][1]
        check(("missing", missing),
              call(live, fields, child_infos[0], tf), call(orig, fields, child_infos[0], tf))
    # a real construct Container as the header
    for rate in (0, 32000):
        for loop_type in AkaiLoopType:
            table = entries([0, 4, 0, 9999])
            c = Container(base)
            c["loop_type"] = loop_type
            c["sampling_rate"] = rate
            c["loop_data_table"] = table
            a = live._decode_element(c, child_infos[0], {}, "")
            b = orig._decode_element(c, child_infos[0], {}, "")
            check(("container", rate, loop_type), describe(a, table), describe(b, table))
            check(("container eq", rate, loop_type), a == b, True)


# ---------------------------------------------------------------- part (b)
def make_header(rnd, n_words, wild):
    def byte(valid):
        return rnd.randrange(256) if wild and rnd.random() < 0.1 else rnd.choice(valid)
    name = bytes(byte(range(0, 0x29)) for _ in range(12))
    loops = b""
    for _ in range(8):
        loops += struct.pack("<IHIH", rnd.randrange(0, n_words + 2), rnd.randrange(65536),
                             rnd.randrange(0, n_words + 2),
                             rnd.choice((0, 0, 1, 500, 9998, 9999, 65535)))
    start = rnd.randrange(0, n_words + 1)
    end = rnd.randrange(start, n_words + 1)
    if rnd.random() < 0.5:
        start, end = 0, n_words
    header = b"".join((
        bytes([byte((1, 3))]), b"\x00",
        bytes([byte(range(24, 128))]),
        name, b"\x00" * 4,
        bytes([byte((0, 1, 2, 3, 4))]),
        struct.pack("<bb", rnd.randrange(-128, 128), rnd.randrange(-50, 51)),
        b"\x00" * 4,
        struct.pack("<III", n_words, start, end),
        loops, b"\x00" * 4,
        struct.pack("<H", rnd.choice((0, 0, 1, 22050, 44100, 65535))),
    ))
    assert len(header) == 140, len(header)
    return header


def parse_with(adapter_cls, blob, context):
    stream = io.BytesIO(blob)
    try:
        sample = adapter_cls(SampleHeaderConstruct).parse_stream(stream, **context)
    except Exception as e:  # noqa: BLE001
        return ("EXC", type(e).__name__, str(e)[:80])
    d = dict(vars(sample))
    ds = d.pop("_data_stream")
    out = [sorted((k, repr(v)) for k, v in d.items())]
    out.append((type(ds).__name__, ds.offset, ds.end_of_file, ds.position))
    ds.seek(0, 0)
    out.append(ds.read(None))
    try:
        generalized = sample.to_generalized()
        g = dict(vars(generalized))
        g.pop("data_streams")
        out.append(sorted((k, repr(v)) for k, v in g.items()))
        buf = io.BytesIO()
        WavSampleBuilder.build_stream(generalized, buf)
        out.append(buf.getvalue())
    except Exception as e:  # noqa: BLE001
        out.append(("EXC", type(e).__name__, str(e)[:80]))
    return ("OK", out)


class FakeParent:
    path = ["A:", "VOLUME 001"]

    def __repr__(self):
        return "FakeParent"


def part_b():
    rnd = random.Random(1212)
    parent = FakeParent()
    ok = 0
    for case in range(400):
        n_words = rnd.choice((0, 1, 2, 50, 2048, 4096 - 70, 4096, 5000))
        blob = make_header(rnd, n_words, wild=(case % 4 == 3))
        blob += bytes(rnd.randrange(256) for _ in range(2 * n_words + rnd.choice((0, 0, 1, 6))))
        context = rnd.choice((
            {"_elem_name": "SAMPLE %d" % case, "_elem_parent": parent, "_elem_routines": {}},
            {"_elem_name": "S"},
            {},
        ))
        a = parse_with(SampleAdapter, blob, context)
        b = parse_with(OrigSampleAdapter, blob, context)
        check(("parse", case), a, b)
        if a[0] == "OK" and isinstance(a[1][-1], bytes):
            ok += 1
    check("enough real parses exported a WAV", ok > 100, True)


def main():
    part_a()
    part_b()
    print("checks:", checks, "failures:", failures)
    return 1 if failures else 0


if __name__ == "__main__":
    sys.exit(main())
