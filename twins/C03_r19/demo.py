"""Equivalence demo for r19: smpl_extract.actions.parse_text_file (reads
the .cue text that attempt_parse_cue_sheet parses) and the `inner` closure
of smpl_extract.actions._wrap_filestream (entry of `export` / `ls`: turns
a path into an image via determine_image_type -> attempt_parse_cue_sheet).

Inline copies of the ORIGINAL functions are compiled against a copy of the
live module's globals and compared with the live functions:

  A. parse_text_file: ASCII files (empty, one line, no trailing newline,
     CR / CRLF / mixed newlines, very long, blank lines), files with a
     non-ASCII byte at the start / in the middle / beyond the first read
     buffer, missing file, directory, bytes path, int argument.  `open` is
     replaced in both namespaces by a recorder, so the open() arguments,
     the returned list (or exception type / message / type of __cause__ and
     of __context__) and the fact that the file object is closed afterwards
     must agree.
  B. _wrap_filestream: recording functions are decorated with both
     versions and called with str paths, str subclasses, images, None,
     bytes and extra positional / keyword arguments; determine_image_type
     is a recorder that returns a token or raises.  The order of events
     (determine_image_type call, wrapped function call with the exact
     arguments), the return value (always None), exceptions, and the
     functools.wraps metadata must agree.
  C. end to end: cue/bin pairs are exported and listed once with the live
     functions and once with the originals patched in; WAV trees and
     printed text must be byte-identical, the PCM must tile the bin
     (independent expected values), and non-ASCII / binary-mode cue sheets
     must behave identically (same exception or same fallback).
Exit 0 on full agreement, 1 otherwise.
"""
import builtins
import contextlib
import io
import os
import random
import shutil
import sys
import tempfile

from smpl_extract import actions
from smpl_extract.cuesheet import parse_cue_sheet


ORIGINAL_SOURCE = '''
def parse_text_file(filename: str):
    with open(filename, "r", encoding="ascii") as file:
        try:
            text = file.readlines()
        except (UnicodeDecodeError) as e:
            raise BadTextFile from e
        return text


def _wrap_filestream(func: Callable):
    @wraps(func)
    def inner(file: Union[str, Image], *args, **kwargs):
        if isinstance(file, str):
            result = determine_image_type(file)
        else:
            result = file
        func(result, *args, **kwargs)
    return inner
'''


live_parse_text_file = actions.parse_text_file
live_wrap_filestream = actions._wrap_filestream


def compile_original(overrides):
    namespace = dict(actions.__dict__)
    namespace.update(overrides)
    exec(compile(ORIGINAL_SOURCE, "<original>", "exec"), namespace)
    return namespace["parse_text_file"], namespace["_wrap_filestream"]


def describe_exception(e):
    return ("EXC", type(e).__name__, str(e), type(e.__cause__).__name__,
            type(e.__context__).__name__, e.__suppress_context__)


# --------------------------------------------------------- parse_text_file
class OpenRecorder:
    def __init__(self):
        self.calls = []
        self.files = []

    def __call__(self, *args, **kwargs):
        self.calls.append((args, kwargs))
        file = builtins.open(*args, **kwargs)
        self.files.append(file)
        return file

    def summary(self):
        return self.calls, [f.closed for f in self.files]


def run_parse(function, recorder, argument):
    try:
        result = function(argument)
    except BaseException as e:
        outcome = describe_exception(e)
    else:
        outcome = ("OK", type(result).__name__, result)
    return outcome, recorder.summary()


def parse_text_file_cases(base):
    contents = {
        "empty": b"",
        "one": b"FILE \"a.bin\" BINARY\n",
        "no_newline": b"FILE \"a.bin\" BINARY",
        "crlf": b"FILE \"a.bin\" BINARY\r\n  TRACK 01 AUDIO\r\n",
        "cr": b"a\rb\rc",
        "mixed": b"a\r\nb\nc\rd\n\n\n",
        "blank": b"\n\n  \n\t\n",
        "long": b"x"*100000 + b"\n" + b"y"*70000,
        "many": b"line\n"*50000,
        "high_first": b"\xff\xfeabc\n",
        "high_middle": b"abc\ndef\x80ghi\n",
        "high_late": b"a\n"*60000 + b"\xe9\n",
        "high_last": b"abc\n"*10 + b"\x80",
        "nul": b"a\x00b\n\x7f\n",
        "utf8": "FILE \"é.bin\" BINARY\n".encode("utf-8"),
    }
    arguments = []
    for name, blob in contents.items():
        path = os.path.join(base, name + ".cue")
        with open(path, "wb") as f:
            f.write(blob)
        arguments.append(path)
    arguments.append(os.path.join(base, "missing.cue"))
    arguments.append(base)                       # a directory
    arguments.append(os.fsencode(arguments[1]))  # bytes path
    arguments.append("")
    arguments.append(None)
    arguments.append(3.5)

    failures = 0
    count = 0
    for argument in arguments:
        recorder_a = OpenRecorder()
        original, _ = compile_original({"open": recorder_a})
        expected = run_parse(original, recorder_a, argument)

        recorder_b = OpenRecorder()
        actions.open = recorder_b
        try:
            actual = run_parse(live_parse_text_file, recorder_b, argument)
        finally:
            del actions.open
        count += 1
        if expected != actual:
            failures += 1
            print("MISMATCH (parse_text_file)", argument)
            print("   expected", str(expected)[:300])
            print("   actual  ", str(actual)[:300])
        # independent expectation for the well-formed files
        if isinstance(argument, str) and argument.endswith(".cue") \
                and os.path.exists(argument):
            name = os.path.basename(argument)[:-4]
            blob = contents[name]
            count += 1
            if name.startswith("high") or name == "utf8":
                good = actual[0][:2] == ("EXC", "BadTextFile") \
                    and actual[0][3] == "UnicodeDecodeError"
            else:
                good = actual[0] == ("OK", "list", io.StringIO(
                    blob.decode("ascii"), newline=None).readlines())
            good = good and actual[1][1] == [True]
            if not good:
                failures += 1
                print("MISMATCH (parse_text_file reference)", name)
    return count, failures


# -------------------------------------------------------- _wrap_filestream
class CustomError(Exception):
    pass


class Path(str):
    pass


def run_wrapped(wrap, namespace_setter, first, args, kwargs, mode):
    events = []

    def determine_image_type(file):
        events.append(("determine", type(file).__name__, file))
        if mode == "determine raises":
            raise CustomError("cannot open")
        return ("image of", file)

    def action(image, *more, **named):
        """Docstring of action."""
        events.append(("action", image, more, named))
        if mode == "action raises":
            raise CustomError("action failed")
        return "ignored return value"

    action.marker = 42
    with namespace_setter(determine_image_type) as wrap_function:
        wrapped = wrap_function(action)
        metadata = (wrapped.__name__, wrapped.__doc__, wrapped.__qualname__,
                    wrapped.__wrapped__ is action, wrapped.marker,
                    wrapped.__module__)
        try:
            if first is Ellipsis:
                result = wrapped(*args, **kwargs)
            else:
                result = wrapped(first, *args, **kwargs)
        except BaseException as e:
            outcome = describe_exception(e)
            if isinstance(e, TypeError):
                # the message names the closure; same name in both versions
                outcome = outcome[:2] + (str(e).split(".")[-1],) + outcome[3:]
        else:
            outcome = ("OK", result)
    return outcome, events, metadata


@contextlib.contextmanager
def original_setter(determine_image_type):
    _, wrap = compile_original(
        {"determine_image_type": determine_image_type})
    yield wrap


@contextlib.contextmanager
def live_setter(determine_image_type):
    saved = actions.determine_image_type
    actions.determine_image_type = determine_image_type
    try:
        yield live_wrap_filestream
    finally:
        actions.determine_image_type = saved


def wrap_cases():
    failures = 0
    count = 0
    image = object()
    firsts = ["disc.cue", "", Path("sub.cue"), image, None, b"bytes.cue",
              0, ["list"], Ellipsis]
    argument_sets = [((), {}), (("path",), {}), (("a", "b"), {}),
                     ((), {"path": "x"}), ((1,), {"base_dir": "out"}),
                     ((), {"file": "clash"}), ((), {"image": "clash"})]
    for first in firsts:
        for args, kwargs in argument_sets:
            for mode in ("ok", "determine raises", "action raises"):
                expected = run_wrapped(None, original_setter, first, args,
                                       kwargs, mode)
                actual = run_wrapped(None, live_setter, first, args, kwargs,
                                     mode)
                count += 1
                if expected != actual:
                    failures += 1
                    if failures < 10:
                        print("MISMATCH (wrap)", first, args, kwargs, mode)
                        print("   expected", expected)
                        print("   actual  ", actual)
    return count, failures


# ------------------------------------------------------------------ export
def msf(total):
    return "%02d:%02d:%02d" % (total // 4500, (total // 75) % 60, total % 75)


def make_cue(rng, n_sectors):
    lines = ["FILE \"disc.bin\" BINARY\n"]
    position = rng.randint(0, 2)
    for t in range(rng.randint(1, 6)):
        lines.append("  TRACK %02d AUDIO\n" % (t + 1))
        if rng.random() < 0.4:
            lines.append("    TITLE \"Title %d\"\n" % (t + 1))
        for k in range(rng.choice([1, 1, 2, 3])):
            lines.append("    INDEX %02d %s\n" % (k, msf(position)))
            position += rng.choice([1, 1, 2, 3])
        if position >= n_sectors:
            break
    return lines


def read_tree(root):
    found = {}
    for directory, _dirs, files in os.walk(root):
        for name in files:
            path = os.path.join(directory, name)
            with open(path, "rb") as f:
                found[os.path.relpath(path, root)] = f.read()
    return found


def run_actions(use_original, cue_path, destination):
    os.mkdir(destination)
    captured = io.StringIO()
    if use_original:
        parse, wrap = compile_original({})
        # determine_image_type resolves parse_text_file in the live module
        actions.parse_text_file = parse
        export = wrap(actions.export_samples_to_wav.__wrapped__)
        ls = wrap(actions.ls_action.__wrapped__)
    else:
        export = actions.export_samples_to_wav
        ls = actions.ls_action
    outcomes = []
    try:
        with contextlib.redirect_stdout(captured):
            for call in (lambda: export(cue_path, destination),
                         lambda: ls(cue_path, ""),
                         lambda: ls(cue_path, "Title 1")):
                try:
                    outcomes.append(("OK", call()))
                except Exception as e:
                    outcomes.append(describe_exception(e)[:2])
    finally:
        actions.parse_text_file = live_parse_text_file
    text = captured.getvalue().replace(destination, "<out>")
    return read_tree(destination), text, outcomes


def export_cases(base):
    failures = 0
    count = 0
    rng = random.Random(0x319)
    for number in range(60):
        n_sectors = rng.randint(1, 20)
        tail = rng.choice([0, 0, 1, 2, 3, 5, 1177, 2351])
        data = bytes(rng.getrandbits(8) for _ in range(n_sectors*2352 + tail))
        lines = make_cue(rng, n_sectors)
        cue_bytes = "".join(lines).encode("ascii")
        flavour = "plain"
        if number % 10 == 7:
            flavour = "non-ascii comment"
            cue_bytes = b"REM caf\xe9\n" + cue_bytes
        elif number % 10 == 8:
            flavour = "crlf"
            cue_bytes = cue_bytes.replace(b"\n", b"\r\n")
        directory = os.path.join(base, "case%03d" % number)
        os.mkdir(directory)
        with open(os.path.join(directory, "disc.bin"), "wb") as f:
            f.write(data)
        cue_path = os.path.join(directory, "disc.cue")
        with open(cue_path, "wb") as f:
            f.write(cue_bytes)
        expected = run_actions(True, cue_path,
                               os.path.join(directory, "out_a"))
        actual = run_actions(False, cue_path,
                             os.path.join(directory, "out_b"))
        count += 1
        if expected != actual:
            failures += 1
            print("MISMATCH (export)", number, flavour)
            print("   expected", expected[1:])
            print("   actual  ", actual[1:])
            continue
        if flavour == "non-ascii comment":
            continue
        cue = parse_cue_sheet(list(lines))
        starts = [t.indices[0].get_total_audio_frames()*2352
                  for t in cue.tracks]
        titles = [t.title or "Untitled Track %d" % (i + 1)
                  for i, t in enumerate(cue.tracks)]
        if starts[-1] > len(data):
            continue
        count += 1
        ends = starts[1:] + [len(data) - (len(data) - starts[-1]) % 4]
        joined = b""
        for title, start, end in zip(titles, starts, ends):
            blob = actual[0].get(title + ".wav")
            if blob is None or blob[44:] != data[start:end]:
                failures += 1
                print("MISMATCH (tiling)", number, title)
                break
            joined += blob[44:]
        else:
            if joined != data[starts[0]:ends[-1]] \
                    or len(actual[0]) != len(titles):
                failures += 1
                print("MISMATCH (concatenation)", number)
    return count, failures


def main():
    total = 0
    failed = 0
    base = tempfile.mkdtemp(prefix="r19demo_")
    try:
        for part, args in ((parse_text_file_cases, (base,)),
                           (wrap_cases, ()), (export_cases, (base,))):
            count, failures = part(*args)
            print(part.__name__, "cases:", count, "failures:", failures)
            total += count
            failed += failures
    finally:
        shutil.rmtree(base, ignore_errors=True)
    if actions.parse_text_file is not live_parse_text_file \
            or "open" in actions.__dict__:
        print("module not restored")
        failed += 1
    print("total cases:", total, "failures:", failed)
    return 1 if failed else 0


if __name__ == "__main__":
    sys.exit(main())
