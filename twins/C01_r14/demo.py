"""Equivalence demo for r14 (smpl_extract/util/stream.py, StreamWrapper.read).

An inline copy of the ORIGINAL method is compared with the live one.  For
every wrapper class of the project that inherits it (StreamWrapper,
StreamOffset, StreamReversed, SectorStream, FileStream, Segment) and for the
nested stack AKAI export really uses (StreamOffset window over a sized
StreamWrapper over a sector-chained Segment over the partition StreamOffset)
random scripts of read / read(None) / read(-1) / readall / seek / tell calls -
with the underlying stream occasionally moved behind the wrapper's back - are
run twice, once on the live class and once on a subclass whose read() is the
original.  Compared after every step: the value returned or the exception
(type, text), position / true_size / end_of_file of every layer, and the
complete log of tell / seek / read calls that reached the bottom stream (same
calls, same arguments, same order).
Finally whole AKAI images from an independent writer are exported to WAV with
the live method and with the original patched into StreamWrapper: same stdout,
same files, same bytes.
Exit 0 = all agree."""
import contextlib
import hashlib
import io
import os
import random
import shutil
import sys
import tempfile
from io import SEEK_CUR
from io import SEEK_END
from io import SEEK_SET
from typing import Union

import smpl_extract.util.stream as stream_module
from smpl_extract.akai.sat import Segment
from smpl_extract.util.fat import FileStream
from smpl_extract.util.sector import SectorStream
from smpl_extract.util.stream import StreamOffset
from smpl_extract.util.stream import StreamReversed
from smpl_extract.util.stream import StreamWrapper


# ---- inline copy of the ORIGINAL implementation -------------------------
def orig_read(self, size: Union[int, None])->bytes:

    if size is None or size < 0:
        return self.readall()

    self.true_size = size
    if self.end_of_file is not None:  # as in the tree after the empty-view fix
        self.true_size = min(self.end_of_file - self.position, size)
    if self.true_size < 0:
        self.true_size = 0

    true_position = self.substream.tell()
    expected_position = self._translate_addr(self.position)
    if expected_position != true_position:
        self._seek(self.position)

    result = self._read(self.true_size)
    self.position += self.true_size
    return result
# -------------------------------------------------------------------------

# ---- independent AKAI S1000/S3000 image writer (logical model -> bytes) ----
import struct as _struct

SECTOR = 0x2000
SAT_CNT = 11386
HEADER_SECTORS = 3
MAGIC = b"".join(((3333 * i) & 0xFFFF).to_bytes(2, "little") for i in range(1, 98))


def akai_name(text):
    out = bytearray()
    for ch in text.upper().ljust(12)[:12]:
        if "0" <= ch <= "9":
            out.append(ord(ch) - ord("0"))
        elif "A" <= ch <= "Z":
            out.append(ord(ch) - ord("A") + 0x0B)
        else:
            out.append({" ": 0x0A, "#": 0x25, "+": 0x26, "-": 0x27, ".": 0x28}[ch])
    return bytes(out)


def sample_file(name, type_byte, rate, pcm, play_start, play_end, loops=(), loop_type=2):
    """140 byte header followed by the 16 bit words."""
    head = bytearray()
    head += bytes([type_byte, 0, 60])
    head += akai_name(name)
    head += bytes(4)
    head += bytes([loop_type, 0, 0])
    head += bytes(4)
    head += _struct.pack("<III", len(pcm) // 2, play_start, play_end)
    table = list(loops) + [(0, 0, 0, 0)] * (8 - len(loops))
    for at, fine, coarse, duration in table:
        head += _struct.pack("<IHIH", at, fine, coarse, duration)
    head += bytes(4)
    head += _struct.pack("<H", rate)
    assert len(head) == 140, len(head)
    return bytes(head) + pcm


def build_partition(rnd, volumes, layout="random", dir_style="chain", spare=6):
    """volumes: list of (name, type 1|3, [(file name, file type byte, content bytes)])"""
    needed = HEADER_SECTORS
    for _name, _type, files in volumes:
        needed += 2 + (24 * (len(files) + 1) + SECTOR - 1) // SECTOR
        for _fname, _ftype, content in files:
            needed += max(1, (len(content) + SECTOR - 1) // SECTOR)
    total = needed + spare
    sat = [0] * SAT_CNT
    for s in range(HEADER_SECTORS):
        sat[s] = 0x4000
    sectors = {}
    free = list(range(HEADER_SECTORS, total))

    def take(count, how):
        nonlocal free
        if how == "contiguous":
            for at in range(len(free) - count + 1):
                run = free[at:at + count]
                if run[-1] - run[0] == count - 1:
                    break
            else:
                raise AssertionError("no contiguous run")
            chosen = run
        elif how == "ascending":
            chosen = sorted(rnd.sample(free, count))
        elif how == "descending":
            chosen = sorted(rnd.sample(free, count), reverse=True)
        else:
            chosen = rnd.sample(free, count)
        free = [s for s in free if s not in chosen]
        return chosen

    def store(chain, payload):
        for n, s in enumerate(chain):
            sectors[s] = payload[n * SECTOR:(n + 1) * SECTOR].ljust(SECTOR, b"\x00")

    # directories first (a reserved run needs a non reserved sector behind it)
    dir_chains = []
    for _name, _type, files in volumes:
        count = (24 * (len(files) + 1) + SECTOR - 1) // SECTOR
        if dir_style == "reserved":
            chain = take(count + 1, "contiguous")
            guard = chain.pop()
            free.append(guard)
            free.sort()
            for s in chain:
                sat[s] = 0x4000
            # keep the guard sector out of later reserved runs: leave it free
            free.remove(guard)
        else:
            chain = take(count, "contiguous" if dir_style == "chain" else "random")
            for a, b in zip(chain, chain[1:]):
                sat[a] = b
            sat[chain[-1]] = 0xC000
        dir_chains.append(chain)

    volume_table = bytearray()
    for (name, vtype, files), dir_chain in zip(volumes, dir_chains):
        table = bytearray()
        for fname, ftype, content in files:
            count = max(1, (len(content) + SECTOR - 1) // SECTOR)
            how = layout if layout != "mixed" else rnd.choice(
                ["contiguous", "ascending", "descending", "random"])
            chain = take(count, how)
            for a, b in zip(chain, chain[1:]):
                sat[a] = b
            sat[chain[-1]] = 0xC000
            store(chain, content)
            table += akai_name(fname) + bytes(4) + bytes([ftype])
            table += len(content).to_bytes(3, "little")
            table += _struct.pack("<H", chain[0]) + bytes(2)
        end = bytearray(24)
        end[8:10] = (0xD747).to_bytes(2, "little")
        table += end
        store(dir_chain, bytes(table))
        volume_table += akai_name(name) + _struct.pack("<HH", vtype, dir_chain[0])
    volume_table += bytes(16 * (100 - len(volumes)))

    head = _struct.pack("<H", total) + b"\x00\x00" + MAGIC
    check = total // 128 - 1
    head += bytes([0x55 if check % 2 == 0 else 0xD5, (check // 2 + 0xBA) & 0xFF]) + b"\x2F\x00"
    head += bytes(volume_table)
    head += b"".join(_struct.pack("<H", x) for x in sat)
    assert len(head) == HEADER_SECTORS * SECTOR - 2, len(head)
    body = bytearray(head.ljust(HEADER_SECTORS * SECTOR, b"\x00"))
    for s in range(HEADER_SECTORS, total):
        body += sectors.get(s, bytes(SECTOR))
    return bytes(body)
# ---------------------------------------------------------------------------

# ---- shared demo plumbing --------------------------------------------------
failures = 0
checks = 0


def check(label, a, b):
    global failures, checks
    checks += 1
    if a != b:
        failures += 1
        if failures <= 10:
            print("MISMATCH", label, "\n   live:", repr(a)[:600], "\n   orig:", repr(b)[:600])


def describe_exc(e):
    cause = e.__cause__
    return (
        type(e).__module__ + "." + type(e).__qualname__,
        str(e),
        None if cause is None else (type(cause).__qualname__, str(cause)),
        e.__suppress_context__,
    )


def outcome(f):
    try:
        return ("ok", f())
    except BaseException as e:  # noqa - demo compares every exception
        return ("raise", describe_exc(e))


def snapshot_dir(base):
    found = {}
    for root, dirs, files in os.walk(base):
        dirs.sort()
        rel = os.path.relpath(root, base)
        found[rel + "/"] = None
        for name in sorted(files):
            with open(os.path.join(root, name), "rb") as fh:
                found[os.path.join(rel, name)] = hashlib.sha256(fh.read()).hexdigest()
    return found


def export_image(image_bytes, scratch, tag):
    from smpl_extract.actions import export_samples_to_wav
    from smpl_extract.akai.image import AkaiImageParser
    dest = os.path.join(scratch, tag)
    os.makedirs(dest)
    captured = io.StringIO()
    with contextlib.redirect_stdout(captured):
        result = outcome(lambda: export_samples_to_wav(
            AkaiImageParser(io.BytesIO(image_bytes)), dest))
    return (result, captured.getvalue(), snapshot_dir(dest))


def make_images(rnd):
    """A spread of logical models x allocation layouts x directory styles."""
    def pcm(words):
        return bytes(rnd.getrandbits(8) for _ in range(2 * words))

    images = []
    lengths = [1, 2, 100, 4096 - 70, 4096 - 69, 4096 - 71, 2 * 4096 - 70,
               3 * 4096 - 70, 5000, 9000, 13000]
    for layout in ("contiguous", "ascending", "descending", "random", "mixed"):
        for dir_style in ("chain", "reserved", "scattered"):
            parts = []
            for p in range(rnd.choice([1, 2, 3])):
                volumes = []
                for v in range(rnd.choice([1, 2, 3])):
                    files = []
                    for f in range(rnd.choice([0, 1, 3, 5])):
                        words = rnd.choice(lengths)
                        start = rnd.choice([0, 0, 1, 7, words // 3])
                        end = rnd.choice([words, words, words - 1, max(start, words - 5)])
                        s3000 = rnd.random() < 0.5
                        files.append((
                            "S%d%d%d" % (p, v, f),
                            0xF3 if s3000 else 0x73,
                            sample_file(
                                "S%d" % f, 3 if s3000 else 1,
                                rnd.choice([0, 8000, 22050, 44100, 48000]),
                                pcm(words), start, end
                            )
                        ))
                    if rnd.random() < 0.5:
                        words = rnd.choice(lengths)
                        for side in "LR":
                            files.append((
                                "PAIR -" + side, 0xF3,
                                sample_file("PAIR -" + side, 3, 44100, pcm(words), 0, words)
                            ))
                    volumes.append(("VOL %d%d" % (p, v), rnd.choice([1, 3]), files))
                parts.append(build_partition(rnd, volumes, layout=layout, dir_style=dir_style))
            images.append(((layout, dir_style), b"".join(parts)))
    return images
# ---------------------------------------------------------------------------


class LoggingBytesIO(io.BytesIO):
    def __init__(self, data, log):
        super().__init__(data)
        self.log = log
        self.quiet = False

    def tell(self):
        r = super().tell()
        if not self.quiet:
            self.log.append(("tell", r))
        return r

    def seek(self, *a):
        r = super().seek(*a)
        if not self.quiet:
            self.log.append(("seek", a, r))
        return r

    def read(self, *a):
        r = super().read(*a)
        if not self.quiet:
            self.log.append(("read", a, len(r)))
        return r


_variants = {}


def variant(cls, use_orig):
    """cls itself (live) or a subclass of it whose read() is the original."""
    if not use_orig:
        return cls
    if cls not in _variants:
        _variants[cls] = type("Orig" + cls.__name__, (cls,), {"read": orig_read})
    return _variants[cls]


def state(layers):
    return [(x.position, x.true_size, x.end_of_file) for x in layers]


def make_script(rnd, span, steps):
    script = []
    for _ in range(steps):
        kind = rnd.random()
        if kind < 0.55:
            script.append(("read", rnd.choice([
                0, 1, 2, 3, 4, 7, 8, 16, 100, 255, 256, 257, 4096, 8192, 8193,
                rnd.randrange(0, span + 40), span, span + 1
            ])))
        elif kind < 0.60:
            script.append(("read", rnd.choice([None, -1, -7])))
        elif kind < 0.63:
            script.append(("readall",))
        elif kind < 0.65:
            script.append(("read", rnd.choice([2.0, 2.5, "3", True])))
        elif kind < 0.85:
            whence = rnd.choice([SEEK_SET, SEEK_SET, SEEK_CUR, SEEK_END])
            offset = rnd.randrange(-span - 5, span + 5)
            if whence == SEEK_SET and rnd.random() < 0.8:
                offset = abs(offset)
            script.append(("seek", offset, whence))
        elif kind < 0.90:
            script.append(("tell",))
        elif kind < 0.97:
            script.append(("disturb", rnd.randrange(0, span + 10)))
        else:
            script.append(("poke", rnd.choice(["position", "end_of_file"]),
                           rnd.choice([None, 0, -3, 5, span // 2, span, span + 9])))
    return script


def run_script(top, layers, bottom, log, script):
    trace = []
    for step in script:
        if step[0] == "read":
            r = outcome(lambda: top.read(step[1]))
        elif step[0] == "readall":
            r = outcome(top.readall)
        elif step[0] == "seek":
            r = outcome(lambda: top.seek(step[1], step[2]))
        elif step[0] == "tell":
            r = outcome(top.tell)
        elif step[0] == "disturb":
            bottom.quiet = True
            bottom.seek(step[1], SEEK_SET)
            bottom.quiet = False
            r = None
        else:
            target = layers[-1] if step[1] == "position" else layers[0]
            if step[1] == "position" and step[2] is None:
                r = None
            else:
                setattr(target, step[1], step[2])
                r = None
        trace.append((step, r, state(layers), len(log)))
    return trace, list(log)


def single_layer_sessions():
    rnd = random.Random(1401)
    for case in range(700):
        size = rnd.choice([0, 1, 5, 64, 300, 1000])
        data = bytes(rnd.getrandbits(8) for _ in range(size + rnd.choice([0, 0, 7, 50])))
        kind = rnd.choice(["wrapper", "offset", "reversed", "sector", "file", "segment"])
        eof = rnd.choice([size, size, size, 0, None, -4, size + 9, size // 2])
        position = rnd.choice([0, 0, 0, 3, size, size + 2])
        buffer_length = rnd.choice([0x1000, 1, 7, 64])
        sector = rnd.choice([1, 4, 16, 100])
        sector_list = [rnd.randrange(0, max(1, len(data) // sector)) for _ in range(rnd.choice([0, 1, 3, 8]))]
        width = rnd.choice([1, 2, 3, 4])
        offset = rnd.choice([0, 1, 10, size // 2])
        script = make_script(rnd, max(size, 8), rnd.choice([3, 10, 30]))

        def build(use_orig):
            log = []
            bottom = LoggingBytesIO(data, log)
            if kind == "wrapper":
                top = variant(StreamWrapper, use_orig)(bottom, eof, position, buffer_length)
            elif kind == "offset":
                top = variant(StreamOffset, use_orig)(bottom, eof, offset, position, buffer_length)
            elif kind == "reversed":
                top = variant(StreamReversed, use_orig)(bottom, eof, width, position, buffer_length)
            elif kind == "sector":
                top = variant(SectorStream, use_orig)(bottom, eof, sector, position, buffer_length)
            elif kind == "file":
                top = variant(FileStream, use_orig)(bottom, sector, sector_list, position, buffer_length)
            else:
                big = LoggingBytesIO(data * (1 + 0x2000 * 9 // max(1, len(data))), log)
                bottom = big
                top = variant(Segment, use_orig)(bottom, [x % 8 for x in sector_list], position, buffer_length)
            return top, [top], bottom, log

        live = run_script(*build(False), script)
        orig = run_script(*build(True), script)
        check(("single", kind, case), live, orig)


def nested_sessions():
    """partition StreamOffset -> Segment -> sized StreamWrapper -> sample window"""
    rnd = random.Random(1402)
    for case in range(120):
        sectors = rnd.choice([6, 12])
        data = bytes(rnd.getrandbits(8) for _ in range(0x2000 * sectors + 100))
        start = rnd.choice([0, 50])
        chain = rnd.sample(range(sectors), rnd.choice([1, 2, 3, 5]))
        file_size = rnd.choice([
            0x2000 * len(chain), 0x2000 * len(chain) - 1, 0x2000 * (len(chain) - 1) + 141,
            0x2000 * len(chain) + 300, 200
        ])
        words = max(0, (file_size - 140) // 2)
        play_start = rnd.choice([0, 0, 3, words // 2])
        play_end = rnd.choice([words, words, words - 1, words + 4])
        window = 2 * (play_end - play_start)
        script = make_script(rnd, max(8, abs(window)), rnd.choice([5, 20, 40]))
        script = [s for s in script if s[0] != "poke"]

        def build(use_orig):
            log = []
            bottom = LoggingBytesIO(data, log)
            partition = variant(StreamOffset, use_orig)(bottom, 0x2000 * sectors, start)
            segment = variant(Segment, use_orig)(partition, chain)
            sized = variant(StreamWrapper, use_orig)(segment, file_size)
            # the header parser has consumed 140 bytes before the window is used
            sized.read(140)
            sample = variant(StreamOffset, use_orig)(sized, window, 140 + 2 * play_start)
            return sample, [partition, segment, sized, sample], bottom, log

        live = run_script(*build(False), script)
        orig = run_script(*build(True), script)
        check(("nested", case), live, orig)


def exports(scratch):
    rnd = random.Random(1403)
    exported = 0
    for n, (label, image) in enumerate(make_images(rnd)):
        live = export_image(image, scratch, "live%d" % n)
        saved = StreamWrapper.__dict__["read"]
        StreamWrapper.read = orig_read
        try:
            orig = export_image(image, scratch, "orig%d" % n)
        finally:
            StreamWrapper.read = saved
        check(("export", label), live, orig)
        exported += sum(1 for digest in live[2].values() if digest)
    print("wav files exported per run:", exported)
    check("exports are not vacuous", exported > 40, True)


def main():
    scratch = tempfile.mkdtemp(prefix="r14_demo_")
    try:
        single_layer_sessions()
        nested_sessions()
        exports(scratch)
    finally:
        shutil.rmtree(scratch, ignore_errors=True)
    print("checks:", checks, "failures:", failures)
    return 1 if failures or not checks else 0


if __name__ == "__main__":
    sys.exit(main())
