"""Equivalence demo for r17 (StreamWrapper.seek: whence ladder -> match).

The ORIGINAL StreamWrapper.seek is pasted into a mix-in placed in front of
every view class (plain wrapper, offset window, reversed view, sector stream,
chained file stream, raw-sector MDF view, and nestings).  Twin views (live
class / class with the original seek) over twin logging images are driven
through identical histories of seek(offset, whence) / seek(offset) / tell /
read(n) calls.  whence takes SEEK_SET, SEEK_CUR, SEEK_END, unknown ints,
bools, floats equal to the constants, None, strings and objects with a custom
__eq__.  After every call the demo compares the return value and type, the
exception type and text, position / true_size / end_of_file of the view and
the ordered log of calls made on the underlying image.
Exit 0 = all agree, 1 = mismatch.
"""
import itertools
import random
import sys
from io import BytesIO, SEEK_CUR, SEEK_END, SEEK_SET

from smpl_extract.alcohol.mdf import MdfStream
from smpl_extract.util.fat import FileStream
from smpl_extract.util.sector import SectorStream
from smpl_extract.util.stream import StreamOffset
from smpl_extract.util.stream import StreamReversed
from smpl_extract.util.stream import StreamWrapper


class OrigSeek:
    """Original seek, verbatim."""

    def seek(self, offset: int, whence: int = SEEK_CUR):
        starting_position = 0
        if whence == SEEK_CUR:
            starting_position = self.position
        elif whence == SEEK_END:
            starting_position = self.end_of_file

        new_position = starting_position + offset
        if new_position > self.end_of_file:
            new_position = self.end_of_file
        elif new_position < 0:
            new_position = 0

        self.true_size = 0
        self._seek(new_position)
        self.position = new_position
        return new_position


class OWrapper(OrigSeek, StreamWrapper): ...
class OOffset(OrigSeek, StreamOffset): ...
class OReversed(OrigSeek, StreamReversed): ...
class OSector(OrigSeek, SectorStream): ...
class OFile(OrigSeek, FileStream): ...
class OMdf(OrigSeek, MdfStream): ...


LIVE = dict(w=StreamWrapper, o=StreamOffset, r=StreamReversed,
            s=SectorStream, f=FileStream, m=MdfStream)
ORIG = dict(w=OWrapper, o=OOffset, r=OReversed,
            s=OSector, f=OFile, m=OMdf)


class Image(BytesIO):
    """BytesIO that logs every call made on it."""

    def __init__(self, data):
        super().__init__(data)
        self.log = []

    def tell(self):
        r = super().tell()
        self.log.append(("tell", r))
        return r

    def seek(self, *a):
        r = super().seek(*a)
        self.log.append(("seek", a, r))
        return r

    def read(self, *a):
        r = super().read(*a)
        self.log.append(("read", a, r))
        return r


class EqTo:
    """whence object that claims equality with a given set of values."""

    def __init__(self, *values):
        self.values = values
        self.asked = []

    def __eq__(self, other):
        self.asked.append(other)
        return other in self.values

    __hash__ = None

    def __repr__(self):
        return f"EqTo{self.values}"


def call(fn, *a):
    try:
        r = fn(*a)
        return ("ok", type(r).__name__, r)
    except Exception as e:  # noqa: BLE001
        return ("exc", type(e).__name__, str(e))


def state(v):
    out = []
    while isinstance(v, StreamWrapper):
        out.append((v.position, v.true_size, v.end_of_file))
        v = v.substream
    return out


def image_of(v):
    while isinstance(v, StreamWrapper):
        v = v.substream
    return v


def build(classes, spec, data):
    """spec: list of (kind, params) from the innermost layer outwards."""
    stream = Image(data)
    for kind, params in spec:
        stream = classes[kind](stream, **params)
    return stream


WHENCES = [
    SEEK_SET, SEEK_CUR, SEEK_END, 3, -1, 7, True, False, 1.0, 2.0, 0.0,
    None, "1", 1 + 0j,
]

failures = 0
checks = 0


def compare(tag, spec, data, history):
    global failures, checks
    a = build(LIVE, spec, data)
    b = build(ORIG, spec, data)
    for step, (op, args) in enumerate(history):
        args_a = args
        args_b = args
        if op == "seek" and len(args) == 2 and isinstance(args[1], tuple):
            # custom-__eq__ whence: one fresh object per twin
            args_a = (args[0], EqTo(*args[1]))
            args_b = (args[0], EqTo(*args[1]))
        ra = call(getattr(a, op), *args_a)
        rb = call(getattr(b, op), *args_b)
        checks += 1
        same = (ra == rb and state(a) == state(b)
                and image_of(a).log == image_of(b).log)
        if same and args_a is not args_b:
            same = args_a[1].asked == args_b[1].asked
        if not same:
            failures += 1
            if failures <= 10:
                print("MISMATCH", tag, spec, "step", step, op, args)
                print("  live:", ra, state(a))
                print("  orig:", rb, state(b))
            return


def specs_for(rng, n):
    """A bunch of layerings over an n-byte image."""
    out = []
    out.append([("w", dict(size=n))])
    out.append([("w", dict(size=0))])
    out.append([("w", dict(size=n, position=min(3, n)))])
    for off in (0, 1, n // 2):
        out.append([("o", dict(size=max(n - off - 1, 0), offset=off))])
    for sw in (1, 2, 3, 4):
        out.append([("r", dict(size=(n // sw) * sw, sample_width=sw))])
    for sl in (1, 2, 3, 5, 8):
        out.append([("s", dict(size=(n // sl) * sl, sector_length=sl))])
        out.append([("s", dict(size=n, sector_length=sl))])
        cnt = n // sl
        chain = list(range(cnt))
        rng.shuffle(chain)
        out.append([("f", dict(sector_size=sl, sector_list=chain))])
        out.append([("f", dict(sector_size=sl, sector_list=chain[: cnt // 2]))])
        # nestings
        out.append([
            ("o", dict(size=max(n - 2, 0), offset=1)),
            ("s", dict(size=max(n - 2, 0), sector_length=sl)),
        ])
        out.append([
            ("f", dict(sector_size=sl, sector_list=chain)),
            ("o", dict(size=max(cnt * sl - 1, 0), offset=1)),
        ])
        out.append([
            ("f", dict(sector_size=sl, sector_list=chain)),
            ("r", dict(size=((cnt * sl) // 2) * 2, sample_width=2)),
            ("o", dict(size=max(((cnt * sl) // 2) * 2 - 2, 0), offset=2)),
        ])
        out.append([
            ("o", dict(size=n, offset=0)),
            ("f", dict(sector_size=sl, sector_list=chain)),
            ("o", dict(size=max(cnt * sl - 1, 0), offset=1)),
            ("r", dict(size=max(cnt * sl - 1, 0), sample_width=1)),
        ])
    return out


def main():
    rng = random.Random(1717)

    # 1. exhaustive short histories on tiny views
    tiny_ops = []
    for off in (-2, -1, 0, 1, 2, 5):
        for wh in (SEEK_SET, SEEK_CUR, SEEK_END, 3):
            tiny_ops.append(("seek", (off, wh)))
        tiny_ops.append(("seek", (off,)))
    tiny_ops += [("read", (0,)), ("read", (1,)), ("read", (3,)), ("tell", ())]
    data = bytes(range(1, 7))
    tiny_specs = [
        [("w", dict(size=6))],
        [("o", dict(size=4, offset=1))],
        [("r", dict(size=6, sample_width=2))],
        [("s", dict(size=6, sector_length=2))],
        [("f", dict(sector_size=2, sector_list=[2, 0, 1]))],
        [("f", dict(sector_size=2, sector_list=[2, 0, 1])),
         ("o", dict(size=4, offset=1))],
    ]
    for spec in tiny_specs:
        for history in itertools.product(tiny_ops, repeat=2):
            compare("tiny2", spec, data, history)
    for spec in tiny_specs[:3]:
        sub = tiny_ops[::3]
        for history in itertools.product(sub, repeat=3):
            compare("tiny3", spec, data, history)

    # 2. every exotic whence on every view, after a warm-up move
    for n in (0, 1, 12, 40):
        data = bytes(rng.randrange(256) for _ in range(n))
        for spec in specs_for(rng, n):
            for wh in WHENCES + [(), (1,), (2,), (1, 2), (0,), (SEEK_END, 5)]:
                for off in (-100, -3, -1, 0, 1, 2, 7, 100):
                    compare("whence", spec, data, [
                        ("seek", (2, SEEK_SET)),
                        ("seek", (off, wh)),
                        ("tell", ()),
                        ("read", (2,)),
                        ("seek", (off, wh)),
                    ])
            # odd offsets
            for off in (1.5, True, None, "x"):
                for wh in (SEEK_SET, SEEK_CUR, SEEK_END, 9):
                    compare("oddoff", spec, data, [
                        ("seek", (off, wh)), ("tell", ()),
                    ])

    # 3. raw-sector MDF view
    for sectors in (0, 1, 3):
        data = bytes(rng.randrange(256) for _ in range(sectors * 2352 + 17))
        spec = [("m", dict())]
        for _ in range(40):
            history = []
            for _ in range(12):
                k = rng.random()
                if k < 0.6:
                    history.append(("seek", (
                        rng.choice([-5000, -2049, -2048, -1, 0, 1, 2047,
                                    2048, 2049, 4096, 9999]),
                        rng.choice(WHENCES))))
                elif k < 0.7:
                    history.append(("seek", (rng.randrange(-3000, 3000),)))
                elif k < 0.9:
                    history.append(("read", (rng.choice([0, 1, 100, 2048, 2049, 5000]),)))
                else:
                    history.append(("tell", ()))
            compare("mdf", spec, data, history)

    # 4. long random histories over random views
    for _ in range(150):
        n = rng.randrange(0, 64)
        data = bytes(rng.randrange(256) for _ in range(n))
        for spec in rng.sample(specs_for(rng, n), 6):
            history = []
            for _ in range(40):
                k = rng.random()
                if k < 0.5:
                    history.append(("seek", (rng.randrange(-n - 3, n + 4),
                                             rng.choice(WHENCES))))
                elif k < 0.6:
                    history.append(("seek", (rng.randrange(-n - 3, n + 4),)))
                elif k < 0.9:
                    history.append(("read", (rng.randrange(0, n + 3),)))
                else:
                    history.append(("tell", ()))
            compare("random", spec, data, history)

    print(f"{checks} calls compared, {failures} mismatching histories")
    return 1 if failures else 0


if __name__ == "__main__":
    sys.exit(main())
