"""Equivalence demo for the `partition_stream` declaration of
PartitionHeaderConstruct / PartitionParser (smpl_extract/akai/partition.py).

An inline, verbatim copy of the ORIGINAL PartitionHeaderConstruct and
PartitionParser declarations (same adapters, same sub-constructs, compiled the
same way) is compared with the live ones:

 1. structure of the declarations (field names, construct types, sizeof, the
    arguments held by the SubStreamConstruct);
 2. header parsing at many offsets of good and damaged headers: parsed fields,
    exceptions, the type and state of the partition window and the sequence of
    calls on the handle;
 3. whole generated AKAI images (2-3 partitions, fragmented sample files with
    valid S1000 sample headers) read through ONE traced handle: lazy partition /
    volume / sample realisation, block reads and seeks on the sample streams
    under exhaustive (2-3 streams x few blocks) and random schedules - results,
    exceptions and the complete seek/read/tell trace of the handle must agree,
    every stream must yield the bytes of an isolated sequential read and the
    bytes computed straight from the image;
 4. a stereo export (make_transcoder over a left and a right sample of one
    image) must produce the same frames as computed from the image.
Exit 0 when everything agrees, 1 otherwise.
"""
import io
import itertools
import random
import sys
from io import SEEK_CUR, SEEK_END, SEEK_SET

import numpy as np
from construct.core import Bytes
from construct.core import Computed
from construct.core import Const
from construct.core import ConstructError
from construct.core import Int8ul
from construct.core import Int16ul
from construct.core import Lazy
from construct.core import Rebuild
from construct.core import Struct
from construct.core import Tell
from construct.expr import this

import smpl_extract.akai.partition as live_module
from smpl_extract.akai.data_types import AKAI_PARTITION_MAGIC
from smpl_extract.akai.data_types import AKAI_SAT_ENTRY_CNT
from smpl_extract.akai.data_types import AKAI_SAT_EOF_FLAG
from smpl_extract.akai.data_types import AKAI_SAT_RESERVED_FLAG_STD
from smpl_extract.akai.data_types import AKAI_SECTOR_SIZE
from smpl_extract.akai.data_types import AKAI_VOLUME_ENTRY_CNT
from smpl_extract.akai.image import AkaiImageParser
from smpl_extract.akai.partition import InvalidPartition
from smpl_extract.akai.partition import PartitionAdapter
from smpl_extract.akai.sat import SegmentAllocationTableAdapter
from smpl_extract.akai.volume import VolumeEntryConstruct
from smpl_extract.akai.volume import VolumesAdapter
from smpl_extract.data_streams import Endianess
from smpl_extract.data_streams import StreamEncoding
from smpl_extract.transcoder import make_transcoder
from smpl_extract.util.stream import StreamOffset
from smpl_extract.util.stream import SubStreamConstruct

LivePartitionHeaderConstruct = live_module.PartitionHeaderConstruct
LivePartitionParser = live_module.PartitionParser


# --- verbatim copy of the original declarations -----------------------------
PartitionHeaderConstruct = Struct(
    "start_address" / Tell,
    "size" / Int16ul,
    "total_size" / Computed(this.size * AKAI_SECTOR_SIZE),
    "check_sum_x" / Computed(this.size//128 - 1),
    "partition_stream" / SubStreamConstruct(
        StreamOffset,
        size=this.total_size,
        offset=this.start_address
    ),
    Const(b"\x00\x00"),
    Const(AKAI_PARTITION_MAGIC),
    Rebuild(Int8ul, lambda this: 0x55 if this.check_sum_x % 2 == 0 else 0xD5),
    Rebuild(Int8ul, lambda this: this.check_sum_x//2 + 0xBA),
    Const(b"\x2F\x00"),
)


PartitionParser = PartitionAdapter(
    Struct(
        "header" / PartitionHeaderConstruct,
        "volume_entries" / VolumeEntryConstruct[AKAI_VOLUME_ENTRY_CNT],
        "sat" / SegmentAllocationTableAdapter(
            this.header.partition_stream,
            Int16ul[AKAI_SAT_ENTRY_CNT]  # type: ignore
        ),
        "volumes" / Lazy(VolumesAdapter(
            this.volume_entries,
            this.sat,  # type: ignore
            Lazy(Bytes(  # type: ignore
            lambda this: this.header.total_size \
                - PartitionHeaderConstruct.sizeof() \
                - VolumeEntryConstruct[AKAI_VOLUME_ENTRY_CNT].sizeof() \
                - Int16ul[AKAI_SAT_ENTRY_CNT].sizeof()
            )),
        ))
    )
).compile()
# -----------------------------------------------------------------------------
OrigPartitionHeaderConstruct = PartitionHeaderConstruct
OrigPartitionParser = PartitionParser


class TraceIO(io.BytesIO):
    def __init__(self, data):
        super().__init__(data)
        self.trace = []

    def seek(self, off, whence=0):
        r = super().seek(off, whence)
        self.trace.append(("seek", off, whence, r))
        return r

    def tell(self):
        r = super().tell()
        self.trace.append(("tell", r))
        return r

    def read(self, size=-1):
        r = super().read(size)
        self.trace.append(("read", size, len(r)))
        return r


FAILURES = []
CHECKS = 0


def check(cond, what):
    global CHECKS
    CHECKS += 1
    if not cond:
        FAILURES.append(what)
        if len(FAILURES) <= 15:
            print("MISMATCH:", repr(what)[:600])


def outcome(f, *a, **k):
    try:
        return ("ok", f(*a, **k))
    except BaseException as e:  # noqa: BLE001 - we compare whatever is raised
        return ("exc", type(e).__name__, str(e)[:120])


# ---------------------------------------------------------------------------
# image generator
# ---------------------------------------------------------------------------
HDR = LivePartitionHeaderConstruct.sizeof()
VOL = VolumeEntryConstruct[AKAI_VOLUME_ENTRY_CNT].sizeof()
SAT = Int16ul[AKAI_SAT_ENTRY_CNT].sizeof()
RESERVED = -(-(HDR + VOL + SAT) // AKAI_SECTOR_SIZE)
SAMPLE_HEADER_SIZE = 140


def akai_name(text):
    out = []
    for ch in text.ljust(12):
        if ch.isdigit():
            out.append(ord(ch) - 48)
        elif ch == " ":
            out.append(10)
        else:
            out.append(ord(ch) - 65 + 11)
    return bytes(out)


def header_bytes(n_sectors):
    x = n_sectors // 128 - 1
    return (n_sectors.to_bytes(2, "little") + b"\x00\x00" + AKAI_PARTITION_MAGIC
            + bytes([0x55 if x % 2 == 0 else 0xD5, (x // 2 + 0xBA) & 0xFF]) + b"\x2F\x00")


def sample_header(name, n_samples):
    loops = bytes(12) * 8
    head = (bytes([0x01, 0x00, 60]) + akai_name(name) + bytes(4) + bytes([0x02, 0, 0]) + bytes(4)
            + n_samples.to_bytes(4, "little") + (0).to_bytes(4, "little")
            + n_samples.to_bytes(4, "little") + loops + bytes(4) + (44100).to_bytes(2, "little"))
    assert len(head) == SAMPLE_HEADER_SIZE
    return head


def make_partition(rnd, n_sectors, n_files, tag):
    sat = [0] * AKAI_SAT_ENTRY_CNT
    for i in range(RESERVED):
        sat[i] = AKAI_SAT_RESERVED_FLAG_STD
    vol_sector = RESERVED
    sat[vol_sector] = AKAI_SAT_EOF_FLAG
    free = list(range(RESERVED + 1, n_sectors))
    body = bytearray(rnd.getrandbits(8) for _ in range(n_sectors * AKAI_SECTOR_SIZE))
    files = []
    for f in range(n_files):
        length = rnd.randrange(1, 4)
        if len(free) < length:
            break
        start = free.pop(0)
        rest = rnd.sample(free, length - 1)
        for r in rest:
            free.remove(r)
        chain = [start] + rest
        for a, b in zip(chain, chain[1:]):
            sat[a] = b
        sat[chain[-1]] = AKAI_SAT_EOF_FLAG
        capacity = (AKAI_SECTOR_SIZE * length - SAMPLE_HEADER_SIZE) // 2
        n_samples = capacity - rnd.randrange(0, 700)
        name = "%s%d" % (tag, f)
        head = sample_header(name, n_samples)
        first = chain[0] * AKAI_SECTOR_SIZE
        body[first:first + len(head)] = head
        files.append({"name": name, "chain": chain, "n_samples": n_samples,
                      "size": SAMPLE_HEADER_SIZE + 2 * n_samples})
    head = header_bytes(n_sectors)
    vols = akai_name("VOL" + tag) + (1).to_bytes(2, "little") + vol_sector.to_bytes(2, "little")
    vols += (akai_name("") + bytes(4)) * (AKAI_VOLUME_ENTRY_CNT - 1)
    front = head + vols + b"".join(v.to_bytes(2, "little") for v in sat)
    body[:len(front)] = front
    directory = b""
    for f in files:
        directory += (akai_name(f["name"]) + bytes(4) + bytes([0x73])
                      + f["size"].to_bytes(3, "little") + f["chain"][0].to_bytes(2, "little") + bytes(2))
    directory = directory.ljust(AKAI_SECTOR_SIZE, b"\x00")
    body[vol_sector * AKAI_SECTOR_SIZE:(vol_sector + 1) * AKAI_SECTOR_SIZE] = directory
    body = bytes(body)
    for f in files:
        content = b"".join(body[s * AKAI_SECTOR_SIZE:(s + 1) * AKAI_SECTOR_SIZE] for s in f["chain"])
        f["truth"] = content[SAMPLE_HEADER_SIZE:SAMPLE_HEADER_SIZE + 2 * f["n_samples"]]
    return body, files


def make_image(seed, shape):
    rnd = random.Random(seed)
    data = b""
    layout = []
    for index, (n_sectors, n_files) in enumerate(shape):
        body, files = make_partition(rnd, n_sectors, n_files, "ABC"[index])
        data += body
        layout.append(files)
    return data, layout


# ---------------------------------------------------------------------------
# 1. structure of the declarations
# ---------------------------------------------------------------------------
def describe(construct, depth=0):
    inner = getattr(construct, "subcons", None)
    out = [(depth, type(construct).__name__, getattr(construct, "name", None))]
    if inner:
        for sc in inner:
            out += describe(sc, depth + 1)
    elif hasattr(construct, "subcon") and depth < 8:
        out += describe(construct.subcon, depth + 1)
    return out


def structure():
    check(describe(OrigPartitionHeaderConstruct) == describe(LivePartitionHeaderConstruct), "header-structure")
    check(OrigPartitionHeaderConstruct.sizeof() == LivePartitionHeaderConstruct.sizeof() == HDR, "header-sizeof")
    a = OrigPartitionHeaderConstruct.partition_stream.subcon
    b = LivePartitionHeaderConstruct.partition_stream.subcon
    check(type(a) is type(b) is SubStreamConstruct, "window-type")
    check(a.substream_class is b.substream_class is StreamOffset, "window-class")
    check(a.args == b.args == (), "window-args")
    check(list(a.kwargs) == list(b.kwargs) == ["size", "offset"], "window-kwargs")
    check(repr(a.kwargs) == repr(b.kwargs), "window-kwargs-repr")
    check(a.flagbuildnone == b.flagbuildnone, "window-flag")


# ---------------------------------------------------------------------------
# 2. header parsing
# ---------------------------------------------------------------------------
def window_state(w):
    d = dict(w.__dict__)
    d.pop("substream")
    return (type(w).__name__, sorted(d.items()))


def parse_header(construct, data, at):
    handle = TraceIO(data)
    handle.seek(at, SEEK_SET)

    def run():
        c = construct.parse_stream(handle)
        keys = [k for k in c.keys() if not k.startswith("_")]
        w = c.partition_stream
        first = w.read(5)
        w.seek(-3, SEEK_END)
        last = w.read(10)
        return (keys, c.start_address, c.size, c.total_size, c.check_sum_x,
                w.substream is handle, window_state(w), first, last)
    return outcome(run), handle.trace


def headers():
    rnd = random.Random(4)
    for trial in range(300):
        n_sectors = rnd.choice((0, 1, 2, 5, 127, 128, 129, 256, 600, 0xFFFF, rnd.randrange(0x10000)))
        lead = rnd.choice((0, 0, 1, 7, 512, AKAI_SECTOR_SIZE))
        raw = bytearray(header_bytes(n_sectors))
        damage = rnd.random()
        if damage < 0.15:
            raw[rnd.randrange(len(raw))] ^= 1 << rnd.randrange(8)
        elif damage < 0.25:
            raw = raw[:rnd.randrange(len(raw))]
        data = bytes(rnd.getrandbits(8) for _ in range(lead)) + bytes(raw) \
            + bytes(rnd.getrandbits(8) for _ in range(rnd.choice((0, 3, 64, 5000))))
        a = parse_header(OrigPartitionHeaderConstruct, data, lead)
        b = parse_header(LivePartitionHeaderConstruct, data, lead)
        check(a == b, ("header", trial, n_sectors, lead, a[0], b[0]))


# ---------------------------------------------------------------------------
# 3. whole images through one handle
# ---------------------------------------------------------------------------
class Reader:
    """Drives one parser over one traced handle, realising things lazily."""

    def __init__(self, parser, data):
        self.parser = parser
        self.handle = TraceIO(data)
        self.image = AkaiImageParser(self.handle)
        self.image.set_routines({})
        self.partitions = None
        self.streams = {}

    def load_partitions(self):
        # same loop as AkaiImageParser._load_partitions, parser made explicit
        if self.partitions is not None:
            return len(self.partitions)
        file = self.handle
        partitions = []
        while file.tell() < self.image.file_size:
            name = chr(ord("A") + len(partitions))
            try:
                partition = self.parser.parse_stream(
                    file,
                    _elem_name=name,
                    _elem_parent=self.image,
                    _elem_routines=self.image._routines
                )
            except (InvalidPartition, ConstructError):
                break
            partitions.append(partition)
        self.partitions = partitions
        return len(partitions)

    def volume(self, p):
        self.load_partitions()
        volumes = self.partitions[p].volumes
        return [(v.name, int(v.volume_type), [(e.name, int(e.file_type)) for e in v.file_entries])
                for v in volumes]

    def stream(self, p, k):
        if (p, k) not in self.streams:
            self.load_partitions()
            entry = self.partitions[p].volumes[0].file_entries[k]
            sample = entry.file
            generalized = sample.to_generalized()
            self.streams[(p, k)] = generalized.data_streams[0]
        return self.streams[(p, k)].stream

    def window_is_shared(self):
        self.load_partitions()
        out = []
        for partition in self.partitions:
            table = partition._f_sat
            window = table.parent_stream
            out.append((window.substream is self.handle, window_state(window),
                        table.get_segment(RESERVED).substream is window))
        return out

    def run(self, schedule):
        log = []
        for op in schedule:
            kind = op[0]
            if kind == "partitions":
                log.append(outcome(self.load_partitions))
            elif kind == "volume":
                log.append(outcome(self.volume, op[1]))
            elif kind == "read":
                log.append(outcome(lambda: self.stream(op[1], op[2]).read(op[3])))
            elif kind == "seek":
                log.append(outcome(lambda: self.stream(op[1], op[2]).seek(op[3], op[4])))
            elif kind == "tell":
                log.append(outcome(lambda: self.stream(op[1], op[2]).tell()))
            elif kind == "windows":
                log.append(outcome(self.window_is_shared))
        return log


def both(data, schedule):
    a = Reader(OrigPartitionParser, data)
    b = Reader(LivePartitionParser, data)
    la, lb = a.run(schedule), b.run(schedule)
    return la, a.handle.trace, lb, b.handle.trace


BLOCK = 0x1000


def isolated(parser, data, p, k):
    reader = Reader(parser, data)
    stream = reader.stream(p, k)
    out = []
    while True:
        chunk = stream.read(BLOCK)
        if not chunk:
            break
        out.append(chunk)
    return out


def images():
    shape = ((14, 4), (11, 3), (12, 3))
    data, layout = make_image(21, shape)
    keys = [(p, k) for p, files in enumerate(layout) for k in range(len(files))]
    check(len(keys) >= 8, ("layout", keys))

    # basic agreement: partitions, directories, shared windows
    la, ta, lb, tb = both(data, [("partitions",), ("windows",), ("volume", 0), ("volume", 2),
                                 ("volume", 1), ("windows",)])
    check(la == lb, ("basic-results", la, lb))
    check(ta == tb, "basic-trace")
    check(la[0] == ("ok", 3), ("three partitions", la[0]))
    check(all(shared and seg for shared, _state, seg in la[1][1]), ("windows shared", la[1]))
    for p, files in enumerate(layout):
        names = [f["name"] for f in files]
        got = [n for n, _t in la[2 + (0, 2, 1).index(p)][1][0][2]]
        check(got == names, ("directory", p, got, names))

    # isolated reads: orig == live == truth
    alone = {}
    for p, k in keys:
        a = isolated(OrigPartitionParser, data, p, k)
        b = isolated(LivePartitionParser, data, p, k)
        check(a == b, ("isolated", p, k))
        check(b"".join(b) == layout[p][k]["truth"], ("truth", p, k))
        alone[(p, k)] = b + [b""] * 50

    def verify(label, schedule):
        la, ta, lb, tb = both(data, schedule)
        check(la == lb, (label, "results", schedule))
        check(ta == tb, (label, "trace", schedule))
        seen = {}
        for op, res in zip(schedule, lb):
            if op[0] == "read":
                seen.setdefault((op[1], op[2]), []).append(res[1] if res[0] == "ok" else res)
        for key, chunks in seen.items():
            check(chunks == alone[key][:len(chunks)], (label, "isolation", key, schedule))

    # exhaustive: 2 streams x 3 blocks, 3 streams x 2 blocks, with directory
    # realisations of the other partitions happening in between
    groups = (
        (((0, 1), (0, 2)), 3),          # two files of one partition
        (((0, 1), (1, 0)), 3),          # files of two partitions
        (((0, 0), (1, 2), (2, 1)), 2),  # three partitions
    )
    for members, blocks in groups:
        base = [m for m in members for _ in range(blocks)]
        for n, order in enumerate(sorted(set(itertools.permutations(base)))):
            schedule = []
            for step, (p, k) in enumerate(order):
                schedule.append(("read", p, k, BLOCK))
                if (n + step) % 3 == 0:
                    schedule.append(("volume", (p + 1 + step) % 3))
            verify("exhaustive", schedule)

    # random schedules over all streams: reads of several sizes, seeks, tells
    rnd = random.Random(77)
    for trial in range(40):
        schedule = []
        moved = set()
        for _ in range(rnd.randrange(10, 60)):
            p, k = rnd.choice(keys)
            r = rnd.random()
            if r < 0.7:
                schedule.append(("read", p, k, BLOCK))
            elif r < 0.8:
                schedule.append(("volume", rnd.randrange(3)))
            elif r < 0.85:
                schedule.append(("tell", p, k))
            elif r < 0.9:
                schedule.append(("windows",))
            else:
                schedule.append(("partitions",))
        verify("random", schedule)

    for trial in range(40):
        schedule = []
        for _ in range(rnd.randrange(10, 50)):
            p, k = rnd.choice(keys)
            r = rnd.random()
            if r < 0.6:
                schedule.append(("read", p, k, rnd.choice((0, 1, 2, 100, 0x800, BLOCK, 0x2000, 0x2345, -1))))
            elif r < 0.9:
                schedule.append(("seek", p, k, rnd.randrange(-50, 3 * AKAI_SECTOR_SIZE),
                                 rnd.choice((SEEK_SET, SEEK_CUR, SEEK_END))))
            else:
                schedule.append(("volume", rnd.randrange(3)))
        la, ta, lb, tb = both(data, schedule)
        check(la == lb, ("random-seek results", trial))
        check(ta == tb, ("random-seek trace", trial))

    # damaged second partition: loading stops at the same place
    broken = bytearray(data)
    broken[14 * AKAI_SECTOR_SIZE + 40] ^= 0xFF
    la, ta, lb, tb = both(bytes(broken), [("partitions",), ("volume", 0), ("volume", 1),
                                          ("read", 0, 1, BLOCK), ("read", 1, 0, BLOCK)])
    check(la == lb and ta == tb, ("broken", la, lb))
    check(la[0] == ("ok", 1), ("broken stops", la[0]))
    truncated = data[:14 * AKAI_SECTOR_SIZE + 9000]
    la, ta, lb, tb = both(truncated, [("partitions",), ("volume", 0), ("read", 0, 3, BLOCK)])
    check(la == lb and ta == tb, ("truncated", la, lb))
    return data, layout


# ---------------------------------------------------------------------------
# 4. stereo export of two samples sharing the handle
# ---------------------------------------------------------------------------
def stereo(data, layout):
    dest = StreamEncoding(endianess=Endianess.LITTLE, sample_width=2, num_interleaved_channels=2)
    for left, right in (((0, 1), (0, 2)), ((0, 0), (2, 1)), ((1, 2), (1, 0))):
        frames = []
        for parser in (OrigPartitionParser, LivePartitionParser):
            reader = Reader(parser, data)
            reader.stream(*left)
            reader.stream(*right)
            pair = [reader.streams[left], reader.streams[right]]
            transcoder = make_transcoder(pair, dest)
            frames.append((b"".join(transcoder), reader.handle.trace))
        check(frames[0] == frames[1], ("stereo", left, right))
        l = np.frombuffer(layout[left[0]][left[1]]["truth"], "<i2")
        r = np.frombuffer(layout[right[0]][right[1]]["truth"], "<i2")
        got = np.frombuffer(frames[1][0], "<i2").reshape((-1, 2))
        n_full = min(len(l), len(r)) // (BLOCK // 2) * (BLOCK // 2)
        check(len(got) >= n_full, ("stereo-length", len(got), n_full))
        check(bytes(got[:n_full, 0].tobytes()) == l[:n_full].tobytes(), ("stereo-left", left))
        check(bytes(got[:n_full, 1].tobytes()) == r[:n_full].tobytes(), ("stereo-right", right))


def main():
    structure()
    headers()
    data, layout = images()
    stereo(data, layout)
    print(f"{CHECKS} checks, {len(FAILURES)} mismatches")
    return 1 if FAILURES else 0


if __name__ == "__main__":
    sys.exit(main())
