"""Equivalence demo for r17: smpl_extract/roland/s7xx/fat.py, FatAreaStruct
(the construct declaration that turns the FAT area into the `fat_entries`
words, the metadata words and the `fat_data_stream` consumed by
FatAreaAdapter._decode - mechanism 'FAT words -> cluster links').

Refactoring (declaration re-spelling only):
  * `Int16ul[FAT_NUM_ENTRIES]`            -> `Array(FAT_NUM_ENTRIES, Int16ul)`
  * `Struct(<5 inline fields>)`           -> `Struct(*_FAT_METADATA_FIELDS)`
  * `lambda this: this.stream_size-DATA_FAT_OFFSET`
                                          -> `this.stream_size - DATA_FAT_OFFSET`

An inline copy of the ORIGINAL declaration is compared with the working-tree
one:
  (1) parsed values (fat_entries, metadata, stream_size, fat_data_stream
      class / offset / size / position / substream identity, bytes read through
      it) for random FAT areas in streams of many sizes and start offsets,
  (2) the exact sequence of seek/tell/read calls made on the shared stream,
  (3) exception type + message for truncated streams,
  (4) the FatArea built by FatAreaAdapter on top of each declaration (version,
      num_remaining_clusters, every sector link, bytes of files obtained with
      get_file),
  (5) shape of the declaration (member names, classes, counts, sizeof).
Exit 0 when everything agrees, 1 otherwise.
"""
import io
import random
import struct
import sys

from construct.core import Int16ul
from construct.core import Padding
from construct.core import Struct
from construct.core import Union

from smpl_extract.roland.s7xx import fat as live
from smpl_extract.roland.s7xx.data_types import DATA_FAT_OFFSET
from smpl_extract.roland.s7xx.data_types import FAT_AREA_ID
from smpl_extract.roland.s7xx.data_types import FAT_NUM_ENTRIES
from smpl_extract.roland.s7xx.data_types import ROLAND_CLUSTER_SIZE
from smpl_extract.util.stream import StreamOffset
from smpl_extract.util.stream import StreamSizeConstruct
from smpl_extract.util.stream import SubStreamConstruct


# ---------------------------------------------------------------- original --
OriginalFatAreaStruct = Union(
    0,
    "fat_entries" / Int16ul[FAT_NUM_ENTRIES],
    "metadata" / Struct(
        "fat_id" / Int16ul,
        "num_unused_clusters" / Int16ul,
        Padding(2 * (FAT_NUM_ENTRIES-4)),
        "version_flag_1" / Int16ul,
        "version_flag_2" / Int16ul
    ),
    "stream_size" / StreamSizeConstruct,
    "fat_data_stream"  / SubStreamConstruct(
        StreamOffset,
        size=(lambda this: this.stream_size-DATA_FAT_OFFSET),
        offset=DATA_FAT_OFFSET
    ),
)
# -----------------------------------------------------------------------------

FAT_BYTES = 2 * FAT_NUM_ENTRIES
failures = []


def check(cond, what):
    if not cond:
        failures.append(what)
        print("MISMATCH:", what)


class Recorder(io.BytesIO):
    """BytesIO that logs every call made on it."""

    def __init__(self, data):
        super().__init__(data)
        self.log = []

    def seek(self, *a):
        r = super().seek(*a)
        self.log.append(("seek", a, r))
        return r

    def tell(self):
        r = super().tell()
        self.log.append(("tell", r))
        return r

    def read(self, *a):
        r = super().read(*a)
        self.log.append(("read", a, len(r)))
        return r


def make_fat_words(rng, kind):
    words = [0] * FAT_NUM_ENTRIES
    if kind == "random":
        words = [rng.randrange(0x10000) for _ in range(FAT_NUM_ENTRIES)]
    elif kind == "chains":
        # a handful of well-formed chains in shuffled cluster order
        free = list(range(2, 400))
        rng.shuffle(free)
        while len(free) > 12:
            n = rng.randrange(1, 12)
            chain, free = free[:n], free[n:]
            for a, b in zip(chain, chain[1:]):
                words[a] = b
            words[chain[-1]] = 0xfff8 + rng.randrange(8)
    words[0] = FAT_AREA_ID if kind != "badid" else 0x1234
    words[1] = rng.randrange(0x10000)
    words[-2] = rng.choice([0xffff, 0xfffe, 0xfffd, 0x0000])
    words[-1] = rng.choice([0xffff, 0xfffe])
    return words


def summarize(container, stream):
    sub = container.fat_data_stream
    meta = {k: v for k, v in container.metadata.items() if not k.startswith("_")}
    out = {
        "keys": [k for k in container.keys() if not k.startswith("_")],
        "fat_entries": list(container.fat_entries),
        "fat_entries_type": type(container.fat_entries).__name__,
        "metadata": meta,
        "metadata_keys": list(meta.keys()),
        "stream_size": container.stream_size,
        "sub_class": type(sub).__name__,
        "sub_offset": sub.offset,
        "sub_size": sub.end_of_file,
        "sub_pos": sub.position,
        "sub_buf": sub.buffer_length,
        "sub_is_stream": sub.substream is stream,
    }
    reads = []
    for pos, size in ((0, 16), (5, 100), (ROLAND_CLUSTER_SIZE * 2, 64), (10 ** 7, 8)):
        try:
            sub.seek(pos, io.SEEK_SET)
            reads.append(sub.read(size))
        except Exception as e:  # noqa: BLE001
            reads.append((type(e).__name__, str(e)))
    out["reads"] = reads
    return out


def run(construct, data, start):
    stream = Recorder(data)
    stream.seek(start)
    stream.log.clear()
    try:
        container = construct._parsereport(stream, live_context(), "(demo)")
    except Exception as e:  # noqa: BLE001
        return ("exc", type(e).__name__, str(e), list(stream.log), stream.tell())
    log = list(stream.log)
    after = io.BytesIO.tell(stream)
    return ("ok", summarize(container, stream), log, after)


def live_context():
    from construct.lib.containers import Container
    return Container(_parsing=True, _building=False, _sizing=False, _params=Container())


def run_adapter(struct_decl, data, start):
    parser = live.FatAreaAdapter(struct_decl)
    stream = io.BytesIO(data)
    stream.seek(start)
    try:
        area = parser.parse_stream(stream)
    except Exception as e:  # noqa: BLE001
        return ("exc", type(e).__name__, str(e))
    links = [(l.next, l.end) for l in area.fat.sector_links]
    files = []
    for index in (2, 3, 10, 57, 399):
        for top in (0, 1, 3):
            try:
                f = area.fat.get_file(index, cluster_offset=top)
                files.append((list(f.sector_list), f.end_of_file, f.read(64)))
            except Exception as e:  # noqa: BLE001
                files.append((type(e).__name__, str(e)))
    return ("ok", area.version, area.num_remaining_clusters, area.fat.size,
            links, files, area.fat.parent_stream.offset,
            area.fat.parent_stream.end_of_file)


def main():
    rng = random.Random(1702)
    n_cases = 0

    # (5) shape of the declaration
    L, O = live.FatAreaStruct, OriginalFatAreaStruct
    check(type(L) is type(O), "declaration class")
    check(L.parsefrom == O.parsefrom, "parsefrom")
    check([s.name for s in L.subcons] == [s.name for s in O.subcons], "member names")
    check([type(s.subcon).__name__ for s in L.subcons]
          == [type(s.subcon).__name__ for s in O.subcons], "member classes")
    la, oa = L.subcons[0].subcon, O.subcons[0].subcon
    check(la.count == oa.count and la.subcon is oa.subcon, "fat_entries array")
    lm, om = L.subcons[1].subcon, O.subcons[1].subcon
    check([(s.name, type(s).__name__, s.sizeof()) for s in lm.subcons]
          == [(s.name, type(s).__name__, s.sizeof()) for s in om.subcons], "metadata fields")
    check(lm.sizeof() == om.sizeof() == FAT_BYTES, "metadata sizeof")
    check(la.sizeof() == oa.sizeof() == FAT_BYTES, "fat_entries sizeof")
    ls, os_ = L.subcons[3].subcon, O.subcons[3].subcon
    check(ls.substream_class is os_.substream_class, "substream class")
    check(ls.args == os_.args and list(ls.kwargs) == list(os_.kwargs), "substream arg names")
    check(ls.kwargs["offset"] == os_.kwargs["offset"], "substream offset")
    from construct.lib.containers import Container
    for size in (0, 1, DATA_FAT_OFFSET - 1, DATA_FAT_OFFSET, DATA_FAT_OFFSET + 1, 10 ** 9, -5):
        ctx = Container(stream_size=size)
        check(ls.kwargs["size"](ctx) == os_.kwargs["size"](ctx) == size - DATA_FAT_OFFSET,
              f"size expression for {size}")
    for get in (lambda c: c.sizeof(),):
        res = []
        for c in (L, O):
            try:
                res.append(("ok", get(c)))
            except Exception as e:  # noqa: BLE001
                res.append((type(e).__name__, str(e)))
        check(res[0] == res[1], "sizeof of the union")

    # (1)(2)(3)(4) parsing
    tails = [0, 1, 100, ROLAND_CLUSTER_SIZE,
             DATA_FAT_OFFSET - FAT_BYTES - 1, DATA_FAT_OFFSET - FAT_BYTES,
             DATA_FAT_OFFSET - FAT_BYTES + 1,
             DATA_FAT_OFFSET + 5 * ROLAND_CLUSTER_SIZE]
    for kind in ("zero", "random", "chains", "badid"):
        for tail in tails:
            for start in (0, 7, 0x800):
                words = make_fat_words(rng, kind)
                fat_bytes = struct.pack("<%dH" % FAT_NUM_ENTRIES, *words)
                body_len = max(0, tail)
                body = bytes(rng.getrandbits(8) for _ in range(min(body_len, 4096)))
                body = (body * (body_len // max(1, len(body)) + 1))[:body_len]
                data = bytes(start) + fat_bytes + body
                a = run(live.FatAreaStruct, data, start)
                b = run(OriginalFatAreaStruct, data, start)
                check(a == b, f"parse kind={kind} tail={tail} start={start}")
                c = run_adapter(live.FatAreaStruct, data, start)
                d = run_adapter(OriginalFatAreaStruct, data, start)
                check(c == d, f"adapter kind={kind} tail={tail} start={start}")
                if kind == "chains" and start == 0 and tail == tails[-1]:
                    check(c[0] == "ok" and a[0] == "ok", "well-formed case parses")
                    check(a[1]["sub_size"] == len(data) - DATA_FAT_OFFSET, "expected size")
                n_cases += 1

    # truncated streams
    for length in (0, 1, 2, 3, 4, 100, FAT_BYTES - 4, FAT_BYTES - 2, FAT_BYTES - 1):
        data = struct.pack("<H", FAT_AREA_ID) * (length // 2) + bytes(length % 2)
        for start in (0, 1):
            a = run(live.FatAreaStruct, data, start)
            b = run(OriginalFatAreaStruct, data, start)
            check(a == b and a[0] == "exc", f"truncated length={length} start={start}")
            c = run_adapter(live.FatAreaStruct, data, start)
            d = run_adapter(OriginalFatAreaStruct, data, start)
            check(c == d, f"truncated adapter length={length} start={start}")
            n_cases += 1

    # the module-level parser really is built on the live declaration
    check(live.FatAreaParser.subcon is live.FatAreaStruct, "FatAreaParser wiring")

    print(f"{n_cases} streams compared, {len(failures)} mismatches")
    return 1 if failures else 0


if __name__ == "__main__":
    sys.exit(main())
