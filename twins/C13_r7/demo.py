"""Equivalence demo for r7: Image.sanitize_names_general (smpl_extract/structural.py).

The module's method is compared with an inline copy of the ORIGINAL
implementation on many element lists that contain duplicate names, names
that collide with already-numbered names ("A", "A", "A (2)"), stereo
suffixes, directories, and with deliberately pathological
`_add_count_to_name` stubs that force the CouldNotDetermineName path.
Compared: the returned list (identity), the ordered log of f_sanitize /
f_set / _add_count_to_name calls, and the raised exception.
"""
import itertools
import random
import sys

from smpl_extract.base import ElementTypes
from smpl_extract.structural import CouldNotDetermineName
from smpl_extract.structural import Image


def original_sanitize_names_general(self, elements, f_sanitize, f_set):
    candidate_names = {}
    for element in elements:
        is_file = element.type_id != ElementTypes.DirectoryEntry
        candidate_name = f_sanitize(element.name, is_file)

        if candidate_name not in candidate_names.keys():
            candidate_names[candidate_name] = []
        candidate_names[candidate_name].append(element)

    assigned_names = set()  # as in the tree after the numbering fix
    for name, subelements in candidate_names.items():
        if len(subelements) == 1:
            element = subelements[0]
            f_set(element, name)
            continue

        i = 0
        for element in subelements:
            i += 1
            if i > 1:
                next_name = self._add_count_to_name(name, i)
                j = 0
                while (next_name in candidate_names.keys() or next_name in assigned_names):
                    i += 1
                    j += 1
                    next_name = self._add_count_to_name(name, i)
                    if j > len(candidate_names.keys()):
                        # This should never(?) happen
                        raise CouldNotDetermineName(
                            "Unable to determine proper (sanitized) "
                            f"name for {element.name}. Too many name "
                            "collisions."
                        )
            else:
                next_name = name
            f_set(element, next_name)
            assigned_names.add(next_name)

    result = elements
    return result


class Elem:
    def __init__(self, idx, name, is_dir):
        self.idx = idx
        self.name = name
        self.type_id = ElementTypes.DirectoryEntry if is_dir else ElementTypes.SampleEntry
        self._safe_name = None
        self._export_name = None


def make_host(mode, log):
    """An object carrying the real Image helpers (Image itself is abstract)."""

    class Host:
        _INVALID_CHARS_REMOVE = Image._INVALID_CHARS_REMOVE
        _INVALID_CHARS_REPLACE = Image._INVALID_CHARS_REPLACE
        _SAFE_ENDING = Image._SAFE_ENDING
        _INVALID_FILE_NAME = Image._INVALID_FILE_NAME
        _STEREO_FILENAME = Image._STEREO_FILENAME
        make_safe_name = Image.make_safe_name
        make_export_name = Image.make_export_name
        sanitize_names_general = Image.sanitize_names_general
        make_safe_names_routine = Image.make_safe_names_routine
        make_export_names_routine = Image.make_export_names_routine

        def _add_count_to_name(self, name, count):
            log.append(("count", name, count))
            if mode == "real":
                return Image._add_count_to_name(self, name, count)
            if mode == "constant":       # always collides with the group name
                return name
            if mode == "mod3":           # only three distinct outputs
                return f"{name} ({count % 3})"
            if mode == "late":           # collides for a while, then frees up
                return name if count < 4 else f"{name}#{count}"
            raise AssertionError(mode)

    return Host()


SANITIZERS = {
    "identity": lambda name, is_file: name,
    "lower_strip": lambda name, is_file: name.strip().lower(),
    "first_char": lambda name, is_file: name[:1],
    "dir_suffix": lambda name, is_file: name if is_file else name + "0",
    "safe": None,      # Image.make_safe_name
    "export": None,    # Image.make_export_name
}


def run(impl, names, dirs, sanitizer, mode):
    log = []
    host = make_host(mode, log)
    elements = [Elem(i, n, d) for i, (n, d) in enumerate(zip(names, dirs))]
    if sanitizer == "safe":
        f_san = host.make_safe_name
    elif sanitizer == "export":
        f_san = host.make_export_name
    else:
        f_san = SANITIZERS[sanitizer]

    def f_sanitize(name, is_file):
        out = f_san(name, is_file)
        log.append(("san", name, is_file, out))
        return out

    def f_set(element, name):
        log.append(("set", element.idx, name))
        element._safe_name = name

    try:
        ret = impl(host, elements, f_sanitize, f_set)
        out = ("ok", ret is elements, [e.idx for e in ret])
    except Exception as e:  # noqa: BLE001
        out = ("exc", type(e).__name__, str(e))
    return out, log, [e._safe_name for e in elements]


failures = 0
cases = 0


def check(names, dirs=None, sanitizers=tuple(SANITIZERS), modes=("real", "constant", "mod3", "late")):
    global failures, cases
    if dirs is None:
        dirs = [False] * len(names)
    for sanitizer, mode in itertools.product(sanitizers, modes):
        cases += 1
        new = run(Image.sanitize_names_general, names, dirs, sanitizer, mode)
        old = run(original_sanitize_names_general, names, dirs, sanitizer, mode)
        if new != old:
            failures += 1
            if failures <= 10:
                print("MISMATCH", names, dirs, sanitizer, mode)
                print("  new:", new[0], new[1][-5:])
                print("  old:", old[0], old[1][-5:])


FIXED = [
    [],
    ["A"],
    ["A", "A"],
    ["A", "A", "A"],
    ["A", "A", "A (2)"],
    ["A", "A (2)", "A"],
    ["A (2)", "A", "A"],
    ["A", "A", "A", "A (2)", "A (3)", "A (4)"],
    ["A", "A", "A (2)", "A (2)"],
    ["A", "A", "A (2)", "A (2)", "A (2) (2)", "A (3)"],
    ["KICK -L", "KICK -L", "KICK -R", "KICK -R", "KICK (2) L"],
    ["KICK-L", "KICK-L", "KICK (2) L", "KICK (3) L"],
    ["a", "A", " a ", "A  "],
    ["", "", ""],
    ["'", "\"", "`", "''"],
    ["x.", "x", "x .", "x-"],
    ["snare:1", "snare 1", "snare/1", "snare\\1"],
    ["B", "A", "B", "A", "C", "B"],
]

for names in FIXED:
    check(names)
    check(names, dirs=[i % 2 == 0 for i in range(len(names))])
    check(names, dirs=[True] * len(names))

# end-to-end through the two public routines with the real helpers
for names in FIXED:
    for routine in ("make_safe_names_routine", "make_export_names_routine"):
        cases += 1
        results = []
        for impl in (Image.sanitize_names_general, original_sanitize_names_general):
            log = []
            host = make_host("real", log)
            host.__class__.sanitize_names_general = impl
            elements = [Elem(i, n, i % 3 == 0) for i, n in enumerate(names)]
            ret = getattr(host, routine)(elements)
            results.append((ret is elements, log,
                            [(e._safe_name, e._export_name) for e in elements]))
        if results[0] != results[1]:
            failures += 1
            print("MISMATCH routine", routine, names)

rng = random.Random(7013)
POOL = ["A", "A (2)", "A (3)", "A (4)", "B", "B (2)", "S -L", "S -R", "S (2) L", "S (2) R",
        "a", " A", "", "x.", "x", "q'", "q"]
for _ in range(1500):
    n = rng.randrange(0, 12)
    names = [rng.choice(POOL) for _ in range(n)]
    dirs = [rng.random() < 0.25 for _ in range(n)]
    check(names, dirs, sanitizers=(rng.choice(list(SANITIZERS)),))

print(f"{cases} cases, {failures} failures")
sys.exit(1 if failures else 0)
