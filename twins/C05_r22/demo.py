"""Equivalence demo for r22: generalized/wav.py get_fmt_chunk_data (literals 1
and 8 became the module constants _WAVE_FORMAT_PCM / _BITS_PER_BYTE, the
bits-per-sample product moved into the new private helper _bits_per_sample,
the `result` temporary was inlined) versus an inline copy of the ORIGINAL
function.

get_fmt_chunk_data is the consumer of what combine_stereo concatenates: the
merged sample's num_channels (= number of concatenated streams) reaches the WAV
header through dest_encoding.num_interleaved_channels -> channel_cnt.

1. direct calls over a grid of samples / encodings (all widths, channel counts
   0..4, sample rates incl. 0, odd value types such as float / str / None /
   bool / numpy ints for sample_width): same container (same keys in the same
   order, same values and value types) or the same exception;
2. attribute-access order on both arguments is logged with recording proxies
   (objects whose attributes may raise): identical access sequence and the
   same exception from the same attribute;
3. the built fmt chunk bytes (WavFormatChunkStruct.build of the container) are
   the same and match precomputed struct.pack values;
4. L/R pairs of 8 and 16 bit mono samples are merged with combine_stereo and
   written with export_wav into a fresh temp dir: header says 2 channels, the
   block align / byte rate are right and the PCM is L,R interleaved; unpaired
   samples give 1 channel.
Exit 0 when everything agrees, 1 otherwise.
"""
import io
import itertools
import os
import shutil
import struct
import sys
import tempfile
import warnings

import numpy as np

warnings.simplefilter("ignore")  # numpy scalar overflow in the odd-type grid

from smpl_extract.data_streams import DataStream
from smpl_extract.data_streams import Endianess
from smpl_extract.data_streams import StreamEncoding
from smpl_extract.formats.wav import WavFormatChunkContainer
from smpl_extract.formats.wav import WavFormatChunkStruct
from smpl_extract.generalized.sample import combine_stereo
from smpl_extract.generalized.sample import Sample
from smpl_extract.generalized.wav import export_wav
from smpl_extract.generalized.wav import get_fmt_chunk_data


# verbatim copy of the ORIGINAL function
def original_get_fmt_chunk_data(sample: Sample, encoding: StreamEncoding) -> WavFormatChunkContainer:
    result = WavFormatChunkContainer(
        audio_format=1,
        channel_cnt=encoding.num_interleaved_channels,
        sample_rate=sample.sample_rate,
        bits_per_sample=8*encoding.sample_width
    )
    return result


failures = []


def check(cond, what):
    if not cond:
        failures.append(what)
        if len(failures) <= 20:
            print("MISMATCH:", what)


def describe(container):
    return (
        type(container).__name__,
        [(k, type(v).__name__, repr(v)) for k, v in container.items()],
        [(k, type(getattr(container, k)).__name__)
         for k in ("audio_format", "channel_cnt", "sample_rate",
                   "bits_per_sample")],
    )


def outcome(func, sample, encoding):
    try:
        container = func(sample, encoding)
    except Exception as e:  # noqa
        return ("exc", type(e).__name__, str(e))
    try:
        built = WavFormatChunkStruct.build(container)
    except Exception as e:  # noqa
        built = ("build exc", type(e).__name__)
    return ("ok", describe(container), built)


# --------------------------------------------------------------------------
# 1. grid of plain arguments
# --------------------------------------------------------------------------
class Bag:
    def __init__(self, **kwargs):
        self.__dict__.update(kwargs)


WIDTHS = [0, 1, 2, 3, 4, 8, -1, 2.0, 1.5, "2", b"x", None, True, False,
          np.int16(2), np.uint8(255), [1], (1, 2), 10 ** 20]
CHANNELS = [0, 1, 2, 3, 4, -1, None, "2", 2.0, True]
RATES = [0, 1, 8000, 22050, 44100, 48000, 2 ** 32 - 1, 2 ** 32, -5, None,
         "44100", 44100.0]
n_grid = 0
for width, count, rate in itertools.product(WIDTHS, CHANNELS, RATES):
    sample = Bag(sample_rate=rate)
    encoding = Bag(sample_width=width, num_interleaved_channels=count)
    a = outcome(get_fmt_chunk_data, sample, encoding)
    b = outcome(original_get_fmt_chunk_data, sample, encoding)
    check(a == b, f"grid {width!r} {count!r} {rate!r}: {a!r} != {b!r}")
    n_grid += 1

# real Sample / StreamEncoding objects
for width, count, signed, endian, rate in itertools.product(
        [1, 2, 4, 8], [1, 2, 3, 4], [True, False],
        [Endianess.LITTLE, Endianess.BIG], [0, 11025, 44100]):
    sample = Sample(name="S", sample_rate=rate, num_channels=count)
    encoding = StreamEncoding(endian, width, count, signed)
    a = outcome(get_fmt_chunk_data, sample, encoding)
    b = outcome(original_get_fmt_chunk_data, sample, encoding)
    check(a == b, f"real {width} {count} {rate}: {a!r} != {b!r}")
    expected = struct.pack("<HHIIHH", 1, count, rate,
                           rate * count * (8 * width) // 8,
                           count * (8 * width) // 8, 8 * width)
    check(a[0] == "ok" and a[2] == expected,
          f"real {width} {count} {rate}: bytes {a!r}")
    n_grid += 1


# --------------------------------------------------------------------------
# 2. order of attribute reads, exceptions raised by attributes
# --------------------------------------------------------------------------
class Recorder:
    def __init__(self, label, log, values, raising=()):
        object.__setattr__(self, "_label", label)
        object.__setattr__(self, "_log", log)
        object.__setattr__(self, "_values", values)
        object.__setattr__(self, "_raising", raising)

    def __getattr__(self, name):
        self._log.append((self._label, name))
        if name in self._raising:
            raise RuntimeError(f"{self._label}.{name} unavailable")
        try:
            return self._values[name]
        except KeyError:
            raise AttributeError(name)


class NoisyWidth:
    """Logs which arithmetic hook is used on it."""
    def __init__(self, log):
        self.log = log

    def __mul__(self, other):
        self.log.append(("mul", other))
        return 16

    def __rmul__(self, other):
        self.log.append(("rmul", other))
        return 24


def logged(func, sample_values, encoding_values, sample_raising,
           encoding_raising, noisy):
    log = []
    encoding_values = dict(encoding_values)
    if noisy:
        encoding_values["sample_width"] = NoisyWidth(log)
    sample = Recorder("sample", log, sample_values, sample_raising)
    encoding = Recorder("encoding", log, encoding_values, encoding_raising)
    try:
        container = func(sample, encoding)
        status = ("ok", describe(container))
    except Exception as e:  # noqa
        status = ("exc", type(e).__name__, str(e))
    return status, log


n_order = 0
SAMPLE_VALUE_SETS = [{"sample_rate": 44100}, {}]
ENCODING_VALUE_SETS = [
    {"sample_width": 2, "num_interleaved_channels": 2},
    {"sample_width": 2},
    {"num_interleaved_channels": 2},
    {},
]
for sv, ev in itertools.product(SAMPLE_VALUE_SETS, ENCODING_VALUE_SETS):
    for s_raise, e_raise, noisy in itertools.product(
            [(), ("sample_rate",)],
            [(), ("sample_width",), ("num_interleaved_channels",),
             ("sample_width", "num_interleaved_channels")],
            [False, True]):
        a = logged(get_fmt_chunk_data, sv, ev, s_raise, e_raise, noisy)
        b = logged(original_get_fmt_chunk_data, sv, ev, s_raise, e_raise, noisy)
        check(a == b, f"order {sv} {ev} {s_raise} {e_raise} {noisy}: "
                      f"{a!r} != {b!r}")
        n_order += 1
full = logged(get_fmt_chunk_data, SAMPLE_VALUE_SETS[0], ENCODING_VALUE_SETS[0],
              (), (), True)
check(full[1] == [("encoding", "num_interleaved_channels"),
                  ("sample", "sample_rate"), ("encoding", "sample_width"),
                  ("rmul", 8)],
      f"read order {full[1]!r}")


# --------------------------------------------------------------------------
# 4. merged pairs written to disk
# --------------------------------------------------------------------------
def mono(name, width, values, rate):
    fmt = {1: "b", 2: "h"}[width]
    payload = struct.pack("<%d%s" % (len(values), fmt), *values)
    encoding = StreamEncoding(Endianess.LITTLE, width, 1)
    return Sample(name=name, sample_rate=rate, num_channels=1,
                  data_streams=[DataStream(io.BytesIO(payload), encoding)],
                  _path=["VOL", name])


def parse_wav(data):
    pos = data.index(b"fmt ")
    fields = struct.unpack("<HHIIHH", data[pos + 8:pos + 24])
    dpos = data.index(b"data")
    size = struct.unpack("<I", data[dpos + 4:dpos + 8])[0]
    return fields, data[dpos + 8:dpos + 8 + size]


out_dir = tempfile.mkdtemp(prefix="r22_demo_")
n_files = 0
try:
    for width, rate, length in itertools.product([1, 2], [22050, 44100],
                                                 [1, 5, 2048, 2049, 4100]):
        lo = -(2 ** (8 * width - 1))
        span = 2 ** (8 * width)
        left_values = [lo + (3 * i + 1) % span for i in range(length)]
        right_values = [lo + (7 * i + 5) % span for i in range(length)]
        left = mono("PAD L", width, left_values, rate)
        right = mono("PAD R", width, right_values, rate)
        solo = mono("SOLO", width, left_values, rate)
        merged = combine_stereo(left, right, "PAD")

        path = os.path.join(out_dir, f"pad_{width}_{rate}_{length}.wav")
        export_wav(merged, path)
        with open(path, "rb") as f:
            fields, pcm = parse_wav(f.read())
        check(fields == (1, 2, rate, rate * 2 * width, 2 * width, 8 * width),
              f"stereo header {width} {rate} {length}: {fields!r}")
        fmt = {1: "b", 2: "h"}[width]
        frames = struct.unpack("<%d%s" % (len(pcm) // width, fmt), pcm)
        check(list(frames[0::2]) == left_values
              and list(frames[1::2]) == right_values,
              f"stereo PCM {width} {rate} {length}")

        path = os.path.join(out_dir, f"solo_{width}_{rate}_{length}.wav")
        export_wav(solo, path)
        with open(path, "rb") as f:
            fields, pcm = parse_wav(f.read())
        check(fields == (1, 1, rate, rate * width, width, 8 * width),
              f"mono header {width} {rate} {length}: {fields!r}")
        frames = struct.unpack("<%d%s" % (len(pcm) // width, fmt), pcm)
        check(list(frames) == left_values, f"mono PCM {width} {rate} {length}")
        n_files += 2
finally:
    shutil.rmtree(out_dir, ignore_errors=True)

print(f"grid cases: {n_grid}, read-order cases: {n_order}, files: {n_files}, "
      f"failures: {len(failures)}")
sys.exit(1 if failures else 0)
