"""Equivalence demo for r9 (smpl_extract/util/fat.py,
FileStream._get_address_given_sector_index).  An inline copy of the ORIGINAL
FileStream class is compared with the live one:
  (a) direct calls of _get_address_given_sector_index over many sector lists,
      indices (negative, out of range, huge, bool, non-integers) and offsets:
      same return value or same exception (type, text, __cause__ type/text,
      suppress-context flag);
  (b) scripted seek/read sessions on a logging parent stream with fragmented,
      reversed, short and empty sector lists: same bytes / exceptions, same
      cursor state and the same sequence of operations on the parent stream.
Exit 0 = everything agrees."""
import io
import random
import sys
from io import IOBase, SEEK_CUR, SEEK_END, SEEK_SET
from typing import List

from smpl_extract.util.fat import FileStream
from smpl_extract.util.sector import SectorStream
from smpl_extract.util.stream import SectorReadError


# ---- inline copy of the ORIGINAL implementation -------------------------
class OrigFileStream(SectorStream):


    def __init__(
            self,
            parent_stream:      IOBase,
            sector_size:        int,
            sector_list:        List[int],
            position:           int = 0,
            buffer_length:      int = 0x1000
    ) -> None:
        super().__init__(
            parent_stream,
            size=(sector_size * len(sector_list)),
            sector_length=sector_size,
            position=position,
            buffer_length=buffer_length
        )
        self.sector_list = sector_list


    def _get_address_given_sector_index(
            self,
            sector_index: int,
            offset: int
        ):
        try:
            sector  = self.sector_list[sector_index]
        except IndexError as e:
            raise SectorReadError(
                f"Sector {sector_index} lies beyond the "
                f"{len(self.sector_list)} sectors of the file."
            ) from e
        result  = super()._get_address_given_sector_index(
            sector,
            offset
        )
        return result
# -------------------------------------------------------------------------


class LoggingBytesIO(io.BytesIO):
    def __init__(self, data, log):
        super().__init__(data)
        self.log = log

    def seek(self, *a):
        r = super().seek(*a)
        self.log.append(("seek", a, r))
        return r

    def read(self, *a):
        r = super().read(*a)
        self.log.append(("read", a, len(r)))
        return r

    def tell(self):
        r = super().tell()
        self.log.append(("tell", r))
        return r


def describe_exc(e):
    cause = e.__cause__
    return (
        "EXC", type(e).__name__, str(e), e.args,
        type(cause).__name__ if cause is not None else None,
        str(cause) if cause is not None else None,
        e.__suppress_context__,
    )


def outcome(f):
    try:
        return ("OK", f())
    except Exception as e:  # noqa: BLE001
        return describe_exc(e)


failures = 0
checks = 0


def check(label, a, b):
    global failures, checks
    checks += 1
    if a != b:
        failures += 1
        if failures <= 10:
            print("MISMATCH", label, "\n   live:", a, "\n   orig:", b)


class Idx:
    """An object usable as a list index through __index__."""
    def __init__(self, v):
        self.v = v

    def __index__(self):
        return self.v

    def __format__(self, spec):
        return "Idx<%d>" % self.v

    def __repr__(self):
        return "Idx(%d)" % self.v


def direct_calls():
    rnd = random.Random(9)
    sector_lists = [
        [], [0], [5], [3, 2, 1], [7, 7, 7], list(range(10)),
        list(range(9, -1, -1)), [11385, 0, 4000],
        [rnd.randrange(0, 11386) for _ in range(40)],
        (4, 5, 6),                       # a tuple also works as a table
    ]
    for sector_size in (1, 16, 512, 0x2000):
        for sl in sector_lists:
            live = FileStream(io.BytesIO(b""), sector_size, sl)
            orig = OrigFileStream(io.BytesIO(b""), sector_size, sl)
            n = len(sl)
            indices = list(range(-n - 3, n + 4)) + [
                10**6, -10**6, 2**70, -2**70, True, False,
                Idx(0), Idx(n), Idx(-n - 1), 1.0, None, "1", slice(0, 1),
            ]
            for idx in indices:
                for offset in (0, 1, sector_size - 1, sector_size, -1, 12345):
                    check(
                        ("direct", sector_size, sl, idx, offset),
                        outcome(lambda: live._get_address_given_sector_index(idx, offset)),
                        outcome(lambda: orig._get_address_given_sector_index(idx, offset)),
                    )
            # keyword spelling of the call as well
            check(
                ("kw", sector_size, sl),
                outcome(lambda: live._get_address_given_sector_index(sector_index=n, offset=3)),
                outcome(lambda: orig._get_address_given_sector_index(sector_index=n, offset=3)),
            )
            check(
                ("kw0", sector_size, sl),
                outcome(lambda: live._get_address_given_sector_index(sector_index=0, offset=3)),
                outcome(lambda: orig._get_address_given_sector_index(sector_index=0, offset=3)),
            )


def run_session(cls, data, sector_size, sector_list, script, position):
    log = []
    parent = LoggingBytesIO(data, log)
    stream = cls(parent, sector_size, sector_list, position=position)
    results = []
    for op in script:
        if op[0] == "seek":
            results.append(outcome(lambda: stream.seek(op[1], op[2])))
        elif op[0] == "read":
            results.append(outcome(lambda: stream.read(op[1])))
        elif op[0] == "eof":
            stream.end_of_file = op[1]      # a caller declaring a longer file
            results.append(("eof", op[1]))
        results.append(("state", stream.position, stream.true_size, stream.end_of_file))
    return results, log


def sessions():
    rnd = random.Random(99)
    for case in range(400):
        sector_size = rnd.choice((4, 8, 32, 64))
        total_sectors = rnd.randrange(1, 24)
        data = bytes(rnd.randrange(256) for _ in range(total_sectors * sector_size))
        kind = case % 5
        pool = list(range(total_sectors))
        if kind == 0:
            sl = pool[:rnd.randrange(0, total_sectors + 1)]
        elif kind == 1:
            rnd.shuffle(pool)
            sl = pool[:rnd.randrange(0, total_sectors + 1)]
        elif kind == 2:
            sl = list(reversed(pool))
        elif kind == 3:
            sl = [rnd.randrange(0, total_sectors + 3) for _ in range(rnd.randrange(0, 8))]
        else:
            sl = []
        size = sector_size * len(sl)
        script = []
        for _ in range(rnd.randrange(1, 14)):
            r = rnd.random()
            if r < 0.35:
                script.append(("seek", rnd.randrange(-size - 5, size + 6),
                               rnd.choice((SEEK_SET, SEEK_CUR, SEEK_END))))
            elif r < 0.9:
                script.append(("read", rnd.choice(
                    (0, 1, 2, sector_size - 1, sector_size, sector_size + 1,
                     2 * sector_size, 3 * sector_size + 1, size, size + 7,
                     None, -1, rnd.randrange(0, size + 10)))))
            else:
                # pretend the file is longer than its sector list: the walk
                # runs off the end of the list and must fail the same way
                script.append(("eof", size + rnd.randrange(1, 3 * sector_size)))
        position = rnd.choice((0, 0, 1, sector_size, max(0, size - 1)))
        a = run_session(FileStream, data, sector_size, sl, script, position)
        b = run_session(OrigFileStream, data, sector_size, sl, script, position)
        check(("session", case, sector_size, sl, script), a, b)


def main():
    direct_calls()
    sessions()
    print("checks:", checks, "failures:", failures)
    return 1 if failures else 0


if __name__ == "__main__":
    sys.exit(main())
