"""Equivalence demo for CueSheetFileAdapter.parse (smpl_extract/cuesheet.py).

Compares the classmethod in the tree with an inline copy of the ORIGINAL on
exhaustive short line lists over a small alphabet of cue lines and on many
random longer sheets (FILE / TRACK / INDEX / TITLE lines in any order, blank
lines, garbage, mixed case, leading whitespace, several FILE entries).
Compared: returned CueSheetFile, returned remaining lines (and whether it is
the caller's list object), the exception type/args, and the state the
caller's list is left in.  parse_cue_sheet, which drives it, is compared too.
Exit 0 when everything agrees.
"""
import itertools
import random
import sys

from smpl_extract import cuesheet
from smpl_extract.cuesheet import BadCueSheet
from smpl_extract.cuesheet import CueSheetFile
from smpl_extract.cuesheet import CueSheetFileAdapter
from smpl_extract.cuesheet import CueSheetTrackAdapter
from smpl_extract.cuesheet import _FILE_LINE_REGEX
from smpl_extract.cuesheet import get_nonempty_entry
from smpl_extract.cuesheet import parse_cue_sheet


class OriginalFileAdapter:
    # verbatim copy of the original classmethod
    @classmethod
    def parse(cls, lines):
        text, lines = get_nonempty_entry(lines)
        if len(text) <= 0:
            raise BadCueSheet
        result = _FILE_LINE_REGEX.match(text)
        if not result:
            raise BadCueSheet

        bin_file_name = result.groups()[0]
        cue_sheet = CueSheetFile(bin_file_name)
        while len(lines):
            text, lines = get_nonempty_entry(lines)
            if len(text) <= 0:
                break
            lines = [text] + lines
            track, lines = CueSheetTrackAdapter.parse(lines)
            if track:
                cue_sheet.tracks.append(track)

        return cue_sheet, lines


# verbatim copy of the original driver, bound to the original adapter
def original_parse_cue_sheet(lines):
    cue_sheet_files = []
    while len(lines):
        text, lines = get_nonempty_entry(lines)
        match_result = _FILE_LINE_REGEX.match(text)
        if match_result:
            lines = [text] + lines
            cue_sheet_file, lines = OriginalFileAdapter.parse(lines)
            cue_sheet_files.append(cue_sheet_file)

    if len(cue_sheet_files) <= 0:
        raise BadCueSheet("No FILE entry")

    result = cue_sheet_files[0]
    return result


failures = 0
checked = 0


def adapter_outcome(adapter, lines):
    mine = list(lines)
    try:
        sheet, rest = adapter.parse(mine)
    except Exception as exc:  # noqa: BLE001
        return ("exc", type(exc), exc.args, mine)
    return ("ok", sheet, type(sheet.tracks), rest, rest is mine, mine)


def driver_outcome(func, lines):
    mine = list(lines)
    try:
        sheet = func(mine)
    except Exception as exc:  # noqa: BLE001
        return ("exc", type(exc), exc.args, mine)
    return ("ok", sheet, mine)


def check(lines):
    global failures, checked
    checked += 1
    pairs = (
        (adapter_outcome(OriginalFileAdapter, lines), adapter_outcome(CueSheetFileAdapter, lines)),
        (driver_outcome(original_parse_cue_sheet, lines), driver_outcome(parse_cue_sheet, lines)),
    )
    for expected, actual in pairs:
        if expected != actual:
            failures += 1
            if failures <= 10:
                print("MISMATCH", lines, expected, actual, sep="\n  ")


alphabet = [
    'FILE "a.bin" BINARY',
    '  file "b c.bin"   binary  ',
    'FILE "x.wav" WAVE',
    'FILE "" BINARY',
    "  TRACK 01 AUDIO",
    "track 2 MODE1/2352",
    "TRACK xx AUDIO",
    "    INDEX 01 00:02:00",
    "INDEX 1 99:59:74",
    'TITLE "Song"',
    'title ""',
    "REM comment",
    "",
    "   \t ",
    "\n",
]

check([])
for length in (1, 2, 3):
    for combo in itertools.product(alphabet, repeat=length):
        check(list(combo))
for combo in itertools.product(alphabet[:2] + alphabet[4:6] + alphabet[7:10] + alphabet[11:13], repeat=4):
    check(list(combo))

rng = random.Random(1312)
weights = [3, 1, 1, 1, 6, 3, 1, 8, 3, 4, 1, 3, 4, 2, 1]
for _ in range(6000):
    n = rng.randrange(0, 30)
    lines = rng.choices(alphabet, weights=weights, k=n)
    if rng.random() < 0.7:
        lines.insert(0, alphabet[0])
    check(lines)

# realistic sheet, with and without line terminators
sheet = ['FILE "disc.bin" BINARY']
for t in range(1, 40):
    sheet += [f"  TRACK {t:02d} AUDIO", f'    TITLE "T{t}"', f"    INDEX 00 {t:02d}:00:00", f"    INDEX 01 {t:02d}:02:00", ""]
check(sheet)
check([line + "\r\n" for line in sheet])
check(sheet + sheet)
check(sheet[1:])

# non-string / odd items surface the same errors
for odd in ([None], [5], [b'FILE "a.bin" BINARY'], ['FILE "a.bin" BINARY', None], ['FILE "a.bin" BINARY', "TRACK 1 AUDIO", 7]):
    check(odd)

assert cuesheet.CueSheetFileAdapter is CueSheetFileAdapter
print(f"checked {checked} cases, {failures} mismatches")
sys.exit(1 if failures else 0)
