"""Equivalence demo for r12: the FatAreaStruct declaration that feeds
FatAreaAdapter._decode (smpl_extract/roland/s7xx/fat.py).

`OriginalFatAreaStruct` is a verbatim copy of the ORIGINAL declaration.  It is
compared with the module's FatAreaStruct / FatAreaParser on Roland FAT areas

 * raw parse: same keys, same 65536 entries, same metadata words, same
   stream_size, same data-area sub stream (type, offset, size, position) and
   same position of the parsed stream afterwards; same sizeof()/build()
   outcome;
 * decoded (FatAreaAdapter over each declaration): same version, free-cluster
   count, the same 65536 sector links, the same get_path() for every chain
   start and the same bytes from get_file().read(), or the same error;
 * inputs: empty table, random well-formed chains, chains with a cycle, a
   self link, a merge into another chain, an ERROR word, a RESERVED or FREE
   word in mid-chain, dense random tables over few clusters, bad FAT id,
   every combination of version words, truncated areas of many lengths.
"""
import io
import random
import struct
import sys

from construct.core import Int16ul
from construct.core import Padding
from construct.core import Struct
from construct.core import Union

from smpl_extract.roland.s7xx.data_types import DATA_FAT_OFFSET
from smpl_extract.roland.s7xx.data_types import FAT_AREA_ID
from smpl_extract.roland.s7xx.data_types import FAT_AREA_SIZE
from smpl_extract.roland.s7xx.data_types import FAT_ERROR_FLAG
from smpl_extract.roland.s7xx.data_types import FAT_NUM_ENTRIES
from smpl_extract.roland.s7xx.data_types import ROLAND_CLUSTER_SIZE
from smpl_extract.roland.s7xx.fat import FatAreaAdapter
from smpl_extract.roland.s7xx.fat import FatAreaParser
from smpl_extract.roland.s7xx.fat import FatAreaStruct
from smpl_extract.util.stream import StreamOffset
from smpl_extract.util.stream import StreamSizeConstruct
from smpl_extract.util.stream import SubStreamConstruct


# ---------------------------------------------------------------- original
OriginalFatAreaStruct = Union(
    0,
    "fat_entries" / Int16ul[FAT_NUM_ENTRIES],
    "metadata" / Struct(
        "fat_id" / Int16ul,
        "num_unused_clusters" / Int16ul,
        Padding(2 * (FAT_NUM_ENTRIES-4)),
        "version_flag_1" / Int16ul,
        "version_flag_2" / Int16ul
    ),
    "stream_size" / StreamSizeConstruct,
    "fat_data_stream"  / SubStreamConstruct(
        StreamOffset,
        size=(lambda this: this.stream_size-DATA_FAT_OFFSET),
        offset=DATA_FAT_OFFSET
    ),
)
OriginalFatAreaParser = FatAreaAdapter(OriginalFatAreaStruct)


# ---------------------------------------------------------------- harness
checked = 0
bad = 0
tally = {}


def outcome(fn):
    try:
        return ("ret", fn())
    except BaseException as exc:  # noqa
        return ("exc", type(exc).__name__, str(exc))


def describe_substream(sub, stream):
    return (type(sub).__name__, sub.offset, sub.end_of_file, sub.position,
            sub.buffer_length, sub.substream is stream)


def raw_parse(declaration, data):
    stream = io.BytesIO(data)
    c = declaration.parse_stream(stream)
    return (sorted(c.keys()), list(c.fat_entries), sorted(c.metadata.keys()),
            c.metadata.fat_id, c.metadata.num_unused_clusters,
            c.metadata.version_flag_1, c.metadata.version_flag_2,
            c.stream_size, describe_substream(c.fat_data_stream, stream),
            stream.tell())


def decoded(parser, data, starts, read_files):
    stream = io.BytesIO(data)
    area = parser.parse_stream(stream)
    fat = area.fat
    paths = [outcome(lambda s=s: fat.get_path(s)) for s in starts]
    files = []
    if read_files:
        for s in starts:
            files.append(outcome(lambda s=s: fat.get_file(s).read(None)))
    return (type(area).__name__, area.version, area.num_remaining_clusters,
            type(fat).__name__, fat.size,
            [(link.next, link.end) for link in fat.sector_links],
            describe_substream(fat.parent_stream, stream), stream.tell(),
            paths, files)


def compare(label, new_fn, old_fn):
    global checked, bad
    got, want = outcome(new_fn), outcome(old_fn)
    checked += 1
    kind = got[0] if got[0] == "ret" else got[1]
    tally[kind] = tally.get(kind, 0) + 1
    if got != want:
        bad += 1
        if bad <= 10:
            print("MISMATCH", label)
            print("   new:", str(got)[:300])
            print("   old:", str(want)[:300])
    return got


def check_area(label, entries, tail=b"", starts=(), read_files=False):
    data = struct.pack("<%dH" % len(entries), *entries) + tail
    compare(("raw",) + label,
            lambda: raw_parse(FatAreaStruct, data),
            lambda: raw_parse(OriginalFatAreaStruct, data))
    return compare(("decoded",) + label,
                   lambda: decoded(FatAreaParser, data, starts, read_files),
                   lambda: decoded(OriginalFatAreaParser, data, starts,
                                   read_files))


def blank(version=(0xffff, 0xffff), fat_id=FAT_AREA_ID, unused=1234):
    entries = [0] * FAT_NUM_ENTRIES
    entries[0] = fat_id
    entries[1] = unused
    entries[-2], entries[-1] = version
    return entries


def lay_chain(entries, chain, rng):
    for here, there in zip(chain, chain[1:]):
        entries[here] = there
    entries[chain[-1]] = rng.randint(0xfff8, 0xffff)


def random_chains(rng, entries, universe, n_chains):
    pool = rng.sample(universe, min(len(universe), n_chains * 6))
    chains = []
    while pool and len(chains) < n_chains:
        length = rng.randint(1, min(len(pool), 8))
        chain, pool = pool[:length], pool[length:]
        lay_chain(entries, chain, rng)
        chains.append(chain)
    return chains


def main():
    rng = random.Random(121212)
    usable = range(2, FAT_NUM_ENTRIES - 9)

    # the two declarations describe the same number of bytes
    compare("sizeof", lambda: FatAreaStruct.sizeof(),
            lambda: OriginalFatAreaStruct.sizeof())
    for name in ("fat_entries", "metadata"):
        got = compare(("sizeof", name),
                      lambda: getattr(FatAreaStruct, name).sizeof(),
                      lambda: getattr(OriginalFatAreaStruct, name).sizeof())
        assert got == ("ret", FAT_AREA_SIZE), got
    compare("subcon names",
            lambda: [sc.name for sc in FatAreaStruct.subcons],
            lambda: [sc.name for sc in OriginalFatAreaStruct.subcons])
    sample = dict(fat_entries=blank(), metadata=dict(
        fat_id=1, num_unused_clusters=2, version_flag_1=3, version_flag_2=4))
    compare("build", lambda: FatAreaStruct.build(sample),
            lambda: OriginalFatAreaStruct.build(sample))
    compare("build none", lambda: FatAreaStruct.build(None),
            lambda: OriginalFatAreaStruct.build(None))

    # header variations
    check_area(("empty",), blank())
    for v1 in (0xffff, 0xfffe, 0x0000, 0x1234):
        for v2 in (0xffff, 0xfffe, 0x0001, 0xfff7):
            check_area(("version", v1, v2), blank(version=(v1, v2)))
    for fat_id in (0, 0xfffb, 0xffff):
        check_area(("fat id", fat_id), blank(fat_id=fat_id))

    # well-formed chains over the whole table
    for round_no in range(6):
        entries = blank(version=rng.choice(((0xffff, 0xffff),
                                            (0xfffe, 0xffff),
                                            (0xffff, 0xfffe))),
                        unused=rng.randint(0, 0xffff))
        chains = random_chains(rng, entries, usable, rng.randint(1, 40))
        starts = [c[0] for c in chains] + [c[-1] for c in chains[:3]] + [0, 1]
        result = check_area(("well formed", round_no), entries,
                            tail=b"xyz" * round_no, starts=starts)
        assert result[0] == "ret", result[:3]
        for chain, path in zip(chains, result[1][8]):
            assert path == ("ret", chain), (chain, path)

    # well-formed chains over few clusters, with a data area to read from
    for round_no in range(3):
        entries = blank()
        chains = random_chains(rng, entries, range(2, 40), 5)
        data_area = bytes(rng.getrandbits(8) for _ in range(997))
        data_area = data_area * ((ROLAND_CLUSTER_SIZE * 40) // 997 + 1)
        data_area = data_area[:ROLAND_CLUSTER_SIZE * 40]
        tail = bytes(DATA_FAT_OFFSET - FAT_AREA_SIZE) + data_area
        starts = [c[0] for c in chains]
        result = check_area(("readable", round_no), entries, tail=tail,
                            starts=starts, read_files=True)
        assert result[0] == "ret", result[:3]
        for chain, got in zip(chains, result[1][9]):
            expected = b"".join(
                data_area[s * ROLAND_CLUSTER_SIZE:(s + 1) * ROLAND_CLUSTER_SIZE]
                for s in chain)
            assert got == ("ret", expected), chain

    # malformed tables
    for round_no in range(12):
        entries = blank()
        chains = random_chains(rng, entries, usable, 6)
        victim = rng.choice(chains)
        other = rng.choice(chains)
        kind = round_no % 6
        if kind == 0:      # cycle back into the own chain
            entries[victim[-1]] = rng.choice(victim)
        elif kind == 1:    # self link
            entries[victim[0]] = victim[0]
        elif kind == 2:    # merge into another chain
            entries[victim[-1]] = rng.choice(other)
        elif kind == 3:
            entries[rng.choice(victim)] = FAT_ERROR_FLAG
        elif kind == 4:    # RESERVED in the chain
            entries[victim[-1]] = 1
        else:              # runs into a FREE entry
            entries[victim[-1]] = 0
        check_area(("malformed", kind, round_no), entries,
                   starts=[c[0] for c in chains])

    # dense random tables over a handful of clusters
    alphabet = [0, 1, FAT_ERROR_FLAG, 0xfff8, 0xffff] + list(range(2, 12))
    for round_no in range(12):
        entries = blank()
        for k in range(2, 12):
            entries[k] = rng.choice(alphabet if round_no % 2
                                    else alphabet[3:])
        check_area(("dense", round_no), entries, starts=range(0, 13))

    # truncated areas
    full = struct.pack("<%dH" % FAT_NUM_ENTRIES, *blank())
    for length in (0, 1, 2, 3, 4, 5, 8, 100, FAT_AREA_SIZE - 5,
                   FAT_AREA_SIZE - 4, FAT_AREA_SIZE - 3, FAT_AREA_SIZE - 2,
                   FAT_AREA_SIZE - 1):
        data = full[:length]
        compare(("truncated raw", length),
                lambda: raw_parse(FatAreaStruct, data),
                lambda: raw_parse(OriginalFatAreaStruct, data))
        compare(("truncated decoded", length),
                lambda: decoded(FatAreaParser, data, (), False),
                lambda: decoded(OriginalFatAreaParser, data, (), False))

    print(f"checked {checked} cases, {bad} mismatches; outcomes: {tally}")
    return 1 if bad else 0


if __name__ == "__main__":
    sys.exit(main())
