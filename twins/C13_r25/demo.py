"""Equivalence demo for FileEntriesAdapter._parse (smpl_extract/akai/file_entry.py):
the end-of-table probe `is_table_end` and the skip-a-bad-entry loop around it
(the directory table scan bounded by `for _i in range(max_table_entry_cnt)`).

An inline copy of the ORIGINAL class - executed in a copy of the globals of
smpl_extract.akai.file_entry, so both versions use the same constructs - is
compared with the class of the tree on
  * several hundred random directory tables (end flag at various places, bad
    names, bad type bytes, refused sectors, ragged and truncated tables),
    read through a stream that LOGS every tell/seek/read with its arguments
    and its result, so the order of the stream operations is compared too;
  * the same tables read through a stream that raises an exception of various
    types (OSError, ValueError, StreamError, ConstructError,
    RequestedInvalidSector, KeyboardInterrupt) at the k-th stream operation,
    or that returns short reads;
  * tables whose end is cut inside the probe (0..10 bytes left in the entry);
  * artificial sub-constructs (return None, start 0 / negative, raise
    unrelated exceptions, consume too little) to exercise every branch of the
    loop.
Compared: the entries returned (name, type, the lazily parsed file or its
exception), the exception (type, args, cause, context), the final stream
position, the log of stream operations, and the log of SAT accesses.
Exit 0 when everything agrees, 1 otherwise.
"""
import io
import random
import struct
import sys

from construct.core import Construct
from construct.core import ConstructError
from construct.core import StreamError
from construct.core import Struct
from construct.expr import this
from construct.lib.containers import Container

import smpl_extract.akai.file_entry as file_entry_module
from smpl_extract.akai.akai_string import char_ascii_to_akai
from smpl_extract.akai.data_types import FileType
from smpl_extract.akai.file_entry import FileEntryConstruct
from smpl_extract.util.fat import RequestedInvalidSector

ORIGINAL_SOURCE = '''
class FileEntriesAdapter(Subconstruct):


    def __init__(self, sat, subcon):
        super().__init__(subcon)  # type: ignore
        self.sat = sat


    def _parse(self, stream, context, path)->Iterable[FileEntry]:


        def is_table_end(stream_inner):
            original_address = stream_inner.tell()

            stream_inner.seek(8, SEEK_CUR)
            try:
                end_flag = Int16ul.parse_stream(stream_inner)
            except (StreamError):
                return True

            stream_inner.seek(original_address, SEEK_SET)

            result = (end_flag == FILE_TABLE_END_FLAG)
            return result

        
        child_info = pull_child_info(context)
        parent = child_info.parent
        sat = self.sat(context) if callable(self.sat) else self.sat

        # read file entries containers
        stream.seek(0, SEEK_END)
        file_table_size = stream.tell()
        stream.seek(0, SEEK_SET)

        table_entry_size = self.subcon.sizeof()
        max_table_entry_cnt = file_table_size // table_entry_size
        
        file_entries: List[FileEntry] = []
        for _i in range(max_table_entry_cnt):
            if is_table_end(stream):
                break
            file_entry_container: Union[FileEntryContainer, None] = None
            entry_address = stream.tell()
            try:
                file_entry_container = self.subcon.parse_stream(stream, _=context, sat=sat)
            except (ConstructError, RequestedInvalidSector):
                # skip the bad entry, stay aligned with the table
                stream.seek(entry_address + table_entry_size, SEEK_SET)

            if file_entry_container is not None and file_entry_container.start > 0:
                name = file_entry_container.name
                file_content = Lazy(FileAdapter(
                        this._.sat,
                        FileConstruct
                    )).parse_stream(
                        file_entry_container.file_stream,  # type: ignore
                        _=context,
                        file_type=file_entry_container.file_type,
                        _elem_name=name,
                        _elem_parent=parent,
                        _elem_routines=child_info.routines
                    )

                if file_content is None:
                    raise ConstructError

                file_entry = FileEntry(
                    file_entry_container.name,
                    file_entry_container.file_type,
                    file_content
                )

                file_entries.append(file_entry)

        result = file_entries
        return result


    def _build(self, obj, stream, context, path):
        raise NotImplementedError
'''

_namespace = dict(file_entry_module.__dict__)
exec(compile(ORIGINAL_SOURCE, "<original>", "exec"), _namespace)
OriginalAdapter = _namespace["FileEntriesAdapter"]
TreeAdapter = file_entry_module.FileEntriesAdapter

failures = 0
checked = 0


def report(label, new, old):
    global failures, checked
    checked += 1
    if new != old:
        failures += 1
        if failures < 10:
            print("MISMATCH", label)
            print("   new", str(new)[:700])
            print("   old", str(old)[:700])


def describe_exception(e):
    return ("raise", type(e), e.args, type(e.__cause__), type(e.__context__))


class Injected(Exception):
    pass


FAULT_TYPES = (OSError, ValueError, StreamError, ConstructError,
               RequestedInvalidSector, KeyboardInterrupt, Injected)


class LoggingStream:
    """a seekable byte stream that logs every operation; optionally raises at
    the k-th operation, or hands out short reads"""

    def __init__(self, data, fault_at=None, fault_type=None, short_reads=False):
        self.inner = io.BytesIO(data)
        self.log = []
        self.fault_at = fault_at
        self.fault_type = fault_type
        self.short_reads = short_reads

    def _step(self, *what):
        self.log.append(what)
        if self.fault_at is not None and len(self.log) - 1 == self.fault_at:
            self.log.append(("fault",))
            raise self.fault_type("injected")

    def tell(self):
        self._step("tell")
        position = self.inner.tell()
        self.log.append(("->", position))
        return position

    def seek(self, offset, whence=0):
        self._step("seek", offset, whence)
        position = self.inner.seek(offset, whence)
        self.log.append(("->", position))
        return position

    def read(self, count=-1):
        self._step("read", count)
        if self.short_reads and count > 1:
            count = count - 1
        data = self.inner.read(count)
        self.log.append(("->", data))
        return data


class FakeSat:
    """stands for the SegmentAllocationTable of the volume"""

    def __init__(self):
        self.log = []

    def get_segment(self, index):
        self.log.append(index)
        if index % 7 == 3:
            raise RequestedInvalidSector
        if index == 16:
            raise IndexError("sat")
        rng = random.Random(index)
        return io.BytesIO(bytes(rng.getrandbits(8) for _ in range(400)))


class Parent:
    path = ["img", "A", "VOL"]


# -------------------------------------------------- artificial sub-constructs
class Thing:
    def __init__(self, start):
        self.start = start
        self.name = "THING"
        self.file_type = FileType.SAMPLE_S1000 if hasattr(FileType, "SAMPLE_S1000") else list(FileType)[0]
        self.file_stream = io.BytesIO(bytes(200))


class OddSubcon(Construct):
    """24 byte records; the first byte selects what happens"""

    def __init__(self, size=24):
        super().__init__()
        self.size = size

    def _sizeof(self, context, path):
        return self.size

    def _parse(self, stream, context, path):
        head = stream.read(1)
        selector = head[0] if head else 255
        if selector % 8 == 0:
            stream.read(self.size - 1)
            return None
        if selector % 8 == 1:
            stream.read(self.size - 1)
            return Thing(0)
        if selector % 8 == 2:
            stream.read(self.size - 1)
            return Thing(-3)
        if selector % 8 == 3:
            raise ConstructError("odd")          # consumed 1 byte only
        if selector % 8 == 4:
            stream.read(5)
            raise RequestedInvalidSector          # consumed 6 bytes
        if selector % 8 == 5:
            if selector > 200:
                raise KeyError("unrelated")
            stream.read(self.size + 3)            # consumes too much
            return Thing(0)
        if selector % 8 == 6:
            stream.read(3)                        # consumes too little
            return Thing(0)
        stream.read(self.size - 1)
        return Thing(0.5) if selector < 128 else Thing(0)


# --------------------------------------------------------------- the outcome
def table_outcome(adapter_class, subcon, data, **stream_options):
    sat = FakeSat()
    body = Struct("file_entries" / adapter_class(this._.sat, subcon))
    stream = LoggingStream(data, **stream_options)
    try:
        parsed = body.parse_stream(
            stream, _=Container(marker=2), sat=sat,
            _elem_parent=Parent(), _elem_routines={}
        )
    except BaseException as e:  # noqa
        return describe_exception(e) + (stream.inner.tell(), stream.log, sat.log)
    entries = []
    for entry in parsed.file_entries:
        try:
            content = entry.file
            content = (type(content), getattr(content, "name", None),
                       getattr(content, "path", None))
        except BaseException as e:  # noqa
            content = describe_exception(e)[:2]
        entries.append((entry.name, entry.file_type, content))
    return ("ok", type(parsed.file_entries), entries, stream.inner.tell(),
            stream.log, sat.log)


def compare(label, subcon, data, **stream_options):
    report(label,
           table_outcome(TreeAdapter, subcon, data, **stream_options),
           table_outcome(OriginalAdapter, subcon, data, **stream_options))


# ------------------------------------------------------------------- inputs
NAME_ALPHABET = "ABCXYZ0189 #+-."
FILE_TYPES = [int(t) for t in FileType]
END_RECORD = bytes(8) + struct.pack("<H", 0xD747) + bytes(14)


def make_record(rng):
    kind = rng.random()
    if kind < 0.75:
        text = "".join(rng.choice(NAME_ALPHABET) for _ in range(rng.randint(0, 12)))
        name = char_ascii_to_akai(text.ljust(12))
    elif kind < 0.9:
        name = bytes(rng.randrange(0, 48) for _ in range(12))
    else:
        name = bytes(rng.getrandbits(8) for _ in range(12))
    if rng.random() < 0.05:
        # the end flag bytes one position off: not an end
        name = name[:7] + struct.pack("<H", 0xD747) + name[9:]
    file_type = rng.choice(FILE_TYPES) if rng.random() < 0.8 else rng.getrandbits(8)
    size = rng.choice((0, 1, 15, 150, 400, 401, 0xFFFFFF, rng.getrandbits(24)))
    start = rng.choice((0, 1, 2, 3, 5, 10, 16, 0xFFFF, rng.getrandbits(16)))
    record = name + bytes(rng.getrandbits(8) for _ in range(4))
    record += bytes([file_type]) + size.to_bytes(3, "little")
    record += struct.pack("<H", start) + bytes(rng.getrandbits(8) for _ in range(2))
    assert len(record) == 24
    return record


def make_table(rng):
    n = rng.randint(0, 10)
    records = [make_record(rng) for _ in range(n)]
    if records and rng.random() < 0.5:
        records[rng.randrange(len(records))] = END_RECORD
    data = b"".join(records)
    if rng.random() < 0.4:
        data += bytes(rng.getrandbits(8) for _ in range(rng.randint(1, 23)))
    if rng.random() < 0.1:
        data = data[:rng.randint(0, len(data))]
    return data


def main():
    rng = random.Random(2526)
    odd = OddSubcon()

    report("same public methods",
           sorted(k for k in vars(TreeAdapter) if not k.startswith("__")),
           sorted(k for k in vars(OriginalAdapter) if not k.startswith("__")))

    # 1. plain tables
    tables = [b"", END_RECORD, END_RECORD * 3, bytes(24), bytes(48), bytes(23),
              bytes(25), b"\xff" * 72]
    tables += [make_table(rng) for _ in range(400)]
    for n, table in enumerate(tables):
        compare("table %d" % n, FileEntryConstruct, table)

    # 2. every cut of a three-entry table (the probe runs into the end)
    good = char_ascii_to_akai("SAMPLE 1".ljust(12)) + bytes(4) + bytes([FILE_TYPES[0]])
    good += (150).to_bytes(3, "little") + struct.pack("<H", 2) + bytes(2)
    three = good + make_record(rng) + good
    for cut in range(len(three) + 1):
        compare("cut %d" % cut, FileEntryConstruct, three[:cut])
        compare("cut %d short reads" % cut, FileEntryConstruct, three[:cut],
                short_reads=True)

    # 3. faults at the k-th stream operation
    fault_tables = [three, END_RECORD, good + END_RECORD + good] + \
        [make_table(rng) for _ in range(6)]
    for n, table in enumerate(fault_tables):
        for fault_at in range(0, 34):
            for fault_type in FAULT_TYPES:
                compare("fault table %d op %d %s" % (n, fault_at, fault_type.__name__),
                        FileEntryConstruct, table,
                        fault_at=fault_at, fault_type=fault_type)

    # 4. artificial sub-constructs: every branch of the loop
    for n in range(300):
        count = rng.randint(0, 8)
        data = b"".join(
            bytes([rng.getrandbits(8)]) + bytes(rng.getrandbits(8) for _ in range(23))
            for _ in range(count))
        if count and rng.random() < 0.3:
            position = rng.randrange(count) * 24
            data = data[:position] + END_RECORD + data[position + 24:]
        data += bytes(rng.randint(0, 23))
        compare("odd %d" % n, odd, data)
        if n % 5 == 0:
            compare("odd %d faults" % n, odd, data,
                    fault_at=rng.randint(0, 30), fault_type=rng.choice(FAULT_TYPES))
            compare("odd %d short" % n, odd, data, short_reads=True)
    for size in (1, 7, 10, 11, 100):
        compare("odd size %d" % size, OddSubcon(size), bytes(range(120)))

    # 5. a sub-construct of size zero: same ZeroDivisionError
    compare("size zero", OddSubcon(0), bytes(30))

    print("checked", checked, "failures", failures)
    return 1 if failures else 0


if __name__ == "__main__":
    sys.exit(main())
