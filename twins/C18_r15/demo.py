"""r15 evidence: parse_akai_tune_cents / build_akai_tune_cents
(smpl_extract/akai/data_types.py) return bit-identical results (same type,
same float bits) or raise the same exception as the original implementation
(pasted below) for all byte values, a wide range of ints/floats and odd
inputs, also through AkaiTuneCents(Int8sl).parse / .build.
Exit 0 = all agree, 1 = difference.
"""
from decimal import Decimal
from fractions import Fraction
import math
import random
import struct
import sys
import warnings

from construct.core import ExprAdapter
from construct.core import Int8sl
from construct.core import Int8ul

import smpl_extract.akai.data_types as live


# ---------------------------------------------------------------- ORIGINAL --
def orig_parse_akai_tune_cents(obj)->float:
    # line equation: y = m(x-x1) + y1
    M = 100/255
    X1 = -128
    Y1 = -50

    x: int = obj
    if x == 0:
        return 0
    result = M*(x - X1) + Y1
    return result


def orig_build_akai_tune_cents(obj)->int:
    # line equation: y = m(x-x1) + y1
    M = 255/100
    X1 = -50
    Y1 = -128

    x: float = obj
    if x == 0:
        return 0
    result = round(M*(x - X1)) + Y1
    return result


def OrigAkaiTuneCents(subcon):
    result = ExprAdapter(
        subcon,
        lambda  x, y: orig_parse_akai_tune_cents(x),
        lambda  x, y: orig_build_akai_tune_cents(x)
    )
    return result
# ------------------------------------------------------------ END ORIGINAL --


def exact(value):
    """A representation that distinguishes 0 / 0.0 / -0.0 / nan payloads."""
    if isinstance(value, float):
        return ("float", struct.pack("<d", value))
    if isinstance(value, complex):
        return ("complex", struct.pack("<dd", value.real, value.imag))
    return (type(value).__name__, repr(value))


def outcome(fn, *args):
    try:
        value = fn(*args)
    except BaseException as exc:  # noqa: B902
        return ("exc", type(exc), str(exc))
    return ("ok", exact(value))


failures = []
checked = 0


def compare(label, new_fn, old_fn, *args):
    global checked
    checked += 1
    got = outcome(new_fn, *args)
    want = outcome(old_fn, *args)
    if got != want:
        failures.append((label, args, got, want))


class Tracer:
    """Number-like object that records the operations applied to it."""
    def __init__(self):
        self.log = []
    def __eq__(self, other):
        self.log.append(("eq", exact(other)))
        return False
    __hash__ = None
    def __sub__(self, other):
        self.log.append(("sub", exact(other)))
        return 7
    def __rsub__(self, other):
        self.log.append(("rsub", exact(other)))
        return 7


def main():
    warnings.simplefilter("ignore")   # numpy int8 overflow warnings, both sides
    rng = random.Random(1815)
    parse_new, parse_old = live.parse_akai_tune_cents, orig_parse_akai_tune_cents
    build_new, build_old = live.build_akai_tune_cents, orig_build_akai_tune_cents

    # 1. integers: the whole signed and unsigned byte domains and far beyond
    for x in range(-2000, 2001):
        compare("parse int", parse_new, parse_old, x)
        compare("build int", build_new, build_old, x)
        compare("parse float", parse_new, parse_old, float(x))
        compare("build float", build_new, build_old, x / 8)
        compare("build float2", build_new, build_old, x / 10)

    # 2. every value the parser can produce goes back to the same byte, and the
    #    builder agrees with the original on it
    for raw in range(-128, 128):
        cents = parse_new(raw)
        compare("build parsed", build_new, build_old, cents)
        if build_new(cents) != raw:
            failures.append(("roundtrip", raw, cents, build_new(cents)))

    # 3. random floats, halves (round-half-even territory), tiny and huge values
    for _ in range(20000):
        compare("build rnd", build_new, build_old, rng.uniform(-60, 60))
        compare("parse rnd", parse_new, parse_old, rng.uniform(-300, 300))
        compare("build big", build_new, build_old, rng.uniform(-1e18, 1e18))
    for k in range(-600, 600):
        compare("build half", build_new, build_old, (k + 0.5) / 2.55 - 50)
        compare("build step", build_new, build_old, k * 100 / 255)

    # 4. odd inputs
    odd = [0, 0.0, -0.0, False, True, 0j, 1j, 1 + 2j, math.nan, math.inf,
           -math.inf, 1e308, -1e308, 5e-324, 10 ** 400, -10 ** 400,
           Fraction(0), Fraction(1, 3), Fraction(-101, 2), Decimal(0),
           Decimal("1.5"), Decimal("-50"), None, "", "0", "12", b"", b"\x00",
           [], [0], (), (1,), {}, object, sys.maxsize, -sys.maxsize - 1]
    try:
        import numpy
        odd += [numpy.int8(-128), numpy.int8(0), numpy.int8(127), numpy.uint8(255),
                numpy.float32(12.5), numpy.float64(-50.0), numpy.int64(3)]
    except ImportError:
        pass
    for item in odd:
        compare("parse odd", parse_new, parse_old, item)
        compare("build odd", build_new, build_old, item)

    # 5. the same operations are applied to the argument, in the same order
    for new_fn, old_fn in ((parse_new, parse_old), (build_new, build_old)):
        t_new, t_old = Tracer(), Tracer()
        r_new, r_old = outcome(new_fn, t_new), outcome(old_fn, t_old)
        if r_new != r_old or t_new.log != t_old.log:
            failures.append(("tracer", new_fn.__name__, (r_new, t_new.log),
                             (r_old, t_old.log)))

    # 6. through the construct adapter used by the sample / keygroup / program
    #    structs, every byte
    new_con, old_con = live.AkaiTuneCents(Int8sl), OrigAkaiTuneCents(Int8sl)
    new_ucon, old_ucon = live.AkaiTuneCents(Int8ul), OrigAkaiTuneCents(Int8ul)
    for b in range(256):
        raw = bytes([b])
        compare("con parse", new_con.parse, old_con.parse, raw)
        compare("ucon parse", new_ucon.parse, old_ucon.parse, raw)
        cents = new_con.parse(raw)
        compare("con build", new_con.build, old_con.build, cents)
        if new_con.build(cents) != raw:
            failures.append(("con roundtrip", b, cents, new_con.build(cents)))
    for cents in (-51, -50.2, -50, 50, 50.1, 50.2, 51, 1000, None, "x"):
        compare("con build range", new_con.build, old_con.build, cents)
        compare("ucon build range", new_ucon.build, old_ucon.build, cents)

    # 7. keyword call with the public parameter name
    compare("kw parse", lambda: parse_new(obj=17), lambda: parse_old(obj=17))
    compare("kw build", lambda: build_new(obj=1.7), lambda: build_old(obj=1.7))

    print(f"r15: {checked} comparisons, {len(failures)} differences")
    for failure in failures[:10]:
        print("DIFF", failure)
    return 1 if failures else 0


if __name__ == "__main__":
    sys.exit(main())
