# ---------------------------------------------------------------------------
# Shared part of the equivalence demos (pasted verbatim into every demo.py so
# that each demo is stand-alone).
#
# ORIGINAL implementations (copied from the unmodified tree) of every
# byte-window view, followed by a differential harness that drives an ORIGINAL
# view and the LIVE view (imported from smpl_extract) with the same operation
# history over identical, call-tracing backing streams and compares
#   * every return value / raised exception (type name + message),
#   * position / true_size after every operation,
#   * the exact sequence of seek/read/tell calls made on the backing stream.
# ---------------------------------------------------------------------------
import itertools
import random
import sys
from io import BytesIO, IOBase, SEEK_CUR, SEEK_END, SEEK_SET
from typing import Union

import numpy as np

import smpl_extract.util.stream as live_stream
import smpl_extract.util.sector as live_sector
import smpl_extract.util.fat as live_fat
import smpl_extract.alcohol.mdf as live_mdf


# ------------------------------ ORIGINAL code ------------------------------
class O_AttemptToReadBeyondBuffer(Exception): ...
class O_SectorReadError(Exception): ...
class O_BadReadSize(Exception): ...
class O_BadAlign(Exception): ...


class O_StreamWrapper(IOBase):
    def __init__(self, substream, size, position=0, buffer_length=0x1000):
        self.substream = substream
        self.end_of_file = size
        self.position = position
        self.buffer_length = buffer_length
        self.true_size = buffer_length

    def _translate_addr(self, address):
        return address

    def _seek(self, address):
        true_address = self._translate_addr(address)
        result = self.substream.seek(true_address, SEEK_SET)
        return result

    def _read(self, size):
        result = self.substream.read(size)
        return result

    def tell(self):
        return self.position

    def seek(self, offset, whence=SEEK_CUR):
        starting_position = 0
        if whence == SEEK_CUR:
            starting_position = self.position
        elif whence == SEEK_END:
            starting_position = self.end_of_file

        new_position = starting_position + offset
        if new_position > self.end_of_file:
            new_position = self.end_of_file
        elif new_position < 0:
            new_position = 0

        self.true_size = 0
        self._seek(new_position)
        self.position = new_position
        return new_position

    def read(self, size: Union[int, None]):
        if size is None or size < 0:
            return self.readall()

        self.true_size = size
        if self.end_of_file is not None:  # as in the tree after the empty-view fix
            self.true_size = min(self.end_of_file - self.position, size)
        if self.true_size < 0:
            self.true_size = 0

        true_position = self.substream.tell()
        expected_position = self._translate_addr(self.position)
        if expected_position != true_position:
            self._seek(self.position)

        result = self._read(self.true_size)
        self.position += self.true_size
        return result

    def readall(self):
        result = bytes()
        while True:
            new_read = self.read(self.buffer_length)
            if len(new_read) < 1:
                break
            result += new_read
        return result


class O_StreamOffset(O_StreamWrapper):
    def __init__(self, substream, size, offset, position=0,
                 buffer_length=0x1000):
        super().__init__(substream, size, position=position,
                         buffer_length=buffer_length)
        self.offset = offset

    def _translate_addr(self, address):
        true_address = self.offset + address
        return true_address


class O_StreamReversed(O_StreamWrapper):
    def __init__(self, substream, size, sample_width=1, position=0,
                 buffer_length=0x1000):
        super().__init__(substream, size, position=position,
                         buffer_length=buffer_length)
        self.sample_width = sample_width

    def _translate_addr(self, address):
        if self.true_size % self.sample_width != 0:
            raise O_BadReadSize(
                f"Read Size: {self.true_size} is not evenly "
                f"divisible by {self.sample_width}."
            )
        true_address = self.end_of_file - (address + self.true_size)
        if true_address % self.sample_width != 0:
            raise O_BadAlign(
                f"Position: {true_address} is not evenly "
                f"divisible by {self.sample_width}."
            )
        return true_address

    def _read(self, size):
        raw = super()._read(size)

        arr = np.frombuffer(raw, np.dtype("int8"))
        num_cols = self.sample_width
        num_rows = size // self.sample_width

        arr = np.reshape(arr, [num_rows, num_cols])
        arr = np.flip(arr, 0)
        arr = arr.flatten(order="C")

        result = arr.tobytes()
        return result


class O_SectorStream(O_StreamWrapper):
    def __init__(self, parent_stream, size, sector_length, position=0,
                 buffer_length=0x1000):
        super().__init__(parent_stream, size=size, position=position,
                         buffer_length=buffer_length)
        self.sector_length = sector_length

    def _get_address_given_sector_index(self, sector_index, offset):
        sector_address = sector_index * self.sector_length
        parent_address = sector_address + offset
        return parent_address

    def _translate_address(self, content_address):
        if content_address >= self.end_of_file:
            return self.end_of_file
        sector_index = content_address // self.sector_length
        sector_offset = content_address % self.sector_length
        partition_address = self._get_address_given_sector_index(
            sector_index, sector_offset)
        return partition_address

    def _read_sector(self, sector_index, offset, size):
        if offset + size > self.sector_length:
            raise O_AttemptToReadBeyondBuffer("Reading too much")
        start_address = self._get_address_given_sector_index(
            sector_index, offset)
        self.substream.seek(start_address, SEEK_SET)
        result = self.substream.read(size)
        return result

    def _read(self, size):
        if size <= 0:
            return bytes()

        remaining_size = size

        initial_sector_index = self.position // self.sector_length
        initial_sector_offset = self.position % self.sector_length

        # read partial initial sector
        if initial_sector_offset + size <= self.sector_length:
            initial_read_size = size
        else:
            initial_read_size = self.sector_length - initial_sector_offset
        result = self._read_sector(
            initial_sector_index, initial_sector_offset, initial_read_size)
        remaining_size -= initial_read_size

        # read full size middle sectors
        i = 1
        while remaining_size > self.sector_length:
            result += self._read_sector(
                initial_sector_index + i, 0, self.sector_length)
            remaining_size -= self.sector_length
            i += 1

        # read partial final sector
        final_sector_index = initial_sector_index + i
        if remaining_size > 0:
            result += self._read_sector(final_sector_index, 0, remaining_size)

        if len(result) != size:
            raise O_SectorReadError(f"Wanted {size}, read {len(result)}.")

        return result


class O_FileStream(O_SectorStream):
    def __init__(self, parent_stream, sector_size, sector_list, position=0,
                 buffer_length=0x1000):
        super().__init__(parent_stream,
                         size=(sector_size * len(sector_list)),
                         sector_length=sector_size, position=position,
                         buffer_length=buffer_length)
        self.sector_list = sector_list

    def _get_address_given_sector_index(self, sector_index, offset):
        try:  # as in the tree after the short-read fix (d08b0af)
            sector = self.sector_list[sector_index]
        except IndexError as e:
            raise O_SectorReadError(
                f"Sector {sector_index} lies beyond the "
                f"{len(self.sector_list)} sectors of the file."
            ) from e
        result = super()._get_address_given_sector_index(sector, offset)
        return result


O_MDF_SECTOR_SIZE = 2352
O_MDF_SECTOR_HEADER_SIZE = 16
O_MDF_SECTOR_BODY_SIZE = 2048
O_MDF_SECTOR_FOOTER_SIZE = 288


class O_MdfStream(O_SectorStream):
    def __init__(self, parent_stream, position=0, buffer_length=0x1000):
        # get parent size
        offset = parent_stream.tell()
        parent_stream.seek(0, SEEK_END)
        parent_size = parent_stream.tell()
        parent_stream.seek(offset, SEEK_SET)

        num_sectors = parent_size // O_MDF_SECTOR_SIZE
        size = num_sectors * O_MDF_SECTOR_BODY_SIZE

        super().__init__(parent_stream, size=size,
                         sector_length=O_MDF_SECTOR_BODY_SIZE,
                         position=position, buffer_length=buffer_length)

    def _get_address_given_sector_index(self, sector_index, offset):
        sector_address = sector_index * O_MDF_SECTOR_SIZE
        mdf_address = sector_address + O_MDF_SECTOR_HEADER_SIZE + offset
        return mdf_address


# ------------------------------ harness ------------------------------------
ORIG = {
    "wrap": O_StreamWrapper, "offset": O_StreamOffset,
    "rev": O_StreamReversed, "sector": O_SectorStream,
    "file": O_FileStream, "mdf": O_MdfStream,
}
LIVE = {
    "wrap": live_stream.StreamWrapper, "offset": live_stream.StreamOffset,
    "rev": live_stream.StreamReversed, "sector": live_sector.SectorStream,
    "file": live_fat.FileStream, "mdf": live_mdf.MdfStream,
}


class TraceIO(BytesIO):
    """BytesIO that records every call made on it (shared-stream order)."""

    def __init__(self, data):
        super().__init__(data)
        self.log = []

    def seek(self, *a):
        try:
            r = super().seek(*a)
        except Exception as e:          # noqa: BLE001
            self.log.append(("seek", a, "EXC", type(e).__name__, str(e)))
            raise
        self.log.append(("seek", a, r))
        return r

    def read(self, *a):
        try:
            r = super().read(*a)
        except Exception as e:          # noqa: BLE001
            self.log.append(("read", a, "EXC", type(e).__name__, str(e)))
            raise
        self.log.append(("read", a, r))
        return r

    def tell(self):
        r = super().tell()
        self.log.append(("tell", r))
        return r


def exc_name(e):
    n = type(e).__name__
    return n[2:] if n.startswith("O_") else n


def build(table, data, layers):
    """layers: list of (kind, args, kwargs) from innermost to outermost."""
    base = TraceIO(data)
    s = base
    views = []
    for kind, args, kwargs in layers:
        s = table[kind](s, *args, **kwargs)
        views.append(s)
    return base, s, views


def state(views):
    return tuple((v.position, v.true_size, v.end_of_file) for v in views)


def run(table, data, layers, ops):
    out = []
    try:
        base, top, views = build(table, data, layers)
    except Exception as e:              # noqa: BLE001
        return [("BUILD-EXC", exc_name(e), str(e))]
    for op in ops:
        try:
            if op[0] == "seek":
                r = top.seek(*op[1:])
            elif op[0] == "read":
                r = top.read(op[1])
            elif op[0] == "tell":
                r = top.tell()
            elif op[0] == "readall":
                r = top.readall()
            else:
                raise AssertionError(op)
            out.append(("ok", op, r, type(r).__name__, state(views)))
        except Exception as e:          # noqa: BLE001
            out.append(("exc", op, exc_name(e), str(e), state(views)))
    out.append(("trace", tuple(base.log)))
    return out


FAILURES = []
CASES = [0]


def check(data, layers, ops, label=""):
    CASES[0] += 1
    a = run(ORIG, data, layers, ops)
    b = run(LIVE, data, layers, ops)
    if a != b:
        FAILURES.append((label, layers, ops))
        if len(FAILURES) <= 5:
            print("MISMATCH", label, layers, ops, file=sys.stderr)
            for x, y in zip(a, b):
                if x != y:
                    print("  orig:", x, file=sys.stderr)
                    print("  live:", y, file=sys.stderr)
                    break


def rand_ops(rng, n, span, aligned=1):
    ops = []
    for _ in range(n):
        k = rng.random()
        if k < 0.35:
            wh = rng.choice([SEEK_SET, SEEK_CUR, SEEK_END, SEEK_CUR, 3])
            off = rng.randint(-span - 3, span + 3)
            if aligned > 1 and rng.random() < 0.8:
                off -= off % aligned
            if rng.random() < 0.5:
                ops.append(("seek", off, wh))
            else:
                ops.append(("seek", off) if wh == SEEK_CUR
                           else ("seek", off, wh))
        elif k < 0.45:
            ops.append(("tell",))
        elif k < 0.50:
            ops.append(("read", rng.choice([None, -1])))
        else:
            n_ = rng.choice([0, 0, 1, 2, 3, rng.randint(0, span + 4)])
            if aligned > 1 and rng.random() < 0.8:
                n_ -= n_ % aligned
            ops.append(("read", n_))
    return ops


def rand_layers(rng, depth):
    """Random nesting (innermost first) together with matching backing data."""
    layers = []
    # innermost layer decides how much backing data is needed
    first = rng.choice(["offset", "sector", "file", "mdf", "wrap", "rev"])
    if first == "mdf":
        nsec = rng.randint(1, 3)
        data = bytes(rng.randrange(256)
                     for _ in range(nsec * 2352 + rng.choice([0, 0, 5])))
        layers.append(("mdf", (), {"buffer_length": rng.choice([7, 0x1000])}))
        length = nsec * 2048
    else:
        n = rng.randint(1, 64)
        data = bytes(rng.randrange(256) for _ in range(n))
        length = n
        layers = []
        # treat as an identity wrapper first so the loop below handles it
        depth += 1
    for _ in range(depth - 1):
        kind = rng.choice(["offset", "sector", "file", "wrap", "rev"])
        bl = rng.choice([1, 3, 8, 0x1000])
        if kind == "offset":
            off = rng.randint(0, max(0, length - 1))
            size = rng.randint(1, max(1, length - off))
            if rng.random() < 0.1:
                size += rng.randint(1, 4)       # window past the parent end
            layers.append(("offset", (size, off), {"buffer_length": bl}))
            length = size
        elif kind == "wrap":
            size = rng.randint(1, length + (1 if rng.random() < 0.1 else 0))
            layers.append(("wrap", (size,), {"buffer_length": bl}))
            length = size
        elif kind == "rev":
            sw = rng.choice([1, 1, 2, 3, 4])
            size = length - (length % sw) if rng.random() < 0.85 else length
            size = max(size, 1)
            layers.append(("rev", (size,), {"sample_width": sw,
                                           "buffer_length": bl * sw}))
            length = size
        elif kind == "sector":
            sl = rng.randint(1, max(1, min(length, 9)))
            size = rng.randint(1, length)
            layers.append(("sector", (size, sl), {"buffer_length": bl}))
            length = size
        elif kind == "file":
            ss = rng.randint(1, max(1, min(length, 7)))
            nsec = max(1, length // ss)
            k = rng.randint(1, nsec)
            chain = rng.sample(range(nsec), k)
            if rng.random() < 0.1:
                chain.append(nsec + 1)          # sector beyond the parent
            layers.append(("file", (ss, chain), {"buffer_length": bl}))
            length = ss * len(chain)
    return data, layers, length


def exhaustive_small(kinds_layers, data, max_len, offsets, sizes, label):
    alphabet = [("tell",)]
    for wh in (SEEK_SET, SEEK_CUR, SEEK_END):
        for off in offsets:
            alphabet.append(("seek", off, wh))
    for n in sizes:
        alphabet.append(("read", n))
    for L in range(1, max_len + 1):
        for ops in itertools.product(alphabet, repeat=L):
            check(data, kinds_layers, list(ops), label)


def common_suite(seed=20260928, n_random=1500):
    rng = random.Random(seed)
    data8 = bytes(range(10, 18))

    # exhaustive short histories over tiny streams, one per view type
    exhaustive_small([("wrap", (5,), {})], data8, 3,
                     [-7, -1, 0, 1, 2, 5, 6], [0, 1, 3, 5, 9, None], "wrap")
    exhaustive_small([("offset", (4, 3), {})], data8, 3,
                     [-5, -1, 0, 1, 3, 4, 5], [0, 1, 2, 4, 6, -1], "offset")
    exhaustive_small([("sector", (7, 3), {})], data8, 3,
                     [-8, -1, 0, 1, 3, 6, 7, 8], [0, 1, 3, 4, 7, 8], "sector")
    exhaustive_small([("file", (2, [3, 0, 2]), {})], data8, 3,
                     [-7, -2, 0, 1, 2, 4, 6, 7], [0, 1, 2, 3, 6, 7], "file")
    exhaustive_small([("rev", (8,), {"sample_width": 2})], data8, 3,
                     [-9, -2, 0, 1, 2, 4, 8, 9], [0, 1, 2, 4, 8, 10], "rev2")
    exhaustive_small([("rev", (6,), {"sample_width": 3})], data8, 2,
                     [-6, -3, 0, 1, 3, 6, 7], [0, 2, 3, 6, 9], "rev3")
    mdf_data = bytes((i * 7 + 3) % 256 for i in range(2 * 2352))
    exhaustive_small([("mdf", (), {})], mdf_data, 2,
                     [-4096, -2049, -2048, -1, 0, 1, 2047, 2048, 2049, 4096,
                      5000],
                     [0, 1, 2047, 2048, 2049, 4095, 4096, 4097], "mdf")
    # degenerate lengths (empty / negative size) keep their quirks, too
    for size in (0, -3):
        exhaustive_small([("wrap", (size,), {})], data8, 2,
                         [-4, -3, -1, 0, 2, 9], [0, 1, 9], "wrap-degenerate")
        exhaustive_small([("offset", (size, 2), {})], data8, 2,
                         [-4, -3, -1, 0, 2, 9], [0, 1, 9], "off-degenerate")

    # long random histories over random nestings up to depth 4
    for _ in range(n_random):
        depth = rng.randint(1, 4)
        data, layers, length = rand_layers(rng, depth)
        aligned = 1
        for kind, _a, kw in layers:
            if kind == "rev":
                aligned = max(aligned, kw["sample_width"])
        ops = rand_ops(rng, rng.randint(5, 40), length, aligned)
        check(data, layers, ops, "random")


def finish():
    print(f"{CASES[0]} histories compared, {len(FAILURES)} mismatches")
    sys.exit(1 if FAILURES else 0)


# --------------------- r3 specific: SectorStream._read ---------------------
def r3_specific():
    """Call _read directly (no clipping by read()) for every cursor / size /
    sector length on plain, chained and raw-sector streams: reads spanning
    0..k sector boundaries, reads past the backing data (SectorReadError),
    past the chain (IndexError), size <= 0, sector_length 0, and record the
    (sector_index, offset, size) arguments of every _read_sector call."""
    data = bytes((i * 37 + 11) % 256 for i in range(24))

    def run_one(cls, args, kwargs, pos, size):
        base = TraceIO(data if cls.__name__.find("Mdf") < 0 else mdf_data)
        calls = []

        class Rec(cls):
            def _read_sector(self, sector_index, offset, size):
                calls.append((sector_index, offset, size))
                return super()._read_sector(sector_index, offset, size)

        v = Rec(base, *args, **kwargs)
        v.position = pos
        try:
            r = ("ok", v._read(size))
        except Exception as e:          # noqa: BLE001
            r = ("exc", exc_name(e), str(e))
        return r, tuple(calls), v.position, v.true_size, tuple(base.log)

    def cmp(kind, args, kwargs, pos, size):
        CASES[0] += 1
        a = run_one(ORIG[kind], args, kwargs, pos, size)
        b = run_one(LIVE[kind], args, kwargs, pos, size)
        if a != b:
            FAILURES.append(("r3", kind, args, pos, size))
            if len(FAILURES) <= 5:
                print("MISMATCH r3", kind, args, pos, size, a, b,
                      file=sys.stderr)

    mdf_data = bytes((i * 13 + 5) % 256 for i in range(3 * 2352 + 9))
    for sl in (0, 1, 2, 3, 4, 5, 7, 8, 24, 30):
        for pos in list(range(0, 27)) + [-1, -5, 40]:
            for size in list(range(-2, 30)) + [48, 100]:
                cmp("sector", (24, sl), {}, pos, size)
    chains = [[0], [2, 0, 1], [5, 4, 3, 2, 1, 0], [1, 1, 1], [3, 7, 9],
              [0, 50], []]
    for ss in (1, 2, 3, 4, 5):
        for chain in chains:
            for pos in range(-1, ss * len(chain) + 3):
                for size in range(-1, ss * len(chain) + 5):
                    cmp("file", (ss, chain), {}, pos, size)
    for pos in (0, 1, 2047, 2048, 2049, 4095, 4096, 4097, 6143, 6144, 6200):
        for size in (0, 1, 2, 2047, 2048, 2049, 4095, 4096, 4097, 6144,
                     6145, 9000):
            cmp("mdf", (), {}, pos, size)


if __name__ == "__main__":
    r3_specific()
    common_suite()
    finish()
