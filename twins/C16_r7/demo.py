"""Equivalence demo for r7: ls_action (smpl_extract/actions.py).

The live `ls_action` is compared with an inline copy of the ORIGINAL function
(wrapped by an inline copy of the original `_wrap_filestream`).

Three families of inputs:
  1. recording fakes - every call made on the image / item / info object is
     logged together with the arguments (incl. the routines dict: type, key
     order, bound targets), and each step can be scripted to raise;
  2. real `smpl_extract.structural.Image` trees with colliding and unsafe
     names, listed at many valid and invalid paths, in random histories on one
     shared object versus fresh objects;
  3. string inputs (paths of small garbage files) that go through
     determine_image_type.
Observables compared: return value, exception type+message, captured stdout and
the call log.
"""
import contextlib
import io
import os
import random
import sys
import tempfile
from functools import wraps
from typing import Callable, Dict, Union

from smpl_extract import actions
from smpl_extract.actions import determine_image_type
from smpl_extract.actions import ls_action
from smpl_extract.base import Element
from smpl_extract.base import ElementTypes
from smpl_extract.info import InfoTable
from smpl_extract.structural import ErrorInvalidPath
from smpl_extract.structural import ErrorNotTraversable
from smpl_extract.structural import Image
from smpl_extract.structural import T_ROUTINE
from smpl_extract.structural import Traversable


# --------------------------------------------------------------------------
# inline copy of the ORIGINAL implementation
# --------------------------------------------------------------------------
def _orig_wrap_filestream(func: Callable):
    @wraps(func)
    def inner(file: Union[str, Image], *args, **kwargs):
        if isinstance(file, str):
            result = determine_image_type(file)
        else:
            result = file
        func(result, *args, **kwargs)
    return inner


@_orig_wrap_filestream
def orig_ls_action(image: Image, path: str):

    routines: Dict[str, T_ROUTINE] = {
        "make_safe_names": image.make_safe_names_routine,
        "make_export_names": image.make_export_names_routine
    }

    image.set_routines(routines)

    try:
        item = image.parse_path(path)
    except ErrorInvalidPath as e:
        print(e)
        return

    info = item.get_info()
    result_str = info.to_string()
    print(result_str)


# --------------------------------------------------------------------------
# helpers
# --------------------------------------------------------------------------
class Boom(Exception):
    pass


def observe(func, *args, **kwargs):
    out = io.StringIO()
    try:
        with contextlib.redirect_stdout(out):
            ret = func(*args, **kwargs)
        return ("ok", repr(ret), out.getvalue())
    except BaseException as e:  # noqa - everything is an observable here
        return ("exc", type(e).__name__, str(e), out.getvalue())


# --------------------------------------------------------------------------
# 1. recording fakes
# --------------------------------------------------------------------------
class PrintsOddly:
    """str() of this object is scripted (print(e) calls str)."""

    def __init__(self, text):
        self.text = text

    def __str__(self):
        return self.text


class FakeInfo:
    def __init__(self, log, spec):
        self.log = log
        self.spec = spec

    def to_string(self):
        self.log.append(("to_string",))
        if self.spec["to_string"] == "raise":
            raise Boom("to_string")
        if self.spec["to_string"] == "raise_invalid_path":
            raise ErrorInvalidPath("late invalid path from to_string")
        if self.spec["to_string"] == "non_str":
            return PrintsOddly("odd <%s>" % self.spec["text"])
        return self.spec["text"]


class FakeItem:
    def __init__(self, log, spec):
        self.log = log
        self.spec = spec

    def get_info(self):
        self.log.append(("get_info",))
        if self.spec["get_info"] == "raise":
            raise Boom("get_info")
        if self.spec["get_info"] == "raise_invalid_path":
            raise ErrorInvalidPath("late invalid path from get_info")
        if self.spec["get_info"] == "none":
            return None
        return FakeInfo(self.log, self.spec)


class FakeImage:
    def __init__(self, log, spec):
        self.log = log
        self.spec = spec

    def make_safe_names_routine(self, elements):
        return elements

    def make_export_names_routine(self, elements):
        return elements

    def set_routines(self, routines):
        self.log.append((
            "set_routines", type(routines).__name__, list(routines.keys()),
            [getattr(v, "__func__", None) is getattr(type(self), k + "_routine")
             and v.__self__ is self for k, v in routines.items()],
        ))
        if self.spec["set_routines"] == "raise":
            raise Boom("set_routines")
        if self.spec["set_routines"] == "raise_invalid_path":
            raise ErrorInvalidPath("early invalid path")

    def parse_path(self, path):
        self.log.append(("parse_path", path))
        mode = self.spec["parse_path"]
        if mode == "invalid":
            raise ErrorInvalidPath("The entity \"%s\" was not found." % path)
        if mode == "invalid_empty":
            raise ErrorInvalidPath()
        if mode == "invalid_multi":
            raise ErrorInvalidPath("a", 2, path)
        if mode == "not_traversable":
            raise ErrorNotTraversable("nope")
        if mode == "boom":
            raise Boom("parse_path")
        if mode == "keyboard":
            raise KeyboardInterrupt()
        if mode == "none":
            return None
        return FakeItem(self.log, self.spec)


def fake_specs(rng):
    specs = []
    parse_modes = ["ok", "invalid", "invalid_empty", "invalid_multi",
                   "not_traversable", "boom", "keyboard", "none"]
    set_modes = ["ok", "ok", "raise", "raise_invalid_path"]
    info_modes = ["ok", "raise", "raise_invalid_path", "none"]
    str_modes = ["ok", "raise", "raise_invalid_path", "non_str"]
    texts = ["", "x", "Item  Type\n----\nA  Sample", "line\n", "éè",
             "{}%s"]
    paths = ["", "/", "A", "A/B", "A\\B", " spaced / path ", "é"]
    for p in parse_modes:
        for s in set_modes:
            for g in info_modes:
                for t in str_modes:
                    specs.append({
                        "parse_path": p, "set_routines": s, "get_info": g,
                        "to_string": t, "text": rng.choice(texts),
                        "path": rng.choice(paths),
                    })
    return specs


def run_fake(func, spec):
    log = []
    image = FakeImage(log, spec)
    result = observe(func, image, spec["path"])
    return (result, log)


# --------------------------------------------------------------------------
# 2. real Image trees
# --------------------------------------------------------------------------
class Leaf(Element):
    type_id = ElementTypes.ProgramEntry
    type_name = "Leaf"

    def __init__(self, name, path, parent):
        super().__init__(path, parent)
        self.name = name

    def get_info(self):
        return InfoTable(("Leaf", "Safe", "Export"),
                         [(self.name, self.safe_name, self.export_name)])


DIR_NAMES = ["VOL 1", "VOL 1", "vol:2", "  pad  ", "a/b", "'quoted'", "",
             "STRINGS -L", "STRINGS -R", "x" * 30, "Über"]
LEAF_NAMES = ["KICK", "KICK", "KICK", "SNARE -L", "SNARE -R", "hat.", "..",
              "", "a`b\"c", "name (2)", "name", "name", "#1", "-"]


def make_tree(seed):

    def make_dir(name, path, parent, depth):
        def realize(context):
            me = context["_elem_parent"]
            # content depends only on (seed, location), not on access order
            rng = random.Random(repr((seed, me.path, depth)))
            routines = context["_elem_routines"]
            children = []
            for _ in range(rng.randint(0, 5)):
                if depth < 2 and rng.random() < 0.4:
                    child_name = rng.choice(DIR_NAMES)
                    child = make_dir(child_name, me.path + [child_name], me,
                                     depth + 1)
                    child.set_routines(routines)
                else:
                    child_name = rng.choice(LEAF_NAMES)
                    child = Leaf(child_name, me.path + [child_name], me)
                children.append(child)
            return children
        if depth == 0:
            node = Image(realize)
        else:
            node = Traversable(realize, path=path, parent=parent,
                               type_name="Dir")
        node.name = name
        return node

    return make_dir("image", [], None, 0)


def collect_paths(seed):
    """Valid paths (by safe name) of a tree, plus invalid ones."""
    image = make_tree(seed)
    image.set_routines({
        "make_safe_names": image.make_safe_names_routine,
        "make_export_names": image.make_export_names_routine,
    })
    paths = ["", "/", " ", "nope", "nope/deeper", "//", "\\"]

    def walk(node, prefix):
        for child in node.children:
            p = prefix + child.safe_name
            paths.append(p)
            paths.append(p + "/")
            paths.append(p.replace("/", "\\"))
            paths.append(p + "/missing")
            if isinstance(child, Traversable):
                walk(child, p + "/")
    walk(image, "")
    return paths


def run_real_history(func, seed, history, shared):
    results = []
    image = make_tree(seed)
    for path in history:
        if not shared:
            image = make_tree(seed)
        results.append(observe(func, image, path))
    return results


# --------------------------------------------------------------------------
# 3. string inputs
# --------------------------------------------------------------------------
def run_string_inputs(func, file_paths):
    results = []
    for fp in file_paths:
        for path in ("", "A", "A/B"):
            results.append(observe(func, fp, path))
    return results


def main():
    rng = random.Random(160007)
    bad = 0
    total = 0

    # the live function must still be the wrapped public one
    if ls_action.__name__ != "ls_action" or actions.ls_action is not ls_action:
        print("ls_action identity changed")
        bad += 1

    for spec in fake_specs(rng):
        total += 1
        live = run_fake(ls_action, spec)
        ref = run_fake(orig_ls_action, spec)
        if live != ref:
            bad += 1
            if bad <= 5:
                print("MISMATCH (fake)", spec, "\n  live:", live,
                      "\n  ref :", ref)

    for seed in range(60):
        paths = collect_paths(seed)
        for _ in range(6):
            history = [rng.choice(paths) for _ in range(rng.randint(1, 8))]
            for shared in (True, False):
                total += 1
                live = run_real_history(ls_action, seed, history, shared)
                ref = run_real_history(orig_ls_action, seed, history, shared)
                if live != ref:
                    bad += 1
                    if bad <= 5:
                        print("MISMATCH (real)", seed, history, shared)
        # every path once, fresh object each
        total += 1
        live = run_real_history(ls_action, seed, paths, False)
        ref = run_real_history(orig_ls_action, seed, paths, False)
        if live != ref:
            bad += 1
            if bad <= 5:
                print("MISMATCH (real, all paths)", seed)

    with tempfile.TemporaryDirectory() as tmp:
        file_paths = []
        blobs = [b"", b"\x00" * 64, b"garbage" * 100,
                 bytes(rng.randrange(256) for _ in range(4096)),
                 b"FILE \"x.bin\" BINARY\n  TRACK 01 AUDIO\n"]
        for i, blob in enumerate(blobs):
            fp = os.path.join(tmp, "blob%d.img" % i)
            with open(fp, "wb") as fh:
                fh.write(blob)
            file_paths.append(fp)
        file_paths.append(os.path.join(tmp, "does_not_exist.img"))
        total += 1
        live = run_string_inputs(ls_action, file_paths)
        ref = run_string_inputs(orig_ls_action, file_paths)
        if live != ref:
            bad += 1
            print("MISMATCH (string inputs)")
            for a, b in zip(live, ref):
                if a != b:
                    print("  live:", a, "\n  ref :", b)
                    break

    print("cases: %d, mismatches: %d" % (total, bad))
    return 1 if bad else 0


if __name__ == "__main__":
    sys.exit(main())
